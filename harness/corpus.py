"""The upstream regression corpus: configurations of regression/do-test.py."""
import ast as pyast
import os
import re

from common import REPO


class TestDesc(object):
    def __init__(self, name, yaml=None, cmdline=None):
        self.name = name
        self.yaml = (yaml or name) + ".yaml"
        self.cmdline = cmdline or []

    def __repr__(self):
        return "TestDesc(%s,%s,%s)" % (self.name, self.yaml, self.cmdline)


def tests():
    """Parse availTests out of do-test.py without executing the script."""
    src = open(os.path.join(REPO, "regression", "do-test.py")).read()
    tree = pyast.parse(src)
    for node in pyast.walk(tree):
        if isinstance(node, pyast.Assign) and getattr(node.targets[0], "id", "") == "availTests":
            code = compile(pyast.Expression(node.value), "do-test", "eval")
            return eval(code, {"TestDesc": TestDesc})
    raise RuntimeError("availTests not found")


INPUT = os.path.join(REPO, "regression", "input")
REFERENCE = os.path.join(REPO, "regression", "reference")


def base_args(outdir):
    return ["--path", INPUT, "--logdir", outdir, "--outdir", outdir,
            "--option", "debug_testsuite=true", "--nowrite-version"]


def quick_subset():
    want = ["tutorial", "strings", "classes", "clibrary", "templates", "generic", "vectors-list",
            "struct-c", "names", "pointers-c"]
    ts = {t.name: t for t in tests()}
    return [ts[n] for n in want if n in ts]
