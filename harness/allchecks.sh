cd "$(dirname "$0")/.."
for i in 01 02 03 04 05 06 07 08 09 10 11 12 13 14 15 16 17 18; do
  s=$(date +%s); out=$(./check C$i ${1:-quick} 2>&1); rc=$?; e=$(date +%s)
  echo "C$i rc=$rc $((e-s))s $(echo "$out" | grep -c '^VIOLATION') viol $(echo "$out" | grep -c '^KNOWN-FINDING') known :: $(echo "$out" | tail -1 | cut -c1-150)"
done
