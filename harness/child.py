"""Child process: run Shroud's command line (or several in-process runs) from
the working tree under test, optionally with probes installed.

usage: child.py [--probes a,b,c] [--trace FILE] [--api] -- <shroud argv> [-- <shroud argv>]...
Several argv groups separated by `--` are executed one after another in this
one process (histories for C07).
"""
import json
import os
import sys

HERE = os.path.dirname(os.path.abspath(__file__))
sys.path.insert(0, HERE)
import common  # noqa: E402


def main():
    argv = sys.argv[1:]
    probes = []
    trace = None
    while argv and argv[0] != "--":
        a = argv.pop(0)
        if a == "--probes":
            probes = [p for p in argv.pop(0).split(",") if p]
        elif a == "--trace":
            trace = argv.pop(0)
        else:
            raise SystemExit("child.py: bad arg " + a)
    groups = []
    cur = None
    for a in argv:
        if a == "--":
            cur = []
            groups.append(cur)
        else:
            cur.append(a)
    common.import_shroud()
    import shroud.main

    events = []
    if probes:
        if os.environ.get(common.GUARD) != "1":
            raise SystemExit("probes requested but %s != 1" % common.GUARD)
        import probes as P

        P.install(probes, events)
    rc = 0
    for g in groups:
        sys.argv = ["shroud"] + g
        events.append({"e": "RunBegin", "argv": g}) if probes else None
        try:
            shroud.main.main()
        except SystemExit as ex:
            code = ex.code
            if code not in (None, 0):
                rc = code if isinstance(code, int) else 1
                if not isinstance(code, int):
                    sys.stderr.write(str(code) + "\n")
        events.append({"e": "RunEnd"}) if probes else None
    if trace:
        with open(trace, "w") as f:
            for ev in events:
                f.write(json.dumps(ev) + "\n")
    sys.stdout.flush()
    sys.exit(rc)


main()
