"""Name resolution of type names: specs/Symtab.tla against the real symbol
tables of shroud/ast.py + shroud/declast.py, and against g++.

A description is a tree of scopes (global, namespaces, a class) with type
declarations (struct, class, enum, typedef) of a few names, some of them
shadowing a declaration of an enclosing scope, and *uses*: functions whose
single parameter type is a (partly) qualified name.  The real Shroud builds
its library from the YAML; the typemap each parameter resolved to (or the
diagnostic) is the observation.  The same description is written as C++ and
compiled with g++: each use that the specification resolves must denote that
very type for the compiler too (static_assert is_same), which ties the
specification to the language it claims to describe.
"""
import json
import os
import random
import subprocess

import common
from common import MachineryError, validate_traces

CHILD = r'''
import json, sys, os, copy
sys.path.insert(0, os.environ["VERIF_REPO"])
from shroud import ast, typemap
jobs = json.load(open(sys.argv[1]))
out = []
for variants in jobs:
    # one library per use (the other uses left out): a name that does not resolve stops the whole run
    res = {}
    for use, y in variants:
        typemap.initialize()
        try:
            lib = ast.create_library_from_dictionary(copy.deepcopy(y))
            got = {}
            def walk(n):
                for fn in n.functions:
                    if fn.ast.name == use:
                        p = fn.ast.params[0]
                        got["r"] = {"outcome": "ok", "name": p.typemap.name.split("::"), "msg": ""}
                for c in getattr(n, "classes", []): walk(c)
                for ns in getattr(n, "namespaces", []): walk(ns)
            walk(lib.wrap_namespace)
            res[use] = got.get("r", {"outcome": "missing", "name": [], "msg": ""})
        except (RuntimeError, SystemExit) as ex:
            res[use] = {"outcome": "diagnostic", "name": [], "msg": str(ex)[-200:]}
        except BaseException as ex:
            res[use] = {"outcome": "internal", "name": [], "msg": "%s: %s" % (type(ex).__name__, str(ex)[-150:])}
    out.append(res)
json.dump(out, open(sys.argv[2], "w"))
'''

NAMES = ["A", "B"]
KINDS = ["struct", "class", "enum", "typedef"]


def gen_description(rng):
    """-> decls in writing order (each: id, parent, name, kind [, ref])"""
    decls = []
    nid = [0]

    def new(parent, name, kind, **kw):
        nid[0] += 1
        d = dict({"id": nid[0], "parent": parent, "name": name, "kind": kind}, **kw)
        decls.append(d)
        return nid[0]

    def visible_outside(parent, name):
        # is `name` declared in an enclosing scope (incl. this one) so far?
        sc = parent
        while True:
            if any(d["parent"] == sc and d["name"] == name and d["kind"] != "use" for d in decls):
                return True
            if sc == 0:
                return False
            sc = [d for d in decls if d["id"] == sc][0]["parent"]

    def types(parent, allow_typedef=True):
        for nm in NAMES:
            if rng.random() < 0.55:
                k = rng.choice(KINDS if allow_typedef else KINDS[:3])
                if k == "typedef" and visible_outside(parent, nm):
                    k = rng.choice(KINDS[:3])       # a typedef that shadows: known finding, kept out of the sample
                new(parent, nm, k)

    def refs(parent, n):
        scopes = ["n1", "n2", "n3", "K"]
        for _ in range(n):
            parts = []
            types_so_far = [d for d in decls if d["kind"] in KINDS]
            if types_so_far and rng.random() < 0.65:
                # a path to something that exists (fully or partly qualified, or bare): whether it is visible
                # from here is what the lookup rule decides
                t = rng.choice(types_so_far)
                full, i = [t["name"]], t
                while i["parent"] != 0:
                    i = [d for d in decls if d["id"] == i["parent"]][0]
                    full.insert(0, i["name"])
                parts = full[rng.randint(0, len(full) - 1):]
            else:
                for _q in range(rng.choice([0, 0, 1, 1, 2])):
                    parts.append(rng.choice(scopes))
                parts.append(rng.choice(NAMES + ["Col"]))
            # a leading "::" is not part of the declaration grammar Shroud documents: never generated
            ref = {"global": False, "parts": parts}
            new(parent, "use%d" % (nid[0] + 1), "use", ref=ref)

    types(0)
    refs(0, 1)
    n1 = new(0, "n1", "namespace")
    types(n1)
    if rng.random() < 0.7:
        n3 = new(n1, "n3", "namespace")
        types(n3)
        refs(n3, 3)
    if rng.random() < 0.7:
        k = new(n1, "K", "class")
        if rng.random() < 0.7:
            new(k, "Col", "enum")
        if rng.random() < 0.4:
            new(k, rng.choice(NAMES), "enum")
        refs(k, 2)
    refs(n1, 3)
    n2 = new(0, "n2", "namespace")
    types(n2)
    refs(n2, 3)
    refs(0, 3)
    return decls


def ref_text(ref):
    return ("::" if ref["global"] else "") + "::".join(ref["parts"])


def to_yaml(decls, only_use=None):
    def children(parent):
        out = []
        for d in decls:
            if d["parent"] != parent:
                continue
            if d["kind"] == "use" and only_use is not None and d["name"] != only_use:
                continue
            k = d["kind"]
            if k == "namespace":
                out.append({"decl": "namespace " + d["name"], "declarations": children(d["id"])})
            elif k == "class":
                out.append({"decl": "class " + d["name"], "declarations": children(d["id"])})
            elif k == "struct":
                out.append({"decl": "struct %s { int m%d; }" % (d["name"], d["id"])})
            elif k == "enum":
                out.append({"decl": "enum %s { E%d }" % (d["name"], d["id"])})
            elif k == "typedef":
                out.append({"decl": "typedef int " + d["name"]})
            else:
                out.append({"decl": "void %s(%s *x)" % (d["name"], ref_text(d["ref"]))})
        return out
    return {"library": "sym", "cxx_header": "sym.hpp", "options": {"wrap_python": False, "wrap_lua": False},
            "declarations": children(0)}


def to_cxx(decls, expect):
    """C++ text of the description; for every use the spec resolves, a static_assert at the point of use."""
    lines = ["#include <type_traits>"]

    def emit(parent, ind):
        for d in decls:
            if d["parent"] != parent:
                continue
            k = d["kind"]
            if k == "namespace":
                lines.append("%snamespace %s {" % (ind, d["name"]))
                emit(d["id"], ind + "  ")
                lines.append(ind + "}")
            elif k == "class":
                lines.append("%sstruct %s {" % (ind, d["name"]))
                emit(d["id"], ind + "  ")
                lines.append(ind + "};")
            elif k in ("struct", "class"):
                lines.append("%sstruct %s { int m%d; };" % (ind, d["name"], d["id"]))
            elif k == "enum":
                lines.append("%senum %s { E%d };" % (ind, d["name"], d["id"]))
            elif k == "typedef":
                lines.append("%sstruct tag%d {}; typedef tag%d %s;" % (ind, d["id"], d["id"], d["name"]))
            elif d["id"] in expect:
                lines.append('%sstatic_assert(std::is_same< %s, ::%s >::value, "USE %d");' % (
                    ind, ref_text(d["ref"]), "::".join(expect[d["id"]]), d["id"]))
    emit(0, "")
    lines.append("int main() { return 0; }")
    return "\n".join(lines) + "\n"


def py_resolve(decls, pos):
    """The rule of specs/Symtab.tla transcribed (used only to place the g++ assertions; the verdict on Shroud is TLC's)."""
    ref = decls[pos]["ref"]
    byid = {d["id"]: i for i, d in enumerate(decls)}

    def found(sc, name):
        for i in range(pos):
            if decls[i]["parent"] == sc and decls[i]["name"] == name and decls[i]["kind"] != "use":
                return i
        return None
    if ref["global"]:
        chain = [0]
    else:
        chain, sc = [], decls[pos]["parent"]
        while True:
            chain.append(sc)
            if sc == 0:
                break
            sc = decls[byid[sc]]["parent"]
    cur = None
    for sc in chain:
        cur = found(sc, ref["parts"][0])
        if cur is not None:
            break
    for part in ref["parts"][1:]:
        if cur is None or decls[cur]["kind"] not in ("namespace", "class"):
            return None
        cur = found(decls[cur]["id"], part)
    if cur is None or decls[cur]["kind"] == "namespace":
        return None
    q, i = [], cur
    while True:
        q.insert(0, decls[i]["name"])
        if decls[i]["parent"] == 0:
            break
        i = byid[decls[i]["parent"]]
    return q


def run(c, tier):
    rng = random.Random(common.seed() + 77)
    n = 1500 if tier == "thorough" else 250
    descs = [gen_description(rng) for _ in range(n)]
    # the known finding: a typedef that shadows a type name of an enclosing scope
    shadow = [{"id": 1, "parent": 0, "name": "A", "kind": "typedef"}, {"id": 2, "parent": 0, "name": "n1", "kind": "namespace"},
              {"id": 3, "parent": 2, "name": "A", "kind": "typedef"},
              {"id": 4, "parent": 2, "name": "use4", "kind": "use", "ref": {"global": False, "parts": ["A"]}}]
    descs.append(shadow)
    with common.scratch("sym-") as d:
        inp, outp, prog = os.path.join(d, "in.json"), os.path.join(d, "out.json"), os.path.join(d, "child.py")
        json.dump([[(x["name"], to_yaml(dd, x["name"])) for x in dd if x["kind"] == "use"] for dd in descs], open(inp, "w"))
        open(prog, "w").write(CHILD)
        p = subprocess.run([common.PY, prog, inp, outp], env=dict(os.environ, VERIF_REPO=common.REPO, PYTHONDONTWRITEBYTECODE="1"),
                           stdout=subprocess.PIPE, stderr=subprocess.STDOUT, text=True)
        if p.returncode != 0:
            raise MachineryError("symtab child failed: " + p.stdout[-2000:])
        obs = json.load(open(outp))
        # g++ on a batch: the specification's answers are C++'s answers
        batch = descs[:(400 if tier == "thorough" else 80)]
        ngxx = 0
        for k, dd in enumerate(batch):
            expect = {}
            for i, x in enumerate(dd):
                if x["kind"] == "use":
                    q = py_resolve(dd, i)
                    if q is not None:
                        expect[x["id"]] = q
            if not expect:
                continue
            src = os.path.join(d, "s%d.cpp" % k)
            open(src, "w").write(to_cxx(dd, expect))
            pp = subprocess.run(["g++", "-std=c++11", "-fsyntax-only", src], stdout=subprocess.PIPE, stderr=subprocess.STDOUT, text=True)
            ngxx += len(expect)
            if pp.returncode != 0:
                raise MachineryError("g++ disagrees with specs/Symtab.tla on description %d: %s\n%s" % (k, pp.stdout[:600], open(src).read()))
    judged, jm = [], []
    ndiag = 0
    for dd, o in zip(descs, obs):
        tr = json.loads(json.dumps(dd))
        for x in tr:
            if x["kind"] == "use":
                x["got"] = o.get(x["name"], {"outcome": "missing", "name": [], "msg": ""})
                ndiag += x["got"]["outcome"] == "diagnostic"
        judged.append({"decls": tr})
        jm.append((o, dd))
    ctl = []
    for tr in judged:
        us = [x for x in tr["decls"] if x["kind"] == "use" and x["got"]["outcome"] == "ok" and len(x["got"]["name"]) >= 2]
        if us and len(ctl) < 3:
            b = json.loads(json.dumps(tr))
            for x in b["decls"]:
                if x["kind"] == "use" and x["got"]["outcome"] == "ok" and len(x["got"]["name"]) >= 2:
                    x["got"]["name"] = x["got"]["name"][1:]
                    break
            ctl.append(b)
    v, st = validate_traces("Trace_Symtab", "Trace_Symtab", judged + ctl, shard=400)
    c.add_stats(st, "Trace_Symtab", len(judged))
    for (verdict, detail), (o, dd) in zip(v[:len(judged)], jm):
        nuse = sum(1 for x in dd if x["kind"] == "use")
        c.count(1, [json.dumps(to_yaml(dd))[:200]] if nuse else [])
        if verdict != "ACCEPT":
            key = "symtab:" + (detail.split('"')[1] if '"' in detail else detail[:50]).replace(" ", "_")
            if "internal Python exception" in detail:
                msgs = [v_["msg"] for v_ in o.values() if v_["outcome"] == "internal"]
                key = "symtab:internal:" + (msgs[0] if msgs else "?")[:60].replace(" ", "_")
            c.violation(key, "name resolution: " + detail[:400], {"yaml": to_yaml(dd), "detail": detail, "observed": o})
    for verdict, detail in v[len(judged):]:
        if verdict != "REJECT":
            raise MachineryError("negative control of the name-resolution validation accepted")
    c.part("name_resolution", descriptions=len(descs), judged=len(judged), uses_refused_with_diagnostic=int(ndiag),
           uses_resolved=sum(1 for o in obs for v_ in o.values() if v_["outcome"] == "ok"),
           uses=sum(1 for dd in descs for x in dd if x["kind"] == "use"), gxx_assertions=ngxx, controls=len(ctl))
