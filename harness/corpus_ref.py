"""Run every configuration of regression/do-test.py from the tree under test
and compare with regression/reference (byte for byte). Sanity tool."""
import concurrent.futures as cf, os, sys, filecmp
sys.path.insert(0, os.path.dirname(os.path.abspath(__file__)))
import common, corpus, shroudrun
def one(t, base):
    out = os.path.join(base, t.name); os.makedirs(out)
    argv = corpus.base_args(out) + t.cmdline + [os.path.join(corpus.INPUT, t.yaml)]
    rc, so, se = shroudrun.run(argv)
    if rc: return t.name, "rc=%s %s" % (rc, se[-300:])
    ref = os.path.join(corpus.REFERENCE, t.name)
    bad = []
    for fn in sorted(set(os.listdir(ref)) | set(os.listdir(out))):
        if fn in ("output", "pybindgen", "cython", "swig") or fn.endswith(".log"): continue
        a, b = os.path.join(ref, fn), os.path.join(out, fn)
        if not (os.path.isfile(a) and os.path.isfile(b)) or open(a,'rb').read() != open(b,'rb').read():
            bad.append(fn)
    return t.name, bad
with common.scratch("ref-") as base:
    with cf.ThreadPoolExecutor(16) as ex:
        res = list(ex.map(lambda t: one(t, base), corpus.tests()))
nb = [(n, b) for n, b in res if b]
print("configs", len(res), "differing", len(nb))
for n, b in nb: print(" ", n, b if isinstance(b, str) else b[:6])
