"""C10 -- character data crosses the language boundary by the documented rules.

1. TLC model-checks StrXfer: byte-level machines of the string helpers satisfy
   the documented rules and never touch memory outside the lengths they are
   given, for every source/destination length 0..4 and content over {a, ' '}.
2. Conformance: the real helper texts (whelpers.CHelpers, C and C++ variants)
   are compiled under AddressSanitizer into a driver that calls them on
   exact-size heap buffers for the complete case set; each record (arguments,
   bytes left behind, return value) is validated by TLC (Trace_StrXfer).
3. Which helper and which length each argument kind uses is exercised end to
   end by the string rows of C01 (both F_CFI modes).
"""
import json
import os
import subprocess
import sys

sys.path.insert(0, os.path.dirname(os.path.dirname(os.path.abspath(__file__))))
import common  # noqa: E402
from common import Check, model_check, validate_traces, MachineryError  # noqa: E402

NAMES = ["ShroudLenTrim", "ShroudStrCopy", "ShroudStrBlankFill", "ShroudStrAlloc", "ShroudStrFree",
         "ShroudStrArrayAlloc", "ShroudStrArrayFree"]

DRIVER = r"""
#include <stdio.h>
#include <stdlib.h>
#include <string.h>
%(helpers)s
static void pb(const char *k, const unsigned char *p, long n) {
    long i; printf("\"%%s\":[", k);
    for (i = 0; i < n; i++) printf("%%s%%d", i ? "," : "", (int)p[i]);
    printf("]");
}
static void fill(char *p, int n, long code, int alpha) { int i; for (i = 0; i < n; i++) { p[i] = (code %% alpha) ? 'a' : ' '; code /= alpha; } }
int main(void) {
    const char *lang = "%(lang)s";
    int MAXN = %(maxn)d, n, nd, k;
    long code, ncodes;
    for (n = 0; n <= MAXN; n++) {
        ncodes = 1L << n;
        for (code = 0; code < ncodes; code++) {
            char *src = (char *)malloc(n ? n : 1); fill(src, n, code, 2);
            /* LenTrim */
            { int r = ShroudLenTrim(src, n);
              printf("{\"h\":\"LenTrim\",\"lang\":\"%%s\",\"nsrc\":%%d,\"ndst\":0,\"ntrim\":0,", lang, n); pb("src", (unsigned char *)src, n);
              printf(",\"dst0\":[],\"dst\":[],\"ret\":%%d}\n", r); }
            /* StrAlloc with ntrim = -1 */
            { char *rv = ShroudStrAlloc(src, n, -1); int L = (int)strlen(rv);
              printf("{\"h\":\"StrAlloc\",\"lang\":\"%%s\",\"nsrc\":%%d,\"ndst\":0,\"ntrim\":-1,", lang, n); pb("src", (unsigned char *)src, n);
              printf(",\"dst0\":[],"); pb("dst", (unsigned char *)rv, L + 1); printf(",\"ret\":%%d}\n", L);
              ShroudStrFree(rv); }
            /* StrCopy from a Fortran-style source of explicit length */
            for (nd = 0; nd <= MAXN; nd++) {
                char *dst = (char *)malloc(nd ? nd : 1); memset(dst, 255, nd ? nd : 1);
                ShroudStrCopy(dst, nd, src, n);
                printf("{\"h\":\"StrCopy\",\"lang\":\"%%s\",\"nsrc\":%%d,\"ndst\":%%d,\"ntrim\":0,", lang, n, nd); pb("src", (unsigned char *)src, n);
                printf(","); { unsigned char z[16]; memset(z, 255, 16); pb("dst0", z, nd + 1); }
                printf(","); pb("dst", (unsigned char *)dst, nd); printf(",\"ret\":0}\n");
                free(dst);
            }
            /* C string sources: text, NUL (nsrc = -1 -> strlen), and BlankFill */
            { char *cs = (char *)malloc(n + 1); memcpy(cs, src, n); cs[n] = 0;
              for (nd = 0; nd <= MAXN; nd++) {
                char *dst = (char *)malloc(nd ? nd : 1); memset(dst, 255, nd ? nd : 1);
                ShroudStrCopy(dst, nd, cs, -1);
                printf("{\"h\":\"StrCopy\",\"lang\":\"%%s\",\"nsrc\":-1,\"ndst\":%%d,\"ntrim\":0,", lang, nd); pb("src", (unsigned char *)cs, n + 1);
                printf(","); { unsigned char z[16]; memset(z, 255, 16); pb("dst0", z, nd + 1); }
                printf(","); pb("dst", (unsigned char *)dst, nd); printf(",\"ret\":0}\n");
                free(dst);
                if (n < nd) {   /* the library wrote a C string of n characters into a buffer of nd */
                    char *b = (char *)malloc(nd); memset(b, 255, nd); memcpy(b, cs, n + 1);
                    printf("{\"h\":\"BlankFill\",\"lang\":\"%%s\",\"nsrc\":0,\"ndst\":%%d,\"ntrim\":0,", lang, nd); pb("src", (unsigned char *)b, nd);
                    printf(","); pb("dst0", (unsigned char *)b, nd);
                    ShroudStrBlankFill(b, nd);
                    printf(","); pb("dst", (unsigned char *)b, nd); printf(",\"ret\":0}\n");
                    free(b);
                }
              }
              free(cs); }
            free(src);
        }
    }
    /* NULL source */
    for (nd = 0; nd <= MAXN; nd++) {
        char *dst = (char *)malloc(nd ? nd : 1); memset(dst, 255, nd ? nd : 1);
        ShroudStrCopy(dst, nd, NULL, 0);
        printf("{\"h\":\"StrCopy\",\"lang\":\"%%s\",\"nsrc\":-2,\"ndst\":%%d,\"ntrim\":0,\"src\":[],", lang, nd);
        { unsigned char z[16]; memset(z, 255, 16); pb("dst0", z, nd + 1); }
        printf(","); pb("dst", (unsigned char *)dst, nd); printf(",\"ret\":0}\n");
        free(dst);
    }
    /* CHARACTER(len) arrays -> char** */
    { int len, cnt;
      for (len = 1; len <= 3; len++) for (cnt = 0; cnt <= 2; cnt++) {
        int tot = len * cnt; ncodes = 1L << tot;
        for (code = 0; code < ncodes; code++) {
            char *src = (char *)malloc(tot ? tot : 1); char **rv; fill(src, tot, code, 2);
            rv = ShroudStrArrayAlloc(src, cnt, len);
            printf("{\"h\":\"ArrayAlloc\",\"lang\":\"%%s\",\"nsrc\":%%d,\"len\":%%d,", lang, cnt, len); pb("src", (unsigned char *)src, tot);
            printf(",\"out\":[");
            for (k = 0; k < cnt; k++) { printf("%%s[", k ? "," : ""); { size_t q; for (q = 0; q < strlen(rv[k]); q++) printf("%%s%%d", q ? "," : "", (int)(unsigned char)rv[k][q]); } printf("]"); }
            printf("]}\n");
            ShroudStrArrayFree(rv, cnt);
            free(src);
        }
      } }
    return 0;
}
"""


def helper_text(lang):
    common.import_shroud()
    from shroud import whelpers, typemap, ast

    typemap.initialize()
    lib = ast.LibraryNode(library="hh", language="c" if lang == "c" else "c++")
    if hasattr(whelpers, "set_library"):
        whelpers.set_library(lib)
    whelpers.add_all_helpers()
    out = []
    for n in NAMES:
        h = whelpers.CHelpers[n]
        key = ("c_source" if lang == "c" else "cxx_source")
        txt = h.get(key) or h.get("source")
        if txt is None:
            raise MachineryError("helper %s has no %s" % (n, key))
        out.append(txt.replace("\t", " "))
    inc = "#include <string.h>\n#include <stdlib.h>\n" if lang == "c" else "#include <cstring>\n#include <cstdlib>\n"
    return inc + "\n".join(out)


def build_run(d, lang, maxn):
    src = os.path.join(d, "drv_%s.%s" % (lang, "c" if lang == "c" else "cpp"))
    with open(src, "w") as f:
        f.write(DRIVER % {"helpers": helper_text(lang), "lang": lang, "maxn": maxn})
    exe = os.path.join(d, "drv_" + lang)
    cc = ["gcc", "-std=c99"] if lang == "c" else ["g++", "-std=c++11"]
    p = subprocess.run(cc + ["-g", "-fsanitize=address", "-fno-omit-frame-pointer", "-o", exe, src],
                       stdout=subprocess.PIPE, stderr=subprocess.STDOUT, text=True)
    if p.returncode != 0:
        return None, "compile: " + p.stdout[-1500:]
    p = subprocess.run([exe], stdout=subprocess.PIPE, stderr=subprocess.PIPE, text=True, timeout=300,
                       env=dict(os.environ, ASAN_OPTIONS="detect_leaks=1:abort_on_error=0"))
    recs = []
    for line in p.stdout.split("\n"):
        line = line.strip()
        if line.startswith("{") and line.endswith("}"):
            try:
                recs.append(json.loads(line))
            except ValueError:
                pass
    asan = ""
    if p.returncode != 0 or "ERROR: AddressSanitizer" in p.stderr or "LeakSanitizer" in p.stderr:
        asan = (p.stderr.strip().split("\n") + [""])[0][:200] or ("exit %d" % p.returncode)
        tail = [l for l in p.stderr.split("\n") if "SUMMARY" in l]
        if tail:
            asan += " | " + tail[0][:200]
    return recs, asan


def end_to_end(c, tier):
    """Which conversion each kind of character argument / result gets: every function of the wide member of the
    TLA+ grammar (specs/LibGenPairs.tla) that has a character or std::string argument or result, called from a
    generated Fortran program with blank, empty, exact-fit and blank-containing texts; each call validated by TLC
    against the call contract (Trace_CallBridge: input trimmed and NUL terminated, output blank padded or truncated
    to the declared length, allocatable results of the exact length), with and without F_CFI."""
    import concurrent.futures as cf
    from rt import libgen, fgen, cases as K
    STR = {"cstr_in", "tdstr_in", "str_cref", "str_v", "str_ref_inout", "str_ref_out"}

    def stringy(x):
        return x["result"] in ("cstr", "str_cref", "char1", "char3") or any(p["kind"] in STR for p in x["params"])
    configs = []
    for tag, opts in (("str", {}), ("str-cfi", {"F_CFI": True})):
        lib = libgen.without_cfi_conflict(libgen.wide_library(**opts))
        cs = [x for x in libgen.cases_of(lib, set(K.FROWS), set(K.FRESULTS)) if stringy(x)]
        cs += [x for x in K.vector_cases() if x["name"] == "v10"]
        cs += [x for x in K.fortran_cases() if x["name"] == "f4v"]       # std::string by value
        configs.append((tag, opts, cs))
    with common.scratch("c10e-") as base:
        with cf.ThreadPoolExecutor(2) as ex:
            res = list(ex.map(lambda cfg: (cfg[0], fgen.build_and_run_f(os.path.join(base, cfg[0]), cfg[2], False,
                                                                         6 if tier == "thorough" else 4, cfg[1])), configs))
    traces, labels = [], []
    for name, rr in res:
        for kind, what in rr["problems"]:
            c.violation("e2e-build:%s:%s" % (name, kind), "%s: %s" % (kind, str(what)[-600:]), {"config": name})
        for t in rr["traces"]:
            traces.append({"sig": t["sig"], "events": t["events"]})
            labels.append("%s: %s" % (name, t["label"]))
    if not traces:
        if c.viol:
            c.finish()      # nothing could be run because of what was already reported (build failures)
        raise MachineryError("no end-to-end string calls recorded")
    v, st = validate_traces("Trace_CallBridge", "Trace_CallBridge", traces, shard=2000)
    c.add_stats(st, "Trace_CallBridge/strings", len(traces))
    for (verdict, detail), lab, t in zip(v, labels, traces):
        if verdict == "REJECT":
            c.violation("e2e:" + lab.split(": ", 1)[1], "%s: %s" % (lab, detail), {"call": lab, "events": t["events"], "detail": detail})
        else:
            c.count(1, [lab])
    c.part("end_to_end", calls=len(traces), configurations=[n for n, _ in res])


def run(tier):
    with Check("C10", tier) as c:
        thorough = tier == "thorough"
        c.assumptions += ["helper texts are taken from whelpers.CHelpers (c_source / cxx_source) of the tree under test",
                          "an intent(out) buffer is written by the library as a C string shorter than the buffer "
                          "(longer writes are the documented risk of char* +intent(out))",
                          "AddressSanitizer/LeakSanitizer of GCC 12 detect out-of-bounds accesses on exact-size heap buffers"]
        r, bad = model_check("MC_StrXfer", "MC_StrXfer", require_actions=("LTLoop", "SACopy", "SCCopy", "SCFill", "BFStart"), timeout=900)
        c.add_tlc(r, "MC_StrXfer")
        if bad:
            c.violation("model:" + bad, "design-level invariant %s violated" % bad, {"tlc_tail": r.out[-3000:]})
        traces = []
        maxn = 5 if thorough else 4
        with common.scratch("c10-") as d:
            for lang in ("c", "cxx"):
                recs, asan = build_run(d, lang, maxn)
                if recs is None:
                    c.violation("helpers-do-not-compile:" + lang, asan, {"lang": lang})
                    continue
                if asan:
                    # the run stopped at the first memory error: report it on the next case that was due
                    c.violation("sanitizer:" + lang, "memory error in a helper (%s): %s; %d cases completed before it"
                                % (lang, asan, len(recs)), {"lang": lang, "report": asan, "last_case": recs[-1] if recs else None})
                for rec in recs:
                    rec["asan"] = ""
                    traces.append(rec)
        if not traces:
            raise MachineryError("no helper records")
        controls = []
        for t in traces:
            if t["h"] == "StrCopy" and t["ndst"] >= 2 and len(controls) < 2:
                k = json.loads(json.dumps(t))
                k["dst"][-1] = 0
                controls.append(k)
            if t["h"] == "LenTrim" and t["nsrc"] == 3 and len(controls) < 4:
                k = json.loads(json.dumps(t))
                k["ret"] = k["ret"] + 1
                controls.append(k)
            if t["h"] == "ArrayAlloc" and t["nsrc"] == 2 and len(controls) < 6:
                k = json.loads(json.dumps(t))
                k["out"][0] = k["out"][0] + [32]
                controls.append(k)
        verdicts, st = validate_traces("Trace_StrXfer", "Trace_StrXfer", traces + controls, shard=4000)
        c.add_stats(st, "trace_validation", len(traces))
        cnt = {}
        for i, t in enumerate(traces):
            v, detail = verdicts[i]
            cnt[t["h"] + ":" + v] = cnt.get(t["h"] + ":" + v, 0) + 1
            if v == "REJECT":
                txt = "".join(chr(x) if 32 <= x < 127 else "\\%d" % x for x in t.get("src", []))
                c.violation("helper:%s:%s:%r:%s:%s" % (t["h"], t["lang"], txt, t.get("nsrc"), t.get("ndst")),
                            "%s (%s) on %r nsrc=%s ndst=%s: %s" % (t["h"], t["lang"], txt, t.get("nsrc"), t.get("ndst"), detail), t)
            else:
                c.count(1, [json.dumps([t["h"], t.get("src"), t.get("nsrc"), t.get("ndst")])])
        for i, k in enumerate(controls):
            v, detail = verdicts[len(traces) + i]
            if v != "REJECT":
                raise MachineryError("negative control %d not rejected: %s %s" % (i, v, detail))
        c.part("conformance", records=len(traces), verdicts=cnt, negative_controls_rejected=len(controls), max_length=maxn)
        end_to_end(c, tier)
        c.cov["exhaustive"] = True
        c.cov["rule"] = ("every Fortran text over {a, blank} of length 0..%d x every destination length 0..%d for "
                         "LenTrim, StrAlloc, StrCopy (explicit length, strlen, NULL source) and BlankFill; CHARACTER(len) "
                         "arrays of 0..2 elements of length 1..3; C and C++ helper variants. non-trivial = distinct accepted case"
                         % (maxn, maxn))
        c.sample(traces[7])
        c.sample(traces[len(traces) // 2])
        c.finish()


if __name__ == "__main__":
    run(common.tier_from_argv())
