"""C04 -- Fortran bind(C) interfaces agree with the C functions and structs they bind to.

1. TLC checks the interoperability relation itself (BindC) on every pair of
   dummy-argument and C-parameter shapes: scalars never match another class,
   size or passing mode.
2. Conformance: for every configuration of the upstream corpus (and the
   generated run-time libraries, F_CFI off and on) the real Shroud generates
   wrappers; every bind(C) interface body and derived type is read from the
   Fortran modules, every prototype / non-static definition / struct from the
   C headers and sources; each interface becomes a trace (DefineStruct...,
   BindType..., Define, Bind) judged by TLC (Trace_BindC).
"""
import concurrent.futures as cf
import json
import os
import sys

sys.path.insert(0, os.path.dirname(os.path.dirname(os.path.abspath(__file__))))
import common  # noqa: E402
from common import Check, model_check, validate_traces, MachineryError  # noqa: E402
import bindc_parse as B  # noqa: E402
import corpus  # noqa: E402
import shroudrun  # noqa: E402
from rt import cases as K, cgen  # noqa: E402


def gen_corpus(base, t):
    out = os.path.join(base, t.name)
    os.makedirs(out)
    argv = corpus.base_args(out) + t.cmdline + [os.path.join(corpus.INPUT, t.yaml)]
    rc, so, se = shroudrun.run(argv)
    user = os.path.join(common.REPO, "regression", "run", t.yaml[:-5])
    return t.name, out, rc, se, user


def gen_rt(base, name, opts):
    import yaml

    d = os.path.join(base, name)
    out = os.path.join(d, "gen")
    os.makedirs(out)
    if name == "rt-kinds":
        # every spelling of the integer and real types (docs/types.rst), in a C library whose functions Fortran
        # binds to directly: argument by value, by pointer, result
        spell = ["short", "short int", "unsigned short", "unsigned short int", "int", "unsigned", "unsigned int", "long",
                 "long int", "unsigned long", "unsigned long int", "long long", "long long int", "unsigned long long",
                 "unsigned long long int", "float", "double", "size_t", "int8_t", "int16_t", "int32_t", "int64_t",
                 "uint8_t", "uint16_t", "uint32_t", "uint64_t"]
        decls, protos = [], []
        for i, sp in enumerate(spell):
            for d_ in ("%s k%d_val(%s a)" % (sp, i, sp), "void k%d_ptr(%s *a +intent(inout))" % (i, sp), "%s k%d_res(void)" % (sp, i)):
                decls.append({"decl": d_})
                protos.append(d_.split(" +")[0].rstrip(")") + (")" if "+" in d_ else ")") + ";")
        # structs: every member kind written inline, and the declarations form with options of their own on members
        # (a member is part of the memory layout whatever is selected for it)
        mtypes = ["short", "unsigned long long int", "float", "uint8_t", "double", "int32_t", "long int", "unsigned short", "size_t"]
        inline = "struct Rec1 { " + " ".join("%s f%d;" % (t, i) for i, t in enumerate(mtypes)) + " int arr[3]; char name[8]; double *ptr; }"
        decls.append({"decl": inline})
        rec2 = [{"decl": "int count"}, {"decl": "double weight", "options": {"wrap_python": False}},
                {"decl": "long total", "options": {"wrap_fortran": False}}, {"decl": "float ratio", "options": {"wrap_c": False}},
                {"decl": "unsigned int flags", "options": {"wrap_lua": False, "wrap_fortran": True}}, {"decl": "short tail"}]
        decls.append({"decl": "struct Rec2", "declarations": rec2})
        decls.append({"decl": "struct Rec3", "options": {"wrap_python": False},
                      "declarations": [{"decl": "double x"}, {"decl": "int n", "options": {"wrap_fortran": False}}, {"decl": "double y"}]})
        decls += [{"decl": "void use_rec1(Rec1 *r)"}, {"decl": "void use_rec2(Rec2 *r)"}, {"decl": "Rec3 make_rec3(void)"}]
        # user statements that change the C wrapper's return type (docs/fstatements: return_type, as vectors.yaml does):
        # the interface must follow the wrapper, whatever the declared result is
        decls += [{"decl": "int *countValues(int *nvalues +intent(out)) +deref(raw)",
                   "options": {"C_force_wrapper": True}, "fstatements": {"c": {"return_type": "long", "ret": ["return *nvalues;"]}}},
                  {"decl": "double *countItems(int *nitems +intent(out)) +dimension(nitems)",
                   "options": {"C_force_wrapper": True}, "fstatements": {"c": {"return_type": "int", "ret": ["return *nitems;"]}}},
                  {"decl": "void fillValues(int *values +intent(out)+dimension(3))",
                   "options": {"C_force_wrapper": True}, "fstatements": {"c": {"return_type": "long", "ret": ["return 3;"]}}}]
        protos += ["int *countValues(int *nvalues);", "double *countItems(int *nitems);", "void fillValues(int *values);"]
        # a parameter that is an array of pointers (pointer and sized array declarator together) is a `T **`
        decls += [{"decl": "double rowsum(double *rows[3], int n)"}, {"decl": "void rowfill(int *rows[2], int v)"}]
        protos += ["double rowsum(double *rows[3], int n);", "void rowfill(int *rows[2], int v);"]
        protos += ["struct Rec1 { " + " ".join("%s f%d;" % (t, i) for i, t in enumerate(mtypes)) + " int arr[3]; char name[8]; double *ptr; };",
                   "typedef struct Rec1 Rec1;",
                   "struct Rec2 { int count; double weight; long total; float ratio; unsigned int flags; short tail; };", "typedef struct Rec2 Rec2;",
                   "struct Rec3 { double x; int n; double y; };", "typedef struct Rec3 Rec3;",
                   "void use_rec1(Rec1 *r);", "void use_rec2(Rec2 *r);", "Rec3 make_rec3(void);"]
        y = {"library": "kinds", "language": "c", "cxx_header": "kinds.h",
             "options": dict({"debug": True, "wrap_fortran": True, "wrap_python": False, "wrap_lua": False}, **opts),
             "declarations": decls}
        with open(os.path.join(d, "kinds.yaml"), "w") as f:
            yaml.safe_dump(y, f, default_flow_style=False, sort_keys=False)
        open(os.path.join(d, "kinds.h"), "w").write("#include <stddef.h>\n#include <stdint.h>\n" + "\n".join(
            p_.replace("))", ")") for p_ in protos) + "\n")
        rc, so, se = shroudrun.run(["--outdir", out, "--logdir", out, os.path.join(d, "kinds.yaml")])
        return name, out, rc, se, d
    if name.startswith("rt-solo"):
        from rt import libgen
        lib = libgen.solo_libraries(**opts)[int(name.split("-")[2])]
        cases = libgen.cases_of(lib)
    elif name.startswith("rt-wide"):
        # the wide member of the TLA+ grammar (specs/LibGenPairs.tla); with F_CFI without the functions of the
        # recorded C05 finding, on which Shroud stops
        from rt import libgen
        lib = libgen.without_cfi_conflict(libgen.wide_library(**opts))
        cases = libgen.cases_of(lib)
    else:
        cases = K.base_cases() + K.vector_cases()
    y, hpp, cpp = cgen.gen_library(cases, True, dict({"wrap_fortran": True}, **opts))
    with open(os.path.join(d, "sub.yaml"), "w") as f:
        yaml.safe_dump(y, f, default_flow_style=False, sort_keys=False)
    open(os.path.join(d, "sub.hpp"), "w").write(hpp)
    rc, so, se = shroudrun.run(["--outdir", out, "--logdir", out, os.path.join(d, "sub.yaml")])
    return name, out, rc, se, d


def collect(name, out, user_dir):
    """-> list of traces for one generated library"""
    binds, types = [], []
    structs, enums, funcs = {}, set(), []
    files = sorted(os.listdir(out))
    for fn in files:
        if fn.endswith((".f", ".f90", ".F", ".F90")):
            b, t = B.read_fortran(open(os.path.join(out, fn), errors="replace").read())
            for x in b:
                x["file"] = fn
            binds += b
            types += t
    hdrs = [os.path.join(out, fn) for fn in files if fn.endswith((".h", ".hpp", ".hh", ".hxx")) and not fn.startswith(("py", "lua"))]
    if user_dir and os.path.isdir(user_dir):
        hdrs = [os.path.join(user_dir, fn) for fn in sorted(os.listdir(user_dir)) if fn.endswith((".h", ".hpp"))] + hdrs
    # types header first: it defines the structs the prototypes mention
    hdrs.sort(key=lambda p: (0 if os.path.basename(p).startswith("types") else 1, p))
    for p in hdrs:
        f, structs, enums = B.read_c(open(p, errors="replace").read(), structs, enums)
        funcs += f
    for fn in files:
        if fn.endswith((".c", ".cpp", ".cc", ".cxx")) and not fn.startswith(("py", "lua")):
            f, structs, enums = B.read_c(open(os.path.join(out, fn), errors="replace").read(), structs, enums, definitions=True)
            funcs += f
    byname = {}
    for f in funcs:
        byname.setdefault(f["name"], f)
    # the library's C prefix: a bound name that carries it is a symbol the generated files must define themselves
    import collections
    pref = collections.Counter(n.split("_")[0] + "_" for n in byname if "_" in n and n.split("_")[0].isupper())
    libprefix = pref.most_common(1)[0][0] if pref else None
    sdefs = []
    for k, v in structs.items():
        if k.startswith("__") or v is None:
            continue
        sdefs.append({"ev": "DefineStruct", "x": {"name": k.lower(), "fields": B.struct_layout(v, structs, enums)}})
    tdefs = [{"ev": "BindType", "x": {"name": t["name"].lower(), "fields": t["fields"]}} for t in types]
    known_types = {t["name"].lower() for t in types}
    known_structs = {k.lower() for k, v in structs.items() if v and not k.startswith("__")}
    traces = []
    for b in binds:
        ev = list(sdefs) + list(tdefs)
        c = byname.get(b["cname"])
        if c is not None:
            ev.append({"ev": "Define", "x": c})
        ev.append({"ev": "Bind", "x": {"fname": b["fname"], "cname": b["cname"], "args": b["args"], "result": b["result"]}})
        unknown = [a["cls"] for a in b["args"] + [b["result"]] if a["cls"].startswith("unknown")]
        # a derived type that comes from the module of another, imported library
        unknown += ["unknown-type:" + a["tname"] for a in b["args"] + [b["result"]]
                    if a["cls"] == "type" and a["tname"] not in known_types]
        if c is not None:
            unknown += [p["cls"] for p in c["params"] + [c["result"]] if p["cls"].startswith("unknown")]
            # a type name that none of the files read defines (a struct or typedef of another, imported library
            # or of the user's own headers): its layout is not known here, the pair cannot be judged
            unknown += ["unknown-type:" + p["sname"] for p in c["params"] + [c["result"]]
                        if p["cls"] == "struct" and p["sname"] not in known_structs]
        traces.append({"kind": "bind", "events": ev, "tname": "", "sname": "", "label": "%s:%s:%s" % (name, b["file"], b["fname"]),
                       "unknown": unknown, "defined": c is not None, "cname": b["cname"],
                       "generated": bool(libprefix and b["cname"].startswith(libprefix))})
    snames = {k.lower() for k, v in structs.items() if v and not k.startswith("__")}
    for t in types:
        tn = t["name"].lower()
        if tn in snames:
            traces.append({"kind": "type", "events": list(sdefs) + list(tdefs), "tname": tn, "sname": tn,
                           "label": "%s:type:%s" % (name, tn), "unknown": [], "defined": True, "cname": tn})
    return traces


def registry_pairs():
    """Every native entry of the live type registry: (f_kind, c_type)."""
    common.import_shroud()
    from shroud import typemap

    typemap.initialize()
    out = []
    for name, tm in sorted(typemap.get_global_types().items()):
        fk = getattr(tm, "f_kind", None)
        ct = getattr(tm, "c_type", None)
        if not fk or not ct or getattr(tm, "sgroup", "") not in ("native", "bool", "char"):
            continue
        fcls = B.F_KIND.get(fk.lower())
        cc = B.c_type(ct.split(), {}, set(), False)
        if fcls is None or cc["cls"] == "struct":
            continue
        out.append({"kind": "pair", "events": [], "tname": name, "sname": "", "f": B.frec(fcls[0], fcls[1], True, False), "c": cc,
                    "label": "registry:" + name, "unknown": [], "defined": True, "cname": name})
    return out


def run(tier):
    with Check("C04", tier) as c:
        thorough = tier == "thorough"
        c.assumptions += ["C and Fortran declarations are read back with the readers in harness/bindc_parse.py; sizes are "
                          "those of the LP64 ABI of this machine (int 4, long 8, size_t 8, bool 1)",
                          "an interface that binds to a function of the user's library (no wrapper needed) is checked "
                          "against the user's header when the corpus ships one, otherwise it is not judged",
                          "unsigned C types are interoperable with the signed kind of the same size"]
        r, bad = model_check("MC_BindC", "MC_BindC", timeout=600)
        c.add_tlc(r, "MC_BindC")
        if bad:
            c.violation("model:" + bad, "relation-level invariant %s violated" % bad, {"tlc_tail": r.out[-3000:]})
        tests = corpus.tests() if thorough else corpus.quick_subset() + [t for t in corpus.tests() if t.name in ("strings-cfi", "generic-cfi", "arrayclass", "struct-cxx", "ownership", "cdesc")]
        tests = [t for t in tests if t.name != "none"]
        from rt import libgen as _lg
        nsolo = len(_lg.solo_libraries())
        traces = []
        with common.scratch("c04-") as base:
            with cf.ThreadPoolExecutor(common.NCPU) as ex:
                gens = list(ex.map(lambda t: gen_corpus(base, t), tests))
                gens += list(ex.map(lambda a: gen_rt(base, a[0], a[1]),
                                    [("rt-cxx", {}), ("rt-cxx-cfi", {"F_CFI": True}), ("rt-wide", {}),
                                     ("rt-wide-cfi", {"F_CFI": True})] +
                                    [("rt-solo-%d" % k, {}) for k in range(nsolo)] + [("rt-kinds", {})]))
            for name, out, rc, se, user in gens:
                if rc != 0:
                    raise MachineryError("generation of %s failed: %s" % (name, se[-300:]))
                traces += collect(name, out, user if (not name.startswith("rt-") or name == "rt-kinds") else None)
        traces += registry_pairs()
        judged, skipped_user, skipped_unknown = [], 0, 0
        for t in traces:
            if t["unknown"]:
                skipped_unknown += 1
                continue
            if not t["defined"] and not t["cname"].startswith(tuple("ABCDEFGHIJKLMNOPQRSTUVWXYZ")[:0] or ("",)):
                pass
            if not t["defined"] and not t.get("generated"):
                # bound to a function the generated code does not define: a user function without a shipped header
                skipped_user += 1
                continue
            judged.append(t)
        controls = []
        for t in judged:
            if t["kind"] == "bind" and t["events"][-1]["x"]["args"] and len(controls) < 3:
                k = json.loads(json.dumps(t))
                k["events"][-1]["x"]["args"] = k["events"][-1]["x"]["args"][:-1]
                controls.append(k)
            elif t["kind"] == "bind" and t["events"][-1]["x"]["args"] and len(controls) < 6:
                k = json.loads(json.dumps(t))
                a = k["events"][-1]["x"]["args"][0]
                a["value"] = not a["value"]
                if a["cls"] in ("int", "real", "bool"):
                    controls.append(k)
        keep = ("kind", "events", "tname", "sname", "f", "c")
        nof = B.frec("none")
        noc = B.crec("void")
        verdicts, st = validate_traces("Trace_BindC", "Trace_BindC",
                                       [{k: t.get(k, nof if k == "f" else noc) for k in keep} for t in judged + controls], shard=1500)
        c.add_stats(st, "trace_validation", len(judged))
        cnt = {}
        for i, t in enumerate(judged):
            v, detail = verdicts[i]
            cnt[v] = cnt.get(v, 0) + 1
            if v == "REJECT":
                lib, fn, nm = (t["label"].split(":") + ["", ""])[:3]
                c.violation("bind:%s:%s" % (lib.split("-")[0], nm), "%s: %s" % (t["label"], detail),
                            {"label": t["label"], "detail": detail, "bind": t["events"][-1]["x"],
                             "c": [e["x"] for e in t["events"] if e["ev"] == "Define"]})
            else:
                c.count(1, [t["label"]])
        for i, k in enumerate(controls):
            v, detail = verdicts[len(judged) + i]
            if v != "REJECT":
                raise MachineryError("negative control %d not rejected: %s %s" % (i, v, detail))
        c.part("conformance", libraries=len(gens), interfaces_and_types=len(traces), judged=len(judged),
               bound_to_user_function_without_header=skipped_user, not_classified=skipped_unknown, verdicts=cnt,
               negative_controls_rejected=len(controls))
        c.cov["rule"] = ("every bind(C) interface body and bind(C) derived type of every generated module of %d corpus "
                         "configurations and 2 generated libraries (F_CFI off/on). non-trivial = accepted interface or type"
                         % len(tests))
        if judged:
            c.sample({"label": judged[0]["label"], "bind": judged[0]["events"][-1]["x"]})
        c.finish()


if __name__ == "__main__":
    run(common.tier_from_argv())
