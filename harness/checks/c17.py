"""C17 -- invalid input is rejected with a diagnostic, never by an internal failure.

1. TLC: MC_DeclMutate shows the oracle (DeclMutate!Judge) never condemns an
   accepted sentence of the grammar and enumerates every single-token mutant.
2. Conformance (Trace_Invalid): every valid sentence of the C09 set x every
   single-token mutation over a token alphabet, random token strings, the
   attribute legality table (Attrs.tla), YAML structure rows; each input goes
   through the real declast.check_decl and, when accepted, through
   ast.create_library_from_dictionary + generate.generate_functions; outcome
   classes {accept, reject (RuntimeError/SystemExit/NotImplementedError),
   internal, hang} are judged by TLC.
"""
import itertools
import json
import os
import random
import signal
import sys
import io
import contextlib

sys.path.insert(0, os.path.dirname(os.path.dirname(os.path.abspath(__file__))))
import common  # noqa: E402
from common import Check, validate_traces, model_check, MachineryError  # noqa: E402
import declgen as G  # noqa: E402

ALPHABET = ["int", "const", "*", "&", "(", ")", "[", "]", ",", "=", "+", "x", "1", "::", "<", ">", "void", "std",
            "string", "~", "...", ";", "-", "static", "unsigned"]


class Hang(Exception):
    pass


def _alarm(sig, frm):
    raise Hang()


def classify(fn):
    """-> (outcome, msg, exception type)"""
    signal.signal(signal.SIGALRM, _alarm)
    signal.alarm(3)
    try:
        with contextlib.redirect_stdout(io.StringIO()):
            fn()
        return "accept", "", ""
    except Hang:
        return "hang", "", "Hang"
    except (RuntimeError, NotImplementedError, SystemExit) as ex:
        return "reject", str(ex)[:300] or repr(ex), type(ex).__name__
    except RecursionError as ex:
        return "internal", str(ex)[:200], "RecursionError"
    except Exception as ex:
        return "internal", str(ex)[:300], type(ex).__name__
    finally:
        signal.alarm(0)


class World(object):
    def __init__(self):
        self.lib = G.Lib()
        from shroud import ast, generate, typemap, main

        self.ast, self.generate, self.typemap, self.main = ast, generate, typemap, main

    def parse(self, text):
        return classify(lambda: self.lib.declast.check_decl(text, namespace=self.lib.lib))

    def full(self, dct):
        def go():
            self.typemap.initialize()
            cfg = self.main.Config()
            cfg.log = io.StringIO()
            lib = self.ast.create_library_from_dictionary(dct)
            self.generate.generate_functions(lib, cfg)
        r = classify(go)
        # the shared parse namespace was built on the old type registry: rebuild
        self.lib = G.Lib()
        return r

    def decl_full(self, text):
        return self.full({"library": "t", "cxx_header": "t.hpp",
                          "declarations": [{"decl": "class Cls"}, {"decl": "namespace ns",
                                                                   "declarations": [{"decl": "class Inner"}]},
                                           {"decl": text}]})


def mutate(toks, m):
    t = list(toks)
    op, pos, tok = m["op"], m["pos"], m["tok"]
    if op == "none":
        return t
    if op == "del":
        return t[:pos - 1] + t[pos:]
    if op == "ins":
        return t[:pos - 1] + [tok] + t[pos - 1:]
    if op == "rep":
        t[pos - 1] = tok
        return t
    if op == "swap":
        t[pos - 1], t[pos] = t[pos], t[pos - 1]
        return t
    if op == "app":
        return t + [tok]
    raise ValueError(op)


def all_muts(n, alphabet):
    yield {"op": "none", "pos": 0, "tok": ""}
    for p in range(1, n + 1):
        yield {"op": "del", "pos": p, "tok": ""}
    for p in range(1, n):
        yield {"op": "swap", "pos": p, "tok": ""}
    for p in range(1, n + 2):
        for t in alphabet:
            yield {"op": "ins", "pos": p, "tok": t}
    for p in range(1, n + 1):
        for t in alphabet:
            yield {"op": "rep", "pos": p, "tok": t}
    for t in alphabet:
        yield {"op": "app", "pos": 0, "tok": t}


# ---------------------------------------------------------------------------
# attribute table

SHAPES = []
for base in ("int", "double", "char", "void", "string"):
    for ptr in (0, 1, 2):
        for const in (False, True):
            if base == "void" and ptr == 0:
                continue
            if base == "string" and ptr == 2:
                continue
            SHAPES.append({"base": base, "ptr": ptr, "const": const, "fptr": False})
FPTR = {"base": "int", "ptr": 0, "const": False, "fptr": True}

VALUES = {
    "intent": [None, "in", "out", "inout", "IN", "bad"],
    "deref": [None, "allocatable", "pointer", "raw", "scalar", "bad"],
    "rank": [None, "0", "1", "2", "7", "8", "12", "x"],
    "dimension": [None, "3", "n"],
    "owner": [None, "caller", "library", "bad"],
    "charlen": [None, "20"],
    "len": [None, "30"],
    "len_trim": [None],
    "implied": ["3"],
    "name": ["newname"],
    "value": [None],
    "hidden": [None],
    "readonly": [None],
    "pure": [None],
    "free_pattern": ["nosuchpattern"],
    "external": [None],
    "assumedtype": [None],
    "bogus": [None, "1"],
    "intnet": ["in"],
}
PAIRS = [("dimension", "value"), ("dimension", "rank"), ("assumedtype", "value"), ("intent", "value"),
         ("intent", "dimension"), ("intent", "rank"), ("deref", "dimension"), ("owner", "deref"), ("hidden", "intent"),
         ("charlen", "intent"), ("len", "intent"), ("rank", "deref"), ("intent", "bogus")]


def type_text(shape):
    b = {"int": "int", "double": "double", "char": "char", "void": "void", "string": "std::string"}[shape["base"]]
    return ("const " if shape["const"] else "") + b + " " + "*" * shape["ptr"]


def attr_text(a):
    return "+" + a["n"] + ("" if a["bare"] else "(%s)" % a["v"])


def attr_rows(rng, thorough):
    def mk(n, v):
        return {"n": n, "bare": v is None, "v": v or ""}
    rows = []
    for target in ("arg", "func", "var"):
        shapes = SHAPES if target != "func" else SHAPES + [{"base": "void", "ptr": 0, "const": False, "fptr": False}]
        for n, vals in VALUES.items():
            for v in vals:
                for sh in shapes:
                    rows.append((target, sh, [mk(n, v)]))
        for a, b in PAIRS:
            for va in VALUES[a]:
                for vb in VALUES[b]:
                    for sh in (shapes if thorough else rng.sample(shapes, 6)):
                        rows.append((target, sh, [mk(a, va), mk(b, vb)]))
    rows.append(("arg", FPTR, [mk("external", None)]))
    rows.append(("arg", FPTR, [mk("external", None), mk("intent", "in")]))
    rows.append(("arg", FPTR, [mk("bogus", None)]))
    return rows


def attr_dict(target, shape, attrs):
    at = "".join(attr_text(a) for a in attrs)
    if target == "arg":
        if shape["fptr"]:
            decl = "void f(int (*a)(int) %s)" % at
        else:
            decl = "void f(%sa %s, int n)" % (type_text(shape), at)
        decls = [{"decl": decl}]
    elif target == "func":
        decls = [{"decl": "%sf(int n) %s" % (type_text(shape), at)}]
    else:
        decls = [{"decl": "class C", "declarations": [{"decl": "%sm %s" % (type_text(shape), at)}]}]
    return {"library": "t", "cxx_header": "t.hpp", "declarations": decls}


# ---------------------------------------------------------------------------
# YAML structure rows

def yaml_rows():
    f = {"decl": "void f(int a)"}
    base = {"library": "t", "cxx_header": "t.hpp"}

    def lib(**kw):
        d = dict(base)
        d.update(kw)
        return d
    gen = []
    ok = ["(float *x +rank(1), int n +implied(size(x)))", "(double *x +rank(1), int n +implied(size(x)))",
          "(int *x +rank(1), int n +implied(size(x)))"]
    bad = {"unknown-argument": "int n +implied(size(nosuch))", "too-many-arguments": "int n +implied(size(x,1,2))"}

    def gdecl(entries):
        return lib(declarations=[{"decl": "void g(double *x +rank(1), int n +implied(size(x)))",
                                  "fortran_generic": [{"decl": e} for e in entries]}])
    gen.append(("generic-implied:legal", gdecl(ok)))
    for k in range(3):
        for w, txt in bad.items():
            es = list(ok)
            es[k] = es[k].replace("int n +implied(size(x))", txt)
            gen.append(("generic-implied:%s:entry%d" % (w, k + 1), gdecl(es)))
    # validity of a declaration does not depend on the declarations around it: every valid declaration A beside
    # every invalid declaration B, in both orders, is an invalid library; A beside another valid one is valid
    A = {"tmpl2": {"decl": "template<typename T> void ta(T a)", "cxx_template": [{"instantiation": "<int>"}, {"instantiation": "<double>"}]},
         "tmpl1": {"decl": "template<typename T> void tb(T a)", "cxx_template": [{"instantiation": "<int>"}]},
         "generic": {"decl": "void tg(double a)", "fortran_generic": [{"decl": "(float a)"}, {"decl": "(double a)"}]},
         "class": {"decl": "class K", "declarations": [{"decl": "K()"}, {"decl": "int m(int a = 1)"}]}}
    B = {"uninstT": {"decl": "template<typename T> void ub(T a)"},
         "uninstU": {"decl": "template<typename U> void uc(U a)"},
         "unknown": {"decl": "void ud(nosuch_t a)"}}
    for an, a in A.items():
        for bn, b in B.items():
            gen.append(("pair:%s:%s:ab" % (an, bn), lib(declarations=[json.loads(json.dumps(a)), json.loads(json.dumps(b))])))
            gen.append(("pair:%s:%s:ba" % (an, bn), lib(declarations=[json.loads(json.dumps(b)), json.loads(json.dumps(a))])))
        for an2, a2 in A.items():
            if an < an2:
                gen.append(("pairok:%s:%s" % (an, an2), lib(declarations=[json.loads(json.dumps(a)), json.loads(json.dumps(a2))])))
    return gen + [
        ("minimal", lib(declarations=[f])),
        ("empty-block", lib(declarations=[{"block": True, "declarations": [f]}, {"block": True}])),
        ("class-with-method", lib(declarations=[{"decl": "class C", "declarations": [{"decl": "void m()"}]}])),
        ("namespace-decl", lib(declarations=[{"decl": "namespace ns", "declarations": [f]}])),
        ("language-c", lib(language="c", declarations=[f])),
        ("language-cxx", lib(language="c++", declarations=[f])),
        ("template-list", lib(declarations=[{"decl": "template<typename T> void g(T a)",
                                             "cxx_template": [{"instantiation": "<int>"}]}])),
        ("generic-list", lib(declarations=[{"decl": "void h(double a)",
                                            "fortran_generic": [{"decl": "(float a)"}, {"decl": "(double a)"}]}])),
        ("default-arg-suffix-list", lib(declarations=[{"decl": "void d(int a = 1)",
                                                       "default_arg_suffix": ["_none", "_one"]}])),
        ("language-fortran", lib(language="fortran", declarations=[f])),
        ("decl-entry-without-decl", lib(declarations=[{"options": {"debug": True}}])),
        ("cxx_template-not-list", lib(declarations=[{"decl": "template<typename T> void g(T a)",
                                                     "cxx_template": {"instantiation": "<int>"}}])),
        ("fortran_generic-not-list", lib(declarations=[{"decl": "void h(double a)",
                                                        "fortran_generic": {"decl": "(float a)"}}])),
        ("default_arg_suffix-not-list", lib(declarations=[{"decl": "void d(int a = 1)", "default_arg_suffix": "_x"}])),
        ("declarations-not-list", lib(declarations={"decl": "void f()"})),
        ("decl-not-string", lib(declarations=[{"decl": ["void f()"]}])),
        ("options-not-mapping", lib(options=["debug"], declarations=[f])),
        ("format-not-mapping", lib(format="C_prefix", declarations=[f])),
        ("attrs-not-mapping", lib(declarations=[{"decl": "void f(int a)", "attrs": ["a"]}])),
        ("class-decl-with-body", lib(declarations=[{"decl": "class C { int a; }"}])),
        ("unknown-top-level-type", lib(declarations=[{"decl": "foo_t f()"}])),
    ]


# ---------------------------------------------------------------------------

YT_VALS = {"map": {"C_prefix": "X_"}, "emptymap": {}, "list": ["a"], "emptylist": [], "str": "text", "emptystr": "", "int0": 0,
           "int7": 7, "float0": 0.0, "true": True, "false": False, "null": None}
YT_KEYS = ["format", "options", "attrs", "fattrs", "splicer", "fstatements", "declarations", "cxx_template", "fortran_generic",
           "default_arg_suffix", "copyright", "typemap", "library", "language", "cxx_header", "namespace",
           # keys whose type the documentation leaves open: judged on "never an internal failure" only
           "doxygen", "cpp_if", "return_this", "patterns", "setup", "splicer_code"]


def ytype_rows():
    """Every key of the input file x the level it is written at x every kind of YAML value
    (specs/Trace_Invalid.tla KeyType / ReadAt)."""
    f = {"decl": "void f(int a = 1)"}

    def lib(**kw):
        d = {"library": "t", "cxx_header": "t.hpp", "declarations": [dict(f)]}
        d.update(kw)
        return d
    levels = {
        "library": lambda k, v: lib(**{k: v}),
        "class": lambda k, v: lib(declarations=[dict({"decl": "class C", "declarations": [{"decl": "void m()"}]}, **{k: v})]),
        "namespace": lambda k, v: lib(declarations=[dict({"decl": "namespace n", "declarations": [dict(f)]}, **{k: v})]),
        "function": lambda k, v: lib(declarations=[dict({"decl": "template<typename T> void g(T a, double b = 1.0)",
                                                         "cxx_template": [{"instantiation": "<int>"}]}, **{k: v})]),
    }
    for k in YT_KEYS:
        for lv, mk in levels.items():
            for vk, v in YT_VALS.items():
                yield k, lv, vk, mk(k, json.loads(json.dumps(v)))


def decl_rows():
    """Declarations whose validity depends on context that must not leak between declarations."""
    return [
        ("tmpl-one", "template<typename T> void t1(T arg)"),
        ("tmpl-foreign-param", "template<typename U> void t2(T arg, U val)"),
        ("tmpl-two", "template<typename T, typename U> void t3(T a, U b)"),
        ("tmpl-undeclared-param", "template<typename T> void t4(V a)"),
        ("tmpl-vector-arg", "template<typename W> void t5(std::vector<W> &a)"),
        ("tmpl-foreign-in-vector", "template<typename X> void t6(std::vector<W> &a)"),
        ("tmpl-reuse-name", "template<typename T> T t7(T a, int n)"),
        ("tmpl-param-after-template", "void t8(T a)"),
    ]


def finding_key(kind, t, detail):
    d = detail.split('"')[1] if '"' in detail else detail
    if kind == "attr":
        names = "+".join(sorted(a["n"] + ("" if a["bare"] else "=" + a["v"]) for a in t["attrs"]))
        return "attr:%s:%s:%s" % (t["target"], names, t["exc"] or d[:40])
    if kind == "yaml":
        return "yaml:" + t["case"]
    if kind == "ytype":
        return "ytype:%s:%s:%s" % (t["key"], t["level"], t["vk"])
    return "%s:%s:%s" % (kind, d[:40], t["exc"] or "")


def run(tier):
    with Check("C17", tier) as c:
        rng = random.Random(common.seed())
        thorough = tier == "thorough"
        c.assumptions += ["outcome classes: accept / reject = RuntimeError, NotImplementedError, SystemExit / "
                          "internal = any other exception / hang = no answer in 3 s",
                          "'trailing or unbalanced text' is judged by sound syntactic criteria only (bracket "
                          "matching, tokens that cannot end a declaration, empty list slots)",
                          "attribute rows the documentation leaves open are not judged (Attrs!Open)"]
        cfg = "MC_DeclMutate_thorough" if thorough else "MC_DeclMutate_quick"
        r, bad = model_check("MC_DeclMutate", cfg, require_actions=("MApply",), timeout=3400)
        c.add_tlc(r, cfg)
        if bad:
            c.violation("model:" + bad, "oracle invariant %s violated" % bad, {"tlc_tail": r.out[-4000:]})
        W = World()
        # --- valid sentences and their single-token mutants
        ds = list(G.variables(["int", "string", "vecint", "cls", "uint"]))
        if not thorough:
            ds = rng.sample(ds, 60)
        ds += list(G.functions(rng, 400 if thorough else 40))
        ds += list(G.decorated_variables(rng, 300 if thorough else 40))
        sentences = set(tuple(G.tokens(d)) for d in ds)
        rng.shuffle(ds)
        budget = 300000 if thorough else 9000
        traces = []
        alph = ALPHABET if thorough else ALPHABET[:16]
        seen = set()
        for d in ds:
            toks = G.tokens(d)
            ms = list(all_muts(len(toks), alph))
            if not thorough and len(ms) > 60:
                ms = [ms[0]] + rng.sample(ms[1:], 59)
            for m in ms:
                mt = mutate(toks, m)
                key = tuple(mt)
                text = G.text(mt)
                if key in seen or G.lex(text) != mt:
                    continue  # adjacent tokens that re-lex differently (e.g. ':' ':') are not this mutant
                seen.add(key)
                o, msg, exc = W.parse(text)
                if o == "accept":
                    # accepted by the parser: the verdict is what the whole front end says
                    # (library construction + attribute verification, still before any output)
                    o, msg, exc = W.decl_full(text)
                    if o != "accept":
                        msg = "full pass: " + msg
                traces.append({"kind": "mut", "D": d, "mut": m, "toks": mt, "outcome": o, "msg": msg,
                               "sentence": key in sentences, "text": text, "exc": exc})
            if len(traces) >= budget:
                break
        n_mut = len(traces)
        # --- random token strings
        for _ in range(40000 if thorough else 4000):
            n = rng.randint(1, 12)
            toks = [rng.choice(ALPHABET) for _ in range(n)]
            text = G.text(toks)
            if G.lex(text) != toks:
                continue
            o, msg, exc = W.parse(text)
            traces.append({"kind": "raw", "toks": toks, "outcome": o, "msg": msg, "text": text, "exc": exc})
        n_raw = len(traces) - n_mut
        # --- attribute table
        for target, shape, attrs in attr_rows(rng, thorough):
            dct = attr_dict(target, shape, attrs)
            o, msg, exc = W.full(dct)
            traces.append({"kind": "attr", "target": target, "shape": shape, "attrs": attrs, "outcome": o,
                           "msg": msg, "exc": exc, "text": json.dumps(dct["declarations"])})
        n_attr = len(traces) - n_mut - n_raw
        # --- YAML structure
        for case, dct in yaml_rows():
            o, msg, exc = W.full(dct)
            traces.append({"kind": "yaml", "case": case, "outcome": o, "msg": msg, "exc": exc, "text": json.dumps(dct)})
        for case, text in decl_rows():
            o, msg, exc = W.parse(text)
            traces.append({"kind": "yaml", "case": case, "outcome": o, "msg": msg, "exc": exc, "text": text})
        for k, lv, vk, dct in ytype_rows():
            o, msg, exc = W.full(dct)
            traces.append({"kind": "ytype", "key": k, "level": lv, "vk": vk, "outcome": o, "msg": msg, "exc": exc,
                           "text": "%s: %s at %s level" % (k, json.dumps(YT_VALS[vk]), lv)})
        n_yaml = len(traces) - n_mut - n_raw - n_attr
        # --- history independence: a sample of the inputs again, in another order
        for t in traces:
            t["again"] = t["outcome"]
        idx = [i for i, t in enumerate(traces) if t["kind"] in ("mut", "raw")]
        again = rng.sample(idx, min(len(idx), 20000 if thorough else 2500))
        again += [i for i, t in enumerate(traces) if t["kind"] == "yaml" and t["text"] and not t["text"].startswith("{")]
        for i in reversed(again):
            t = traces[i]
            o, msg, exc = W.parse(t["text"])
            if o == "accept" and t["kind"] == "mut":
                o, msg, exc = W.decl_full(t["text"])
            t["again"] = o
        # --- negative controls
        controls = [{"kind": "raw", "toks": ["int", "f", "(", "int", "a"], "outcome": "accept", "msg": ""},
                    {"kind": "raw", "toks": ["int", "x", "="], "outcome": "accept", "msg": ""},
                    {"kind": "raw", "toks": ["int", "x"], "outcome": "internal", "msg": "boom"},
                    {"kind": "attr", "target": "arg", "shape": SHAPES[0], "attrs": [{"n": "intent", "bare": False, "v": "out"}],
                     "outcome": "accept", "msg": ""},
                    {"kind": "yaml", "case": "language-fortran", "outcome": "accept", "msg": ""},
                    {"kind": "ytype", "key": "options", "level": "class", "vk": "false", "outcome": "accept", "msg": ""},
                    {"kind": "ytype", "key": "setup", "level": "library", "vk": "int7", "outcome": "internal", "msg": "boom"}]
        keys = {"mut": ("kind", "D", "mut", "toks", "outcome", "msg", "sentence", "again"),
                "raw": ("kind", "toks", "outcome", "msg", "again"),
                "attr": ("kind", "target", "shape", "attrs", "outcome", "msg", "again"),
                "yaml": ("kind", "case", "outcome", "msg", "again"),
                "ytype": ("kind", "key", "level", "vk", "outcome", "msg", "again")}
        for k in controls:
            k["again"] = k["outcome"]
        controls.append({"kind": "raw", "toks": ["int", "x"], "outcome": "accept", "msg": "", "again": "reject"})
        alltr = [{k: t[k] for k in keys[t["kind"]]} for t in traces + controls]
        for t in alltr:
            t["msg"] = "m" if t["msg"] else ""      # only emptiness matters; keep TLC strings small
        verdicts, st = validate_traces("Trace_Invalid", "Trace_Invalid", alltr, shard=5000)
        c.add_stats(st, "trace_validation", len(traces))
        cnt = {}
        for i, t in enumerate(traces):
            v, detail = verdicts[i]
            cnt[t["kind"] + ":" + v] = cnt.get(t["kind"] + ":" + v, 0) + 1
            if v == "BADTREE":
                raise MachineryError("harness/spec mismatch on %r: %s" % (t.get("text"), detail))
            if v == "REJECT":
                d0 = detail.split('"')[1]
                if t["kind"] in ("mut", "raw") and d0.startswith("attribute value:"):
                    key = "decl:unchecked-attribute-value"      # free text inside +name( ... )
                elif t["kind"] in ("mut", "raw"):
                    key = "decl:%s:%s" % (d0[:40], t["text"][:80])
                else:
                    key = finding_key(t["kind"], t, detail)
                c.violation(key,
                            "%s -> %s (%s %s)" % (t["text"][:200], detail, t["exc"], t["msg"][:120]),
                            {"input": t["text"], "outcome": t["outcome"], "exception": t["exc"], "message": t["msg"]})
            elif v == "ACCEPT":
                c.count(1, [t["text"]] if t["outcome"] == "reject" else ())
        for i, k in enumerate(controls):
            v, detail = verdicts[len(traces) + i]
            if v != "REJECT":
                raise MachineryError("negative control %d not rejected: %s %s" % (i, v, detail))
        c.part("conformance", mutants=n_mut, random_strings=n_raw, attribute_rows=n_attr, yaml_rows=n_yaml,
               verdicts=cnt, negative_controls_rejected=len(controls))
        c.cov["rule"] = ("valid sentences x single-token edits (del/ins/rep/swap/append over %d tokens), random token "
                         "strings of length <= 12, attribute rows (target x shape x names x values, documented illegal "
                         "pairs), YAML structure rows. non-trivial = distinct input that is cleanly rejected" % len(alph))
        for t in traces[1:3] + traces[n_mut:n_mut + 1] + traces[n_mut + n_raw:n_mut + n_raw + 2]:
            c.sample({"kind": t["kind"], "input": t["text"][:160], "outcome": t["outcome"], "message": t["msg"][:100]})
        c.finish()


if __name__ == "__main__":
    run(common.tier_from_argv())
