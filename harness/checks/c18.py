"""C18 -- the generated Lua binding is call-equivalent to the wrapped library.

1. TLC model-checks LuaDispatch on every stack of <= 4 Lua values against an
   overload/default set (first match wins, selection by count and Lua types,
   methods need their object) and CallBridge.
2. Conformance: the real Shroud wraps an instrumented C++ library for Lua; the
   module is compiled against an emulation of the Lua C API (harness/rt/
   luastub: explicit value stack, userdata with named metatables, errors by
   longjmp); a driver enters every registered binding with every stack of
   length <= maxargs+1 over {integer, float, string, boolean, nil, object},
   logs the pushed values and the returned count or the Lua error; the library
   logs what it receives; TLC validates every invocation (Trace_LuaDispatch).
"""
import itertools
import json
import os
import subprocess
import sys

sys.path.insert(0, os.path.dirname(os.path.dirname(os.path.abspath(__file__))))
import common  # noqa: E402
from common import Check, model_check, validate_traces, MachineryError  # noqa: E402
import shroudrun  # noqa: E402

RT = os.path.join(os.path.dirname(os.path.dirname(os.path.abspath(__file__))), "rt")
STUB = os.path.join(RT, "luastub")

YAML = """
library: lsub
cxx_header: lsub.hpp
options: {debug: true, wrap_fortran: false, wrap_c: false, wrap_python: false, wrap_lua: true}
declarations:
- decl: int f1(int a, double b, bool c)
- decl: int f4(const std::string & t)
- decl: const std::string & f6(int a)
- decl: void f7(double x)
- decl: int f13(int a = 3, int b = 4)
- decl: int f14(int a)
- decl: int f17(double x, int a = 7, bool b = true)
- decl: int f14(const std::string & s)
- decl: bool f18(bool flag)
- decl: int f14(int a, const std::string & s)
- decl: int f19(double x, int a, int off = 0, int stride = 1)
- decl: int f25(const std::string & s)
- decl: int f25(bool b)
- decl: int f31(bool flag)
- decl: int f31(int n)
- decl: int f32(int n, bool flag)
- decl: int f32(int n, int m)
- decl: double f27(double x, int n = 1)
- decl: int f27(const std::string & s, int n = 1)
- decl: int f30(int a, const std::string & s)
- decl: int f30(const std::string & s, int a)
- decl: int f30(int a, int b)
- decl: long long f23(long long a)
- decl: long f24(long a, size_t n)
- decl: class Late
  declarations:
  - decl: int peek() const
  - decl: Late(int v)
  - decl: Late()
  - decl: Late(const std::string & s, int k = 2)
- decl: class Cls
  declarations:
  - decl: Cls(int v)
  - decl: Cls(const std::string & s)
  - decl: Cls()
  - decl: ~Cls()
  - decl: int add(int a)
  - decl: int get() const
  - decl: int add(const std::string & s)
  - decl: void set(int v)
  - decl: int scale(int k = 2)
  - decl: int mix(int a, double b)
"""

HPP = """
#ifndef LSUB_HPP
#define LSUB_HPP
#include <string>
int f1(int a, double b, bool c);
int f4(const std::string &t);
const std::string &f6(int a);
void f7(double x);
int f13(int a = 3, int b = 4);
int f14(int a);
int f14(const std::string &s);
int f14(int a, const std::string &s);
int f17(double x, int a = 7, bool b = true);
bool f18(bool flag);
int f19(double x, int a, int off = 0, int stride = 1);
int f25(const std::string &s);
int f25(bool b);
int f31(bool flag);
int f31(int n);
int f32(int n, bool flag);
int f32(int n, int m);
double f27(double x, int n = 1);
int f27(const std::string &s, int n = 1);
int f30(int a, const std::string &s);
int f30(const std::string &s, int a);
int f30(int a, int b);
long long f23(long long a);
long f24(long a, size_t n);
class Late { public: int value; int peek() const; explicit Late(int v); Late(); Late(const std::string &s, int k = 2); };
class Cls { public: int value; explicit Cls(int v); explicit Cls(const std::string &s); Cls(); ~Cls(); int add(int a); int add(const std::string &s); int get() const; void set(int v); int scale(int k = 2); int mix(int a, double b); };
#endif
"""

CPP = r"""
#include "lsub.hpp"
#include "vt.h"
#define IN(t) vt_begin("LibEnter", "f"); vt_target(t)
#define OUT(t) vt_begin("LibExit", "f"); vt_target(t)
int f1(int a, double b, bool c) { IN("f1(int,double,bool)"); vt_int(a); vt_dbl(b); vt_bool(c); vt_end(); int rv = a * 100 + (int)(b * 4) + (c ? 7 : 0); OUT("f1(int,double,bool)"); vt_int(rv); vt_end(); return rv; }
int f4(const std::string &t) { IN("f4(const std::string&)"); vt_str(t.c_str(), (long)t.size()); vt_end(); int rv = (int)t.size() + 40; OUT("f4(const std::string&)"); vt_int(rv); vt_end(); return rv; }
const std::string &f6(int a) { static std::string s; IN("f6(int)"); vt_int(a); vt_end(); s = "six" + std::to_string(a % 10); OUT("f6(int)"); vt_str(s.c_str(), (long)s.size()); vt_end(); return s; }
void f7(double x) { IN("f7(double)"); vt_dbl(x); vt_end(); OUT("f7(double)"); vt_end(); }
int f13(int a, int b) { IN("f13(int,int)"); vt_int(a); vt_int(b); vt_end(); int rv = a * 10 + b; OUT("f13(int,int)"); vt_int(rv); vt_end(); return rv; }
int f14(int a) { IN("f14(int)"); vt_int(a); vt_end(); int rv = 1000 + a; OUT("f14(int)"); vt_int(rv); vt_end(); return rv; }
int f14(const std::string &s) { IN("f14(const std::string&)"); vt_str(s.c_str(), (long)s.size()); vt_end(); int rv = 2000 + (int)s.size(); OUT("f14(const std::string&)"); vt_int(rv); vt_end(); return rv; }
int f14(int a, const std::string &s) { IN("f14(int,const std::string&)"); vt_int(a); vt_str(s.c_str(), (long)s.size()); vt_end(); int rv = 3000 + a + (int)s.size(); OUT("f14(int,const std::string&)"); vt_int(rv); vt_end(); return rv; }
int f17(double x, int a, bool b) { IN("f17(double,int,bool)"); vt_dbl(x); vt_int(a); vt_bool(b); vt_end(); int rv = (int)(x * 4) + a * 100 + (b ? 1 : 0); OUT("f17(double,int,bool)"); vt_int(rv); vt_end(); return rv; }
bool f18(bool flag) { IN("f18(bool)"); vt_bool(flag); vt_end(); bool rv = !flag; OUT("f18(bool)"); vt_bool(rv); vt_end(); return rv; }
int f19(double x, int a, int off, int stride) { IN("f19(double,int,int,int)"); vt_dbl(x); vt_int(a); vt_int(off); vt_int(stride); vt_end(); int rv = (int)(x * 4) + a * 10 + off * 100 + stride * 1000; OUT("f19(double,int,int,int)"); vt_int(rv); vt_end(); return rv; }
int f25(const std::string &s) { IN("f25(const std::string&)"); vt_str(s.c_str(), (long)s.size()); vt_end(); int rv = 500 + (int)s.size(); OUT("f25(const std::string&)"); vt_int(rv); vt_end(); return rv; }
int f31(bool flag) { IN("f31(bool)"); vt_bool(flag); vt_end(); int rv = flag ? 3101 : 3100; OUT("f31(bool)"); vt_int(rv); vt_end(); return rv; }
int f31(int n) { IN("f31(int)"); vt_int(n); vt_end(); int rv = 3200 + n; OUT("f31(int)"); vt_int(rv); vt_end(); return rv; }
int f32(int n, bool flag) { IN("f32(int,bool)"); vt_int(n); vt_bool(flag); vt_end(); int rv = n + (flag ? 3301 : 3300); OUT("f32(int,bool)"); vt_int(rv); vt_end(); return rv; }
int f32(int n, int m) { IN("f32(int,int)"); vt_int(n); vt_int(m); vt_end(); int rv = 3400 + n * 10 + m; OUT("f32(int,int)"); vt_int(rv); vt_end(); return rv; }
int f25(bool b) { IN("f25(bool)"); vt_bool(b); vt_end(); int rv = b ? 601 : 600; OUT("f25(bool)"); vt_int(rv); vt_end(); return rv; }
double f27(double x, int n) { IN("f27(double,int)"); vt_dbl(x); vt_int(n); vt_end(); double rv = x * n + 0.25; OUT("f27(double,int)"); vt_dbl(rv); vt_end(); return rv; }
int f27(const std::string &s, int n) { IN("f27(const std::string&,int)"); vt_str(s.c_str(), (long)s.size()); vt_int(n); vt_end(); int rv = 700 + (int)s.size() * n; OUT("f27(const std::string&,int)"); vt_int(rv); vt_end(); return rv; }
int f30(int a, const std::string &s) { IN("f30(int,const std::string&)"); vt_int(a); vt_str(s.c_str(), (long)s.size()); vt_end(); int rv = 100 + a + (int)s.size(); OUT("f30(int,const std::string&)"); vt_int(rv); vt_end(); return rv; }
int f30(const std::string &s, int a) { IN("f30(const std::string&,int)"); vt_str(s.c_str(), (long)s.size()); vt_int(a); vt_end(); int rv = 200 + a + (int)s.size(); OUT("f30(const std::string&,int)"); vt_int(rv); vt_end(); return rv; }
int f30(int a, int b) { IN("f30(int,int)"); vt_int(a); vt_int(b); vt_end(); int rv = 300 + a * 10 + b; OUT("f30(int,int)"); vt_int(rv); vt_end(); return rv; }
long long f23(long long a) { IN("f23(long long)"); vt_int((long)a); vt_end(); long long rv = a * 2 + 1; OUT("f23(long long)"); vt_int((long)rv); vt_end(); return rv; }
long f24(long a, size_t n) { IN("f24(long,size_t)"); vt_int(a); vt_int((long)n); vt_end(); long rv = a + (long)n; OUT("f24(long,size_t)"); vt_int(rv); vt_end(); return rv; }
int Late::peek() const { IN("Late::peek()"); vt_obj(this); vt_end(); int rv = value; OUT("Late::peek()"); vt_int(rv); vt_end(); return rv; }
Late::Late(int v) : value(v) { IN("Late::Late(int)"); vt_int(v); vt_end(); OUT("Late::Late(int)"); vt_obj(this); vt_end(); }
Late::Late() : value(-3) { IN("Late::Late()"); vt_end(); OUT("Late::Late()"); vt_obj(this); vt_end(); }
Late::Late(const std::string &s, int k) : value((int)s.size() * k) { IN("Late::Late(const std::string&,int)"); vt_str(s.c_str(), (long)s.size()); vt_int(k); vt_end(); OUT("Late::Late(const std::string&,int)"); vt_obj(this); vt_end(); }
Cls::Cls(int v) : value(v) { IN("Cls::Cls(int)"); vt_int(v); vt_end(); OUT("Cls::Cls(int)"); vt_obj(this); vt_end(); }
Cls::Cls(const std::string &s) : value((int)s.size() + 50) { IN("Cls::Cls(const std::string&)"); vt_str(s.c_str(), (long)s.size()); vt_end(); OUT("Cls::Cls(const std::string&)"); vt_obj(this); vt_end(); }
Cls::Cls() : value(-7) { IN("Cls::Cls()"); vt_end(); OUT("Cls::Cls()"); vt_obj(this); vt_end(); }
Cls::~Cls() { }
int Cls::add(int a) { IN("Cls::add(int)"); vt_obj(this); vt_int(a); vt_end(); int rv = value + a; OUT("Cls::add(int)"); vt_int(rv); vt_end(); return rv; }
int Cls::add(const std::string &s) { IN("Cls::add(const std::string&)"); vt_obj(this); vt_str(s.c_str(), (long)s.size()); vt_end(); int rv = value + 100 * (int)s.size(); OUT("Cls::add(const std::string&)"); vt_int(rv); vt_end(); return rv; }
int Cls::get() const { IN("Cls::get()"); vt_obj(this); vt_end(); int rv = value; OUT("Cls::get()"); vt_int(rv); vt_end(); return rv; }
void Cls::set(int v) { IN("Cls::set(int)"); vt_obj(this); vt_int(v); vt_end(); value = v; OUT("Cls::set(int)"); vt_end(); }
int Cls::scale(int k) { IN("Cls::scale(int)"); vt_obj(this); vt_int(k); vt_end(); int rv = value * k; OUT("Cls::scale(int)"); vt_int(rv); vt_end(); return rv; }
int Cls::mix(int a, double b) { IN("Cls::mix(int,double)"); vt_obj(this); vt_int(a); vt_dbl(b); vt_end(); int rv = value + a * 10 + (int)(b * 4); OUT("Cls::mix(int,double)"); vt_int(rv); vt_end(); return rv; }
"""

DRIVER = r"""
#include <stdio.h>
#include <string.h>
#include <stdlib.h>
#include "lua.h"
#include "lauxlib.h"
#include "vt.h"
#include "lsub.hpp"   /* first: the generated header includes it inside extern "C" */
#include "lualsubmodule.hpp"
static void logval(const stub_value *v) {
    switch (v->type) {
    /* Lua keeps integers and floats apart (math.type): an integer result must come back as an integer */
    case LUA_TNUMBER: if (v->isint) vt_int((long)v->n); else vt_dbl(v->n); break;
    case LUA_TSTRING: vt_str(v->s, -1); break;
    case LUA_TBOOLEAN: vt_bool(v->b); break;
    case LUA_TUSERDATA: vt_obj(v->ud ? *(void **)v->ud : NULL); break;
    default: vt_str(NULL, 0); break;
    }
}
static void setval(lua_State *L, int kind, void *obj_ud) {
    switch (kind) {
    case 0: lua_pushinteger(L, 3); break;
    case 1: lua_pushnumber(L, 2.5); break;
    case 2: lua_pushstring(L, "ab"); break;
    case 3: lua_pushboolean(L, 1); break;
    case 4: lua_pushnil(L); break;
    case 5: { stub_value v; memset(&v, 0, sizeof v); v.type = LUA_TUSERDATA; v.ud = obj_ud; v.meta = "Cls.metatable"; L->stack[L->top++] = v; break; }
    case 6: lua_pushinteger(L, -41); break;
    case 7: lua_pushstring(L, ""); break;
    case 8: lua_pushboolean(L, 0); break;
    }
}
static void *make_object(lua_State *L, int v) {
    lua_CFunction ctor = stub_find("module", "Cls");
    void *ud;
    L->top = 0; lua_pushinteger(L, v);
    L->has_jb = 1;
    if (setjmp(L->jb) != 0 || !ctor) { fprintf(stderr, "constructor failed\n"); exit(3); }
    ctor(L);
    ud = L->stack[L->top - 1].ud;
    L->has_jb = 0;
    return ud;
}
static void run(lua_State *L, const char *table, const char *name, int self, const int *kinds, int n, void *obj, void *obj2) {
    lua_CFunction f = stub_find(table, name);
    int k, base, nret = -1;
    if (!f) { vt_note("missing binding"); return; }
    L->top = 0;
    if (self == 1) setval(L, 5, obj);
    for (k = 0; k < n; k++) setval(L, kinds[k], obj2);
    base = L->top;
    vt_begin("LuaCall", name); vt_target(table);
    for (k = 0; k < base; k++) logval(&L->stack[k]);
    vt_end();
    L->has_jb = 1; L->errmsg[0] = 0;
    try {
        if (setjmp(L->jb) == 0) nret = f(L);
    } catch (...) {
        /* a C++ exception leaving a binding would abort a real Lua interpreter */
        L->has_jb = 0; vt_begin("LuaCrash", name); vt_end(); return;
    }
    L->has_jb = 0;
    if (nret < 0) { vt_begin("LuaError", name); vt_str(L->errmsg, -1); vt_end(); return; }
    vt_begin("LuaReturn", name); vt_int(nret);
    for (k = base; k < L->top; k++) logval(&L->stack[k]);
    vt_end();
}
static void sweep(lua_State *L, const char *table, const char *name, int self, int maxn, void *obj, void *obj2, int nk) {
    int kinds[6], n, k; long code, total;
    for (n = 0; n <= maxn; n++) {
        total = 1; for (k = 0; k < n; k++) total *= nk;
        for (code = 0; code < total; code++) {
            long q = code;
            for (k = 0; k < n; k++) { kinds[k] = (int)(q % nk); q /= nk; }
            run(L, table, name, self, kinds, n, obj, obj2);
        }
    }
}
int main(void) {
    static lua_State S; lua_State *L = &S;
    void *a, *b;
    luaopen_lsub(L);
    /* constructor stacks first (objects are created through the binding itself) */
    sweep(L, "module", "Cls", 0, 2, NULL, NULL, 6);
    a = make_object(L, 5); b = make_object(L, -2);
%(sweeps)s
    return 0;
}
"""

# every native scalar type (typemap.py gives each its own LUA_type / LUA_pop / LUA_push): as an argument of a function
# with a default argument (the wrapper then tests the Lua type of each value) and as a result.  The library logs
# an unsigned argument through its signed counterpart, so a negative Lua integer compares equal.
LKINDS = [("short", "short", "int", "(long)a"), ("ushort", "unsigned short", "int", "(long)(short)a"),
          ("uint", "unsigned int", "int", "(long)(int)a"), ("ulong", "unsigned long", "int", "(long)a"),
          ("ullong", "unsigned long long", "int", "(long)a"), ("float", "float", "dbl", "(double)a"),
          ("i8", "int8_t", "int", "(long)a"), ("i16", "int16_t", "int", "(long)a"), ("i32", "int32_t", "int", "(long)a"),
          ("i64", "int64_t", "int", "(long)a"), ("u8", "uint8_t", "int", "(long)(int8_t)a"),
          ("u16", "uint16_t", "int", "(long)(int16_t)a"), ("u32", "uint32_t", "int", "(long)(int32_t)a"),
          ("u64", "uint64_t", "int", "(long)a")]
_y, _h, _c = [], [], []
for _tag, _T, _ty, _log in LKINDS:
    _y.append("- decl: int k%s(%s a, int b = 1)\n- decl: %s r%s(int a)\n" % (_tag, _T, _T, _tag))
    _h.append("int k%s(%s a, int b = 1);\n%s r%s(int a);\n" % (_tag, _T, _T, _tag))
    _vt = "vt_dbl" if _ty == "dbl" else "vt_int"
    _c.append('int k%(g)s(%(T)s a, int b) { IN("k%(g)s(%(T)s,int)"); %(vt)s(%(log)s); vt_int(b); vt_end(); int rv = (int)a * 2 + b; '
              'OUT("k%(g)s(%(T)s,int)"); vt_int(rv); vt_end(); return rv; }\n'
              '%(T)s r%(g)s(int a) { IN("r%(g)s(int)"); vt_int(a); vt_end(); %(T)s rv = (%(T)s)((a < 0 ? -a : a) %% 100 + 1); '
              'OUT("r%(g)s(int)"); %(vt)s(%(rlog)s); vt_end(); return rv; }\n'
              % dict(g=_tag, T=_T, vt=_vt, log=_log, rlog=_log.replace(")a", ")rv")))
YAML = YAML.replace("- decl: class Cls\n", "".join(_y) + "- decl: class Cls\n", 1)
HPP = HPP.replace("class Cls {", "".join(_h) + "class Cls {", 1).replace("#include <string>", "#include <string>\n#include <stdint.h>\n#include <stddef.h>")
CPP = CPP.replace("Cls::Cls(int v)", "".join(_c) + "Cls::Cls(int v)", 1)

# name, table, self, max args, C++ candidates in generation order: (target, [param ty], [lua type], result ty, ndefault arities)
FUNCS = [
    ("f1", "module", 0, [("f1(int,double,bool)", ["int", "dbl", "bool"], "int", 0)]),
    ("f4", "module", 0, [("f4(const std::string&)", ["str"], "int", 0)]),
    ("f6", "module", 0, [("f6(int)", ["int"], "str", 0)]),
    ("f7", "module", 0, [("f7(double)", ["dbl"], "none", 0)]),
    ("f13", "module", 0, [("f13(int,int)", ["int", "int"], "int", 2)]),
    ("f14", "module", 0, [("f14(int)", ["int"], "int", 0), ("f14(const std::string&)", ["str"], "int", 0),
                          ("f14(int,const std::string&)", ["int", "str"], "int", 0)]),
    ("f17", "module", 0, [("f17(double,int,bool)", ["dbl", "int", "bool"], "int", 2)]),
    ("f18", "module", 0, [("f18(bool)", ["bool"], "bool", 0)]),
    ("f19", "module", 0, [("f19(double,int,int,int)", ["dbl", "int", "int", "int"], "int", 2)]),
    ("f25", "module", 0, [("f25(const std::string&)", ["str"], "int", 0), ("f25(bool)", ["bool"], "int", 0)]),
    # a boolean and an integer candidate at the same position: the wrapper's local variable has to keep the type the
    # branch was chosen for, or the C++ compiler resolves the call to the other overload
    ("f31", "module", 0, [("f31(bool)", ["bool"], "int", 0), ("f31(int)", ["int"], "int", 0)]),
    ("f32", "module", 0, [("f32(int,bool)", ["int", "bool"], "int", 0), ("f32(int,int)", ["int", "int"], "int", 0)]),
    # overloads with different result types, each with a default argument (the variants are visited interleaved)
    ("f27", "module", 0, [("f27(double,int)", ["dbl", "int"], "dbl", 1), ("f27(const std::string&,int)", ["str", "int"], "int", 1)]),
    # three candidates of one arity whose argument types are covered position by position by the others
    ("f30", "module", 0, [("f30(int,const std::string&)", ["int", "str"], "int", 0), ("f30(const std::string&,int)", ["str", "int"], "int", 0),
                          ("f30(int,int)", ["int", "int"], "int", 0)]),
    ("f23", "module", 0, [("f23(long long)", ["int"], "int", 0)]),
    ("f24", "module", 0, [("f24(long,size_t)", ["int", "int"], "int", 0)]),
    # a class whose constructors are declared after a method
    ("Late", "module", 0, [("Late::Late(int)", ["int"], "obj", 0), ("Late::Late()", [], "obj", 0),
                           ("Late::Late(const std::string&,int)", ["str", "int"], "obj", 1)]),
    ("Cls", "module", 0, [("Cls::Cls(int)", ["int"], "obj", 0), ("Cls::Cls(const std::string&)", ["str"], "obj", 0),
                          ("Cls::Cls()", [], "obj", 0)]),
    ("add", "Cls.metatable", 1, [("Cls::add(int)", ["int"], "int", 0), ("Cls::add(const std::string&)", ["str"], "int", 0)]),
    ("get", "Cls.metatable", 1, [("Cls::get()", [], "int", 0)]),
    ("set", "Cls.metatable", 1, [("Cls::set(int)", ["int"], "none", 0)]),
    ("scale", "Cls.metatable", 1, [("Cls::scale(int)", ["int"], "int", 1)]),
    ("mix", "Cls.metatable", 1, [("Cls::mix(int,double)", ["int", "dbl"], "int", 0)]),
]
for _tag, _T, _ty, _log in LKINDS:
    FUNCS.insert(-6, ("k" + _tag, "module", 0, [("k%s(%s,int)" % (_tag, _T), [_ty, "int"], "int", 1)]))
    FUNCS.insert(-6, ("r" + _tag, "module", 0, [("r%s(int)" % _tag, ["int"], _ty, 0)]))
LT = {"int": "number", "dbl": "number", "str": "string", "bool": "boolean", "obj": "userdata"}
DEFAULTS = {"f13(int,int)": [{"t": "i", "v": [3]}, {"t": "i", "v": [4]}],
            "f17(double,int,bool)": [None, {"t": "i", "v": [7]}, {"t": "b", "v": [1]}],
            "Cls::scale(int)": [{"t": "i", "v": [2]}],
            "Late::Late(const std::string&,int)": [None, {"t": "i", "v": [2]}],
            "f27(double,int)": [None, {"t": "i", "v": [1]}], "f27(const std::string&,int)": [None, {"t": "i", "v": [1]}],
            **{"k%s(%s,int)" % (_tag, _T): [None, {"t": "i", "v": [1]}] for _tag, _T, _ty, _log in LKINDS},
            "f19(double,int,int,int)": [None, None, {"t": "i", "v": [0]}, {"t": "i", "v": [1]}]}


def candidates(entry):
    name, table, self, sigs = entry
    out = []
    for target, ptys, res, ndef in sigs:
        n = len(ptys)
        for k in range(n - ndef, n + 1):
            params = []
            for j, ty in enumerate(ptys):
                d = {"has": False, "v": {"t": "i", "v": [0]}}
                dv = DEFAULTS.get(target)
                if dv and dv[j] is not None:
                    d = {"has": True, "v": dv[j]}
                params.append({"ty": ty, "intent": "in", "api": "arg", "conv": "id", "ref": 0, "def": d, "back": "id"})
            out.append({"target": target, "ltypes": [LT[t] for t in ptys[:k]], "ptys": ptys[:k],
                        "sig": {"params": params, "nsup": k, "self": bool(self), "result": res, "resback": "id"}})
    return out


def sh(cmd, cwd, env=None):
    e = dict(os.environ)
    if env:
        e.update(env)
    p = subprocess.run(cmd, cwd=cwd, env=e, stdout=subprocess.PIPE, stderr=subprocess.STDOUT, text=True)
    return p.returncode, p.stdout


def normalise(vals, objmap):
    tg, out = "", []
    for x in vals:
        t, v = x["t"], x["v"]
        if t == "target":
            tg = v
            continue
        if t == "o":
            v = [0 if v == 0 else objmap.setdefault(v, len(objmap) + 1)]
        elif t in ("i", "d"):
            v = [v]
        elif t == "b":
            v = [1 if v else 0]
        elif t == "null":
            t, v = "nil", []
        out.append({"t": t, "v": v})
    return tg, out


def run(tier):
    with Check("C18", tier) as c:
        thorough = tier == "thorough"
        c.assumptions += ["no Lua is installed: harness/rt/luastub emulates the C API subset the generated code uses "
                          "(value stack, lua_type / lua_to* / lua_push*, userdata with named metatables, luaL_error by "
                          "longjmp); the emulator is trusted",
                          "a non-integral number handed to an integer parameter is not judged",
                          "class-typed arguments and const char * arguments are outside the subset the Lua wrapper supports"]
        for mod in ("MC_LuaDispatch", "MC_CallBridge"):
            r, bad = model_check(mod, mod, timeout=900)
            c.add_tlc(r, mod)
            if bad:
                c.violation("model:%s:%s" % (mod, bad), "design-level invariant %s violated" % bad, {"tlc_tail": r.out[-3000:]})
        nk = 9 if thorough else 6
        sweeps = []
        for name, table, self, sigs in FUNCS:
            if name == "Cls":
                continue
            maxn = max(len(s[1]) for s in sigs) + 1
            sweeps.append('    sweep(L, "%s", "%s", %d, %d, a, b, %d);' % (table, name, self, maxn, nk))
            if self:
                sweeps.append('    { int ks[2] = {0, 0}; run(L, "%s", "%s", 0, ks, %d, a, b); }' % (table, name, len(sigs[0][1])))  # no object
                sweeps.append('    { int ks[2] = {0, 0}; run(L, "%s", "%s", 1, ks, %d, b, a); }' % (table, name, len(sigs[0][1])))  # the other object
        with common.scratch("c18-") as d:
            open(os.path.join(d, "lsub.yaml"), "w").write(YAML)
            open(os.path.join(d, "lsub.hpp"), "w").write(HPP)
            open(os.path.join(d, "lsub.cpp"), "w").write(CPP)
            open(os.path.join(d, "driver.cpp"), "w").write(DRIVER.replace("%(sweeps)s", "\n".join(sweeps)))
            out = os.path.join(d, "gen")
            os.makedirs(out)
            rc, so, se = shroudrun.run(["--outdir", out, "--logdir", out, os.path.join(d, "lsub.yaml")])
            if rc != 0:
                c.violation("shroud-fails", se[-600:])
                c.finish()
            inc = ["-I", d, "-I", out, "-I", RT, "-I", STUB]
            objs = []
            for s, cc in ((os.path.join(d, "lsub.cpp"), "g++"), (os.path.join(out, "lualsubmodule.cpp"), "g++"),
                          (os.path.join(d, "driver.cpp"), "g++"), (os.path.join(STUB, "luastub.c"), "gcc"), (os.path.join(RT, "vt.c"), "gcc")):
                o = os.path.join(d, os.path.basename(s) + ".o")
                rc, txt = sh([cc, "-g", "-c", s, "-o", o] + (["-std=c++11"] if cc == "g++" else []) + inc, d)
                if rc != 0:
                    c.violation("compile:" + os.path.basename(s), "does not compile against the Lua API: " + txt[-1200:], {"diag": txt[-3000:]})
                    c.finish()
                objs.append(o)
            exe = os.path.join(d, "driver")
            rc, txt = sh(["g++", "-o", exe] + objs, d)
            if rc != 0:
                c.violation("link", txt[-800:])
                c.finish()
            tf = os.path.join(d, "trace.ndjson")
            p = subprocess.run([exe], cwd=d, env=dict(os.environ, VT_TRACE=tf), stdout=subprocess.PIPE, stderr=subprocess.PIPE, text=True, timeout=600)
            if p.returncode != 0:
                c.violation("driver-crash", "driver exit %d: %s" % (p.returncode, p.stderr[-400:]))
            events = [json.loads(l) for l in open(tf)]
        cands = {e[0] + "@" + e[1]: candidates(e) for e in FUNCS}
        traces, labels = [], []
        objmap = {}
        cur = None
        for e in events:
            if e["ev"] == "LuaCall":
                tg, vals = normalise(e["vals"], objmap)
                cur = {"cands": cands[e["f"] + "@" + tg], "stack": vals, "events": [], "err": "", "nret": 0, "pushed": [],
                       "name": e["f"]}
            elif cur is None:
                continue
            elif e["ev"] in ("LibEnter", "LibExit"):
                tg, vals = normalise(e["vals"], objmap)
                cur["events"].append({"ev": e["ev"], "target": tg, "vals": vals})
            elif e["ev"] in ("LuaError", "LuaCrash"):
                cur["err"] = "error" if e["ev"] == "LuaError" else "crash"
                traces.append(cur)
                cur = None
            elif e["ev"] == "LuaReturn":
                tg, vals = normalise(e["vals"], objmap)
                cur["nret"] = vals[0]["v"][0]
                cur["pushed"] = vals[1:]
                traces.append(cur)
                cur = None
        for t in traces:
            labels.append("%s(%s)" % (t["name"], ", ".join("%s:%s" % (v["t"], v["v"]) for v in t["stack"])))
        controls = []
        for t in traces:
            if t["err"] == "" and t["events"] and t["pushed"] and len(controls) < 3 and all(v["t"] != "d" for v in t["stack"]):
                k = json.loads(json.dumps(t))
                k["nret"] = k["nret"] + 1
                controls.append(k)
        keep = ("cands", "stack", "events", "err", "nret", "pushed")
        verdicts, st = validate_traces("Trace_LuaDispatch", "Trace_LuaDispatch", [{k: t[k] for k in keep} for t in traces + controls], shard=3000)
        c.add_stats(st, "trace_validation", len(traces))
        cnt = {}
        plain = {e[0] for e in FUNCS if len(candidates(e)) == 1}
        for i, t in enumerate(traces):
            v, detail = verdicts[i]
            cnt[v] = cnt.get(v, 0) + 1
            if v == "REJECT":
                d0 = detail.split('"')[1] if '"' in detail else detail
                shape = ",".join({"i": "int", "d": "float", "s": "str", "b": "bool", "nil": "nil", "o": "obj"}[x["t"]] for x in t["stack"])
                if t["name"] in plain and ("matches no signature" in d0):
                    key = "unchecked-stack:plain-binding"
                else:
                    key = "lua:%s:%s:%s" % (t["name"], shape, d0[:60])
                c.violation(key, "%s: %s" % (labels[i], detail), {"call": labels[i], "detail": detail, "events": t["events"],
                                                                  "error": t["err"], "pushed": t["pushed"], "nret": t["nret"]})
            elif v == "ACCEPT":
                c.count(1, [labels[i]])
        for i, k in enumerate(controls):
            v, detail = verdicts[len(traces) + i]
            if v != "REJECT":
                raise MachineryError("negative control %d not rejected: %s %s" % (i, v, detail))
        c.part("conformance", invocations=len(traces), verdicts=cnt, negative_controls_rejected=len(controls), value_kinds=nk)
        c.cov["exhaustive"] = True
        c.cov["rule"] = ("every binding of the module (8 functions incl. overloads and default arguments, constructor, 4 methods) x "
                         "every stack of length 0..maxargs+1 over %d value kinds (with the object in slot 1 for methods; also "
                         "without it). non-trivial = distinct accepted invocation" % nk)
        c.sample({"call": labels[10], "events": traces[10]["events"], "pushed": traces[10]["pushed"]})
        c.finish()


if __name__ == "__main__":
    run(common.tier_from_argv())
