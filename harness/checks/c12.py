"""C12 -- user splicer code is carried into the named blocks unchanged.

1. TLC model-checks Splicer: reader contract on every short file, emitter
   precedence, Read(Emit(U)) returns every emitted body and
   Emit(Read(Emit(U))) = Emit(U) for every short emitter program.
2. Reader conformance: abstract files (same generator as the model) are
   rendered to real files, read by the real get_splicers, and the result is
   validated against the reader machine by TLC.
3. Emitter conformance: every push/pop/top/create call of real runs (with
   user splicers supplied) is validated step by step against the emitter
   machine (path tracking and force > user > default).
4. Whole-run round trips: bodies supplied for every block a library emits
   (file, splicer_code, on-declaration; and mixed), read back from the
   generated files; regeneration from the generated files is byte-identical.
"""
import concurrent.futures as cf
import copy
import itertools
import json
import os
import random
import sys

sys.path.insert(0, os.path.dirname(os.path.dirname(os.path.abspath(__file__))))
import common  # noqa: E402
from common import Check, enc, model_check, validate_traces, MachineryError  # noqa: E402
import corpus  # noqa: E402
import shroudrun  # noqa: E402

LANG_OF_CLS = {"Wrapc": "c", "Wrapf": "f", "Wrapp": "py", "Wrapl": "lua"}


# ---------------------------------------------------------------------------
# reader conformance

def line_kinds():
    ks = [("text", (), 1)]
    for kk in ("begin", "end"):
        for t in (("a",), ("a", "b")):
            for c in (0, 3):
                ks.append((kk, t, c))
    return ks


def render(rec, rng):
    k, tag, col, lid = rec["k"], rec["tag"], rec["col"], rec["id"]
    if k == "text":
        return "%stext%d%s" % (" " * rng.choice([0, 0, 2, 7]), lid, " " * rng.choice([0, 0, 3]))
    word = "splicer begin" if k == "begin" else "splicer end"
    lead = "" if col == 0 else rng.choice(["// ", "! ", "# ", "-- ", "   // ", "/* "])
    trail = rng.choice(["", "", " ", "  extra words", " */"])
    return "%s%s %s%s" % (lead, word, ".".join(tag), trail)


def reader_trace(recs, rng, d):
    from shroud import splicer

    text = [render(r, rng) for r in recs]
    by_text = {}
    for r, t in zip(recs, text):
        by_text[t.strip()] = r["id"]
    fn = os.path.join(d, "in.c")
    with open(fn, "w") as f:
        f.write("\n".join(text) + ("\n" if text else ""))
    out = {}
    err = ""
    try:
        splicer.get_splicers(fn, out)
    except RuntimeError:
        err = "RuntimeError"
    except Exception as ex:
        err = type(ex).__name__
    store = []

    def walk(dct, prefix):
        for k, v in dct.items():
            if isinstance(v, dict):
                walk(v, prefix + [k])
            else:
                store.append({"p": prefix + [k], "b": [by_text.get(l.strip(), -1) for l in v]})

    if not err:
        walk(out, [])
    store = [s for s in store]
    return {"kind": "reader", "lines": recs, "err": err, "store": store, "text": text}


def reader_inputs(maxlines, rng, extra):
    ks = line_kinds()
    for n in range(0, maxlines + 1):
        for combo in itertools.product(ks, repeat=n):
            yield [{"k": k, "tag": list(t), "col": c, "id": i + 1} for i, (k, t, c) in enumerate(combo)]
    for _ in range(extra):
        n = rng.randint(5, 14)
        recs = []
        for i in range(n):
            k, t, c = rng.choice(ks + [("text", (), 1)] * 6)
            recs.append({"k": k, "tag": list(t), "col": c, "id": i + 1})
        yield recs
    # well-formed longer files: several blocks with outside text
    for _ in range(extra):
        recs = []
        tags = [("a",), ("b", "c"), ("b", "d"), ("e", "f", "g")]
        rng.shuffle(tags)
        i = 0
        for t in tags[:rng.randint(1, 4)]:
            for _o in range(rng.randint(0, 2)):
                i += 1
                recs.append({"k": "text", "tag": [], "col": 1, "id": i})
            i += 1
            recs.append({"k": "begin", "tag": list(t), "col": 3, "id": i})
            for _b in range(rng.randint(0, 4)):
                i += 1
                recs.append({"k": "text", "tag": [], "col": 1, "id": i})
            i += 1
            recs.append({"k": "end", "tag": list(t), "col": 3, "id": i})
        yield recs


# ---------------------------------------------------------------------------
# whole runs

def load_yaml(path):
    import yaml

    with open(path) as f:
        return yaml.safe_load(f)


def dump_yaml(d, path):
    import yaml

    with open(path, "w") as f:
        yaml.safe_dump(d, f, default_flow_style=False, sort_keys=False)


def run_lib(yaml_path, outdir, cmdline, trace):
    os.makedirs(outdir, exist_ok=True)
    argv = ["--path", corpus.INPUT, "--path", os.path.dirname(yaml_path), "--logdir", outdir, "--outdir", outdir,
            "--nowrite-version"] + list(cmdline) + [yaml_path]
    rc, so, se = shroudrun.run(argv, probes=["splicer"], trace=trace)
    return rc, so, se


def emit_traces(events):
    """Group sp_* events by wrapper instance into 'emit' traces; intern lines."""
    inst = {}
    order = []
    for e in events:
        if e["e"] == "sp_init":
            inst[e["inst"]] = {"kind": "emit", "cls": e["cls"], "user": e["user"], "ops": []}
            order.append(e["inst"])
        elif e["e"] == "sp_op" and e["inst"] in inst:
            inst[e["inst"]]["ops"].append(e)
    out = []
    for k in order:
        t = inst[k]
        ids = {}

        def iid(s):
            return ids.setdefault(s, len(ids) + 1)

        user = [{"p": u["p"], "b": [iid(x) for x in u["b"]]} for u in t["user"]]
        ops = []
        for o in t["ops"]:
            if o["op"] == "create":
                if not o["show"]:
                    # without markers the emitted span is still out[n0:], path from the stack
                    path = o["stack_path"].split(".")
                else:
                    path = (o["path"] or "?").split(".")
                ops.append({"op": "create", "n": o["n"],
                            "def": {"has": o["def"]["has"], "b": [iid(x) for x in o["def"]["b"]]},
                            "force": {"has": o["force"]["has"], "b": [iid(x) for x in o["force"]["b"]]},
                            "path": path, "body": [iid(x) for x in o["body"]], "added": o["added"]})
            else:
                ops.append({"op": o["op"], "n": o["n"]})
        out.append({"kind": "emit", "cls": t["cls"], "user": user, "ops": ops})
    return out


def created_blocks(events):
    """(lang, dotted path) -> default body, for every create call with markers."""
    inst_cls = {}
    blocks = {}
    for e in events:
        if e["e"] == "sp_init":
            inst_cls[e["inst"]] = e["cls"]
        elif e["e"] == "sp_op" and e["op"] == "create" and e["show"] and e["path"]:
            lang = LANG_OF_CLS.get(inst_cls.get(e["inst"], ""), "?")
            blocks.setdefault((lang, e["path"]), e)
    return blocks


def files_by_lang(events):
    res = {}
    for e in events:
        if e["e"] == "write_file":
            lang = LANG_OF_CLS.get(e["cls"])
            if lang:
                res.setdefault(lang, []).append(os.path.join(e["dir"], e["fname"]))
    return res


COMMENT = {"c": "//", "f": "!", "py": "//", "lua": "//"}


def user_body(lang, path, variant, k):
    c = COMMENT[lang]
    base = ["%s USER %s %s line1" % (c, lang, path),
            "      user_%d = 1 %s second line, indented" % (k, c),
            "",
            "user_call(%d)   " % k]
    if variant == "empty":
        # a user may replace a generated body by nothing at all (every other block, so that both kinds meet)
        return [] if k % 2 == 0 else base
    if variant == "tab":
        base[1] = "  int\tuser_%d; %s interior tab" % (k, c)
    elif variant == "trailplus":
        base[1] = "  user_%d = user_%d +" % (k, k)
        base.append("      1 %s continued expression" % c)
    elif variant == "trailminus":
        base[1] = "  user_%d = user_%d -" % (k, k)
        base.append("      1 %s continued expression" % c)
    return base


def write_splicer_file(path, lang, bodies):
    c = COMMENT[lang]
    with open(path, "w") as f:
        f.write("%s text outside any block is ignored\n" % c)
        for p, b in bodies:
            f.write("%s splicer begin %s\n" % (c, p))
            for l in b:
                f.write(l + "\n")
            f.write("%s splicer end %s\n" % (c, p))
            f.write("stray text between blocks\n")


def nest(store, dotted, body):
    parts = dotted.split(".")
    d = store
    for p in parts[:-1]:
        d = d.setdefault(p, {})
    d[parts[-1]] = body


def readback(files):
    """Read generated files with the real reader; returns {lang: {dotted: lines}} """
    from shroud import splicer

    res = {}
    errs = []
    for lang, fl in files.items():
        for fn in fl:
            out = {}
            try:
                splicer.get_splicers(fn, out)
            except Exception as ex:
                errs.append("%s: %s: %s" % (fn, type(ex).__name__, ex))
                continue

            def walk(d, prefix):
                for k, v in d.items():
                    if isinstance(v, dict):
                        walk(v, prefix + [k])
                    else:
                        res.setdefault(lang, {}).setdefault(".".join(prefix + [k]), []).append(v)

            walk(out, [])
    return res, errs


def block_traces(name, sup, rbl, forced=()):
    """One 'roundtrip' trace per supplied block (verdict and key per block)."""
    out = []
    for s_ in sup:
        mine = [r for r in rbl if r["lang"] == s_["lang"] and r["p"] == s_["p"]]
        out.append({"kind": "roundtrip", "name": name, "block": "%s:%s" % (s_["lang"], ".".join(s_["p"])),
                    "forced": (s_["lang"], ".".join(s_["p"])) in forced,
                    "supplied": [s_], "readback": mine})
    return out


def forced_blocks(events):
    """Blocks whose body the generator itself forces (accessor functions)."""
    inst_cls = {}
    res = set()
    for e in events:
        if e["e"] == "sp_init":
            inst_cls[e["inst"]] = e["cls"]
        elif e["e"] == "sp_op" and e["op"] == "create" and e["force"]["has"] and e["path"]:
            res.add((LANG_OF_CLS.get(inst_cls.get(e["inst"], ""), "?"), e["path"]))
    return res


def roundtrip(c, name, yaml_path, cmdline, base, variant, how, rng):
    """One experiment on one library.  Returns list of TLA traces, and does the
    byte-identity regeneration check for variant 'plain'/how 'file'."""
    traces = []
    d0 = os.path.join(base, "%s-%s-%s-0" % (name, variant, how))
    tf0 = d0 + ".ndjson"
    rc, so, se = run_lib(yaml_path, d0, cmdline, tf0)
    if rc != 0:
        raise MachineryError("baseline run of %s failed: %s" % (name, se[-1500:]))
    ev0 = shroudrun.read_events(tf0)
    traces += emit_traces(ev0)
    # the blocks a user can see: names between markers in the generated files
    rb0, errs0 = readback(files_by_lang(ev0))
    for e in errs0:
        c.violation("readback:%s:baseline" % name, "generated file cannot be read back as splicer file: " + e)
    keys = sorted((lang, p) for lang, dd in rb0.items() for p in dd)
    y = load_yaml(yaml_path)
    y.pop("splicer", None)
    y.pop("splicer_code", None)

    # a declaration's own `splicer:` entry is input too and, by design, takes the place of anything supplied for
    # that block from outside (checked separately by decl_precedence_traces): removed here, so that every block
    # the experiment supplies is one a user can supply
    def strip(nodes):
        for n in nodes or []:
            if isinstance(n, dict):
                n.pop("splicer", None)
                strip(n.get("declarations"))
    strip(y.get("declarations"))
    supplied = []
    files = {}
    code = {}
    pick = keys if how == "file" else [k for k in keys if rng.random() < 0.5]
    for i, (lang, path) in enumerate(pick):
        body = user_body(lang, path, variant, i)
        supplied.append({"lang": lang, "p": path.split("."), "b": body})
        if how == "file" or (how == "mixed" and i % 2 == 0):
            files.setdefault(lang, []).append((path, body))
        else:
            nest(code.setdefault(lang, {}), path, body)
    ydir = os.path.join(base, "%s-%s-%s-in" % (name, variant, how))
    os.makedirs(ydir, exist_ok=True)
    if files:
        y["splicer"] = {}
        for lang, bl in files.items():
            fn = "user_%s.%s" % (lang, {"c": "c", "f": "f", "py": "c", "lua": "c"}[lang])
            write_splicer_file(os.path.join(ydir, fn), lang, bl)
            y["splicer"][lang] = [fn]
    if code:
        y["splicer_code"] = code
    y1 = os.path.join(ydir, os.path.basename(yaml_path))
    dump_yaml(y, y1)
    d1 = os.path.join(base, "%s-%s-%s-1" % (name, variant, how))
    tf1 = d1 + ".ndjson"
    rc, so, se = run_lib(y1, d1, cmdline, tf1)
    if rc != 0:
        c.violation("run-fails:%s:%s:%s" % (name, variant, how),
                    "Shroud fails when user splicers are supplied: " + se[-600:], {"yaml": y})
        return traces
    ev1 = shroudrun.read_events(tf1)
    traces += emit_traces(ev1)
    fl = files_by_lang(ev1)
    rb, errs = readback(fl)
    for e in errs:
        c.violation("readback:%s:%s" % (name, variant), "generated file cannot be read back as splicer file: " + e)
    sup = supplied
    rbl = []
    for lang, dd in rb.items():
        for p, bodies in dd.items():
            for b in bodies:
                rbl.append({"lang": lang, "p": p.split("."), "b": [enc(x) for x in b]})
    traces += block_traces("%s:%s:%s" % (name, variant, how),
                           [{"lang": s["lang"], "p": s["p"], "b": [enc(x) for x in s["b"]]} for s in sup],
                           rbl, forced_blocks(ev0))
    # regeneration from the generated files themselves
    if variant == "plain" and how == "file":
        y2 = copy.deepcopy(y)
        y2.pop("splicer_code", None)
        y2["splicer"] = {lang: [os.path.abspath(f) for f in fs] for lang, fs in fl.items()}
        y2p = os.path.join(ydir, "regen_" + os.path.basename(yaml_path))
        dump_yaml(y2, y2p)
        # same outdir string (setup.py embeds it): move run 1 aside
        keep = d1 + ".keep"
        os.rename(d1, keep)
        y2["splicer"] = {lang: [os.path.join(keep, os.path.basename(f)) for f in fs] for lang, fs in fl.items()}
        dump_yaml(y2, y2p)
        rc, so, se = run_lib(y2p, d1, cmdline, d1 + ".2.ndjson")
        if rc != 0:
            c.violation("regen-fails:" + name, "regeneration from generated files fails: " + se[-600:])
        else:
            ev2 = shroudrun.read_events(d1 + ".2.ndjson")
            rb2, errs2 = readback(files_by_lang(ev2))
            rb1k = {}
            for lang, fs in fl.items():
                r1, _e = readback({lang: [os.path.join(keep, os.path.basename(f)) for f in fs]})
                rb1k.update(r1)
            sup2, rbl2 = [], []
            for lang, dd in rb1k.items():
                for p, bodies in dd.items():
                    sup2.append({"lang": lang, "p": p.split("."), "b": [enc(x) for x in bodies[0]]})
            for lang, dd in rb2.items():
                for p, bodies in dd.items():
                    for b in bodies:
                        rbl2.append({"lang": lang, "p": p.split("."), "b": [enc(x) for x in b]})
            traces += block_traces("%s:regen:file" % name, sup2, rbl2)
            # outside the blocks the files must agree too (up to indentation / trailing blanks)
            a, b = shroudrun.read_tree(keep), shroudrun.read_tree(d1)
            skip = lambda k: k.endswith(".log") or k.endswith(".json")  # noqa: E731
            norm = lambda x: [l.strip() for l in x.decode("utf-8", "replace").split("\n")]  # noqa: E731
            diff = sorted(k for k in set(a) | set(b) if not skip(k) and
                          (k not in a or k not in b or norm(a[k]) != norm(b[k])))
            c.count(1, ["regen:" + name])
            if diff:
                c.violation("regen-differs:" + name,
                            "feeding generated files back as splicer files changes %s" % diff[:5], {"files": diff})
    return traces


# ---------------------------------------------------------------------------

LIBS_QUICK = [("tutorial", "tutorial.yaml", []), ("classes", "classes.yaml", []),
              ("clibrary", "clibrary.yaml", []),
              # namespaces nested in namespaces, not flattened: module-level blocks of the outer and the inner module
              ("names", "names.yaml", []), ("namespace", "namespace.yaml", [])]


def run(tier):
    with Check("C12", tier) as c:
        rng = random.Random(common.seed())
        thorough = tier == "thorough"
        common.import_shroud()
        c.assumptions += [
            "markers in splicer files do not start in column 0 and a block name is not repeated in one file "
            "(decided in TLA+: WellFormed)",
            "user body lines do not begin with a formatting metacharacter (# @ ^ + -)",
            "harness maps text lines to ids by exact (stripped) lookup only",
        ]
        for cfg, acts in (("MC_Splicer_reader", ("Read",)),
                          ("MC_Splicer_roundtrip" + ("_thorough" if thorough else ""),
                           ("Emit", "StartRead", "Read", "StartReemit", "Reemit", "Finish"))):
            r, bad = model_check("MC_Splicer", cfg, require_actions=acts, timeout=3000)
            c.add_tlc(r, cfg)
            if bad:
                c.violation("model:%s:%s" % (cfg, bad), "design-level invariant %s violated" % bad,
                            {"tlc_tail": r.out[-5000:]})
        traces = []
        # reader conformance
        with common.scratch("c12r-") as d:
            for recs in reader_inputs(4 if thorough else 3, rng, 3000 if thorough else 400):
                traces.append(reader_trace(recs, rng, d))
        n_reader = len(traces)
        # whole runs
        libs = list(LIBS_QUICK)
        if thorough:
            seen = set(n for n, _y, _c in libs)
            for t in corpus.tests():
                if t.name not in seen and t.name not in ("none",):
                    libs.append((t.name, t.yaml, t.cmdline))
        jobs = []
        for (name, y, cmd) in libs:
            jobs.append((name, y, cmd, "plain", "file"))
            jobs.append((name, y, cmd, "plain", "code"))
            jobs.append((name, y, cmd, "plain", "mixed"))
        for (name, y, cmd) in libs[:3]:
            for variant in ("tab", "trailplus", "trailminus"):
                jobs.append((name, y, cmd, variant, "file"))
            jobs.append((name, y, cmd, "empty", "file"))
            jobs.append((name, y, cmd, "empty", "code"))
        with common.scratch("c12-") as base:
            def one(j):
                name, y, cmd, variant, how = j
                jr = random.Random("%s/%s/%s/%s" % (common.seed(), name, variant, how))
                return j, roundtrip(c, name, os.path.join(corpus.INPUT, y), cmd, base, variant, how, jr)
            with cf.ThreadPoolExecutor(common.NCPU) as ex:
                results = list(ex.map(one, jobs))
        meta = []
        for j, trs in results:
            for t in trs:
                traces.append(t)
                meta.append(j)
        # on-declaration precedence (docs: "takes priority over other ways")
        traces += decl_precedence_traces(c)
        # negative controls
        controls = []
        for t in reversed(traces[:n_reader]):
            if t["store"] and t["store"][0]["b"] and len(controls) < 5:
                k = copy.deepcopy(t)
                k["store"][0]["b"] = k["store"][0]["b"][:-1]
                controls.append(k)
        for t in traces[n_reader:]:
            if t["kind"] == "emit" and len(controls) < 10:
                for i, o in enumerate(t["ops"]):
                    if o["op"] == "create" and o["body"]:
                        k = copy.deepcopy(t)
                        k["ops"][i]["body"] = k["ops"][i]["body"] + [999999]
                        controls.append(k)
                        break
            if t["kind"] == "roundtrip" and t["supplied"] and len(controls) < 15:
                k = copy.deepcopy(t)
                k["supplied"][0]["b"][0] = k["supplied"][0]["b"][0] + [33]
                controls.append(k)
        alltr = [{k: v for k, v in t.items() if k not in ("text", "cls", "name", "block", "forced")}
                 for t in traces + controls]
        verdicts, st = validate_traces("Trace_Splicer", "Trace_Splicer", alltr, shard=1500)
        c.add_stats(st, "trace_validation", len(traces))
        kinds = {}
        for i, t in enumerate(traces):
            v, detail = verdicts[i]
            kinds[t["kind"] + ":" + v] = kinds.get(t["kind"] + ":" + v, 0) + 1
            if v == "REJECT":
                if t["kind"] == "reader":
                    c.violation("reader:" + json.dumps(t["text"])[:150], "get_splicers: " + detail,
                                {"file_lines": t["text"], "observed": t["store"], "err": t["err"]})
                elif t["kind"] == "emit":
                    c.violation("emit:%s:%s" % (t.get("cls"), detail[:80]), "_create_splicer: " + detail, t)
                else:
                    nm = t.get("name", "?")
                    lib, variant, how = nm.split(":")
                    if t.get("forced"):
                        # the generator forces the body of accessor functions it creates itself
                        key = "generator-forced-block:" + t["block"].split(":")[0]
                    elif variant in ("tab", "trailplus", "trailminus"):
                        key = "body-line:" + variant
                    else:
                        key = "block:%s:%s:%s:%s" % (lib, variant, how, t["block"])
                    c.violation(key, "%s block %s: %s" % (nm, t["block"], detail),
                                {"experiment": nm, "block": t["block"], "detail": detail})
            else:
                c.count(1, [t["kind"] + str(i)] if v == "ACCEPT" else ())
        for i, k in enumerate(controls):
            v, detail = verdicts[len(traces) + i]
            if v != "REJECT":
                raise MachineryError("negative control %d (%s) not rejected: %s %s" % (i, k["kind"], v, detail))
        c.part("conformance", reader_traces=n_reader, verdicts=kinds, libraries=len(libs), experiments=len(jobs),
               negative_controls_rejected=len(controls))
        c.cov["rule"] = ("reader: every file of <= %d abstract lines + random longer files; emitter: every "
                         "push/pop/top/create call of the experiment runs; round trips: bodies for every block "
                         "a library emits supplied by file / splicer_code / mixed. non-trivial = accepted trace"
                         % (4 if thorough else 3))
        for t in (traces[50:51] + [t for t in traces if t["kind"] == "roundtrip"][:1]):
            s = {k: v for k, v in t.items() if k in ("kind", "text", "err", "store", "name")}
            if t["kind"] == "roundtrip":
                s["block"] = t.get("block")
            c.sample(s)
        c.finish()


def decl_precedence_traces(c):
    """A block supplied both on the declaration and in a splicer file: the
    on-declaration code must win (it reaches _create_splicer as force)."""
    traces = []
    # C++, a C library (a function over native values needs no C wrapper of its own: the code given on the
    # declaration is the reason to write one), and C++ with C_extern_C
    for variant, extra, opts in (("cxx", {}, {}), ("c", {"language": "c"}, {}), ("extern-c", {}, {"C_extern_C": True})):
      with common.scratch("c12d-") as base:
          y = {"library": "decl", "cxx_header": "decl.hpp", "options": dict({"wrap_python": True}, **opts),
               "declarations": [
                   {"decl": "int foo(int a)",
                    "splicer": {"c": ["// ONDECL c", "return 1;"], "f": ["! ONDECL f", "SHT_rv = 1"],
                                "py": ["// ONDECL py"]}},
                   {"decl": "int bar(int a)"}],
               "splicer": {"c": ["u.c"], "f": ["u.f"]}}
          y.update(extra)
          with open(os.path.join(base, "u.c"), "w") as f:
              f.write("// splicer begin function.foo\n// FROMFILE foo\n// splicer end function.foo\n"
                      "// splicer begin function.bar\n// FROMFILE bar\n// splicer end function.bar\n")
          with open(os.path.join(base, "u.f"), "w") as f:
              f.write("! splicer begin function.foo\n! FROMFILE foo\n! splicer end function.foo\n"
                      "! splicer begin function.bar\n! FROMFILE bar\n! splicer end function.bar\n")
          yp = os.path.join(base, "decl.yaml")
          dump_yaml(y, yp)
          out = os.path.join(base, "o")
          rc, so, se = run_lib(yp, out, [], out + ".ndjson")
          if rc != 0:
              c.violation("decl-run-fails:" + variant, "run with on-declaration splicers fails: " + se[-500:])
              continue
          ev = shroudrun.read_events(out + ".ndjson")
          traces += emit_traces(ev)
          rb, errs = readback(files_by_lang(ev))
          sup = [{"lang": "c", "p": ["function", "foo"], "b": ["// ONDECL c", "return 1;"]},
                 {"lang": "f", "p": ["function", "foo"], "b": ["! ONDECL f", "SHT_rv = 1"]},
                 {"lang": "c", "p": ["function", "bar"], "b": ["// FROMFILE bar"]},
                 {"lang": "f", "p": ["function", "bar"], "b": ["! FROMFILE bar"]}]
          # code given on the declaration must arrive; code from a file for a block that this configuration does
          # not write (no wrapper needed) has nowhere to go
          sup = [s for s in sup if s["b"][0].startswith(("// ONDECL", "! ONDECL")) or ".".join(s["p"]) in rb.get(s["lang"], {})]
          if len(sup) < 2:
              raise MachineryError("decl precedence experiment lost its blocks: %r" % sup)
          rbl = []
          for lang, dd in rb.items():
              for p, bodies in dd.items():
                  for b in bodies:
                      rbl.append({"lang": lang, "p": p.split("."), "b": [enc(x) for x in b]})
          traces += block_traces("decl:precedence:" + variant,
                                 [{"lang": s["lang"], "p": s["p"], "b": [enc(x) for x in s["b"]]} for s in sup], rbl)
    return traces


if __name__ == "__main__":
    run(common.tier_from_argv())
