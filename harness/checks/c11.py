"""C11 -- enumeration constants keep their C++ values in C and Fortran.

1. TLC model-checks EnumValues: Shroud's token-level derivation (Derive) gives
   every member the value a C++ compiler assigns (CKeepsValues, FKeepsValues,
   PrefixKeepsValues) on every enumeration below the bound.
2. Conformance: the same enumerations (plus random deeper ones) are declared
   through the real ast.EnumNode and emitted by the real wrapc/wrapf
   wrap_enum; the emitted value text, tokenised, is evaluated by TLC
   (Trace_EnumValues) under C / Fortran rules and compared with the C++
   meaning of the original declaration.
3. A batch is compiled three ways (g++ original, gcc generated enums,
   gfortran generated parameters); g++'s values are fed into the traces so the
   TLA+ evaluator itself is tied to a real compiler, and gcc/gfortran outputs
   must agree with g++.
"""
import io
import itertools
import json
import os
import random
import re
import subprocess
import sys

sys.path.insert(0, os.path.dirname(os.path.dirname(os.path.abspath(__file__))))
import common  # noqa: E402
from common import Check, model_check, validate_traces, MachineryError  # noqa: E402

OPS = ["+", "-", "*", "/"]


def lit(n):
    return {"op": "lit", "v": n}


def ref(i):
    return {"op": "ref", "v": i}


def un(o, a):
    return {"op": o, "a": a}


def bn(o, a, b):
    return {"op": o, "a": a, "b": b}


def atoms(n, lits):
    return [lit(l) for l in lits] + [ref(i) for i in range(1, n)]


def e1(n, lits):
    A = atoms(n, lits)
    out = list(A)
    out += [un(o, a) for o in ("neg", "pos") for a in A]
    out += [bn(o, a, b) for o in OPS for a in A for b in A]
    out += [un("paren", a) for a in A]
    return out


def starts_with_sign(e):
    if e["op"] in ("neg", "pos"):
        return True
    if e["op"] in ("+", "-", "*", "/"):
        return starts_with_sign(e["a"])
    return False


def rand_expr(rng, n, depth):
    A = atoms(n, [0, 1, 2, 3, 5, 7, 10, 100])
    if depth == 0 or rng.random() < 0.25:
        return rng.choice(A)
    r = rng.random()
    if r < 0.2:
        inner = rand_expr(rng, n, depth - 1)
        # "--x" lexes as decrement; a sign binds tighter than a binary operator: parenthesise
        if inner["op"] not in ("lit", "ref", "paren"):
            inner = un("paren", inner)
        return un(rng.choice(["neg", "pos"]), inner)
    if r < 0.4:
        return un("paren", rand_expr(rng, n, depth - 1))
    a = rand_expr(rng, n, depth - 1)
    b = rand_expr(rng, n, depth - 1)
    o = rng.choice(OPS)
    # the tree must be the parse of its own text: parenthesise operands that would re-associate
    prec = {"+": 1, "-": 1, "*": 2, "/": 2}
    if a["op"] in prec and prec[a["op"]] < prec[o]:
        a = un("paren", a)
    if b["op"] in prec and prec[b["op"]] <= prec[o]:
        b = un("paren", b)
    if starts_with_sign(b):
        b = un("paren", b)       # "a - -b" is legal C++ but not standard Fortran: outside the documented grammar
                                 # (also when the sign is the first token of a product: "a + +5*2" would lex as "++")
    return bn(o, a, b)


def text(e, names, rng=None):
    sp = (lambda: rng.choice(["", "", " "])) if rng else (lambda: "")
    o = e["op"]
    if o == "lit":
        return str(e["v"])
    if o == "ref":
        return names[e["v"] - 1]
    if o == "neg":
        return "-" + text(e["a"], names, rng)
    if o == "pos":
        return "+" + text(e["a"], names, rng)
    if o == "paren":
        return "(" + sp() + text(e["a"], names, rng) + sp() + ")"
    return text(e["a"], names, rng) + sp() + o + sp() + text(e["b"], names, rng)


TOK = re.compile(r"\s*(\d+|[A-Za-z_]\w*|[-+*/()]|\S)")


def tokenize(s, idx):
    out = []
    for m in TOK.finditer(str(s)):
        t = m.group(1)
        if t.isdigit():
            out.append({"t": "num", "v": int(t)})
        elif t in "+-*/()":
            out.append({"t": "op", "v": t})
        elif re.match(r"[A-Za-z_]", t):
            out.append({"t": "id", "v": idx.get(t.lower(), 0)})
        else:
            out.append({"t": "bad", "v": 0})
    return out


class Emit(object):
    """Real EnumNode + real wrap_enum of the C and Fortran emitters."""

    def __init__(self):
        common.import_shroud()
        from shroud import ast, typemap, wrapc, wrapf, main

        self.ast, self.typemap, self.wrapc, self.wrapf, self.main = ast, typemap, wrapc, wrapf, main
        self.n = 0
        self.fresh()

    def fresh(self):
        self.typemap.initialize()
        self.lib = self.ast.LibraryNode(library="enums")
        self.ns = self.lib.add_namespace("ns")
        self.cls = self.ns.add_class("Cls")
        cfg = self.main.Config()
        cfg.log = io.StringIO()
        self.wc = self.wrapc.Wrapc(self.lib, cfg, {})
        self.wf = self.wrapf.Wrapf(self.lib, cfg, {})

    def emit(self, members, kind, where, rng=None):
        """members: [{has, e}] ; returns trace dict (without cxx)."""
        self.n += 1
        if self.n % 2000 == 0:
            self.fresh()
        ename = "E%d" % self.n
        names = ["%sM%d" % (ename, j + 1) for j in range(len(members))]
        parts = []
        for nm, m in zip(names, members):
            parts.append(nm + (" = " + text(m["e"], names, rng) if m["has"] else ""))
        decl = "%s %s { %s }" % (kind, ename, ", ".join(parts))
        parent = {"lib": self.lib, "ns": self.ns, "cls": self.cls}[where]
        node = parent.add_declaration(decl)
        self.wc.enum_impl = []
        self.wc.wrap_enum(self.cls if where == "cls" else None, node)
        fi = self.wrapf.ModuleInfo(self.lib)
        self.wf.wrap_enum(self.cls if where == "cls" else None, node, fi)
        fm = node._fmtmembers
        cidx = {fm[nm].C_enum_member.lower(): j + 1 for j, nm in enumerate(names)}
        fidx = {fm[nm].F_enum_member.lower(): j + 1 for j, nm in enumerate(names)}
        cout, corder = [], []
        ctext = []
        for l in self.wc.enum_impl:
            l = str(l).strip()
            if not l or l.startswith("//") or l.startswith("enum ") or l.startswith("-}"):
                continue
            ctext.append(l)
            l = l.rstrip(",")
            if "=" in l:
                nm, val = l.split("=", 1)
                cout.append({"has": True, "ts": tokenize(val, cidx)})
            else:
                nm = l
                cout.append({"has": False, "ts": []})
            corder.append(cidx.get(nm.strip().lower(), 0))
        fout, forder, ftext = [], [], []
        for l in fi.enum_impl:
            l = str(l).strip()
            if "parameter ::" not in l:
                continue
            ftext.append(l)
            nm, val = l.split("::", 1)[1].split("=", 1)
            forder.append(fidx.get(nm.strip().lower(), 0))
            fout.append(tokenize(val, fidx))
        # the parser's own tree of every value expression, printed with every operation parenthesised
        def full(n_):
            k = type(n_).__name__
            if k == "BinaryOp":
                return "(" + full(n_.left) + " " + n_.op + " " + full(n_.right) + ")"
            if k == "UnaryOp":
                return "(" + n_.op + " " + full(n_.node) + ")"
            if k == "ParenExpr":
                return full(n_.node)
            if k == "Constant":
                return str(n_.value)
            if k == "Identifier":
                return n_.name
            raise MachineryError("unknown expression node " + k)
        nidx = {nm.lower(): j + 1 for j, nm in enumerate(names)}
        tree = []
        for j, mem in enumerate(node.ast.members):
            if mem.value is not None:
                tree.append(tokenize(full(mem.value), nidx))
            elif j == 0:
                tree.append(tokenize("0", nidx))
            else:
                tree.append(tokenize("(%s + 1)" % names[j - 1], nidx))
        return {"members": members, "cout": cout, "fout": fout, "corder": corder, "forder": forder, "tree": tree,
                "cxx": [], "decl": decl, "ctext": ctext, "ftext": ftext,
                "cenum": [str(x) for x in self.wc.enum_impl], "fparam": ftext, "names": names,
                "cnames": [fm[nm].C_enum_member for nm in names], "fnames": [fm[nm].F_enum_member for nm in names],
                "scope": [kind, where]}


def compile_batch(traces, d):
    """Three-way compile: fills t['cxx'] from g++ and returns list of
    (index, what) disagreements of gcc / gfortran with g++."""
    cpp = ["#include <cstdio>", "namespace ns { struct Cls {"]
    for t in traces:
        cpp.append(t["decl"] + ";")
    cpp.append("}; }\nint main(){")
    for i, t in enumerate(traces):
        scoped = t["scope"][0] != "enum"
        ename = t["decl"].split()[2 if scoped else 1]
        for nm in t["names"]:
            q = "ns::Cls::" + (ename + "::" if scoped else "") + nm
            cpp.append('printf("%d %s %%d\\n", (int)%s);' % (i, nm, q))
    cpp.append("return 0;}")
    c = ["#include <stdio.h>"]
    for t in traces:
        c += [l.replace("{+", "{").replace("-}", "}") for l in t["cenum"] if not l.startswith("//")]
    c.append("int main(void){")
    for i, t in enumerate(traces):
        for nm, cn in zip(t["names"], t["cnames"]):
            c.append('printf("%d %s %%d\\n", (int)%s);' % (i, nm, cn))
    c.append("return 0;}")
    f = ["program p", "use iso_c_binding", "implicit none"]
    for t in traces:
        f += t["fparam"]
    for i, t in enumerate(traces):
        for nm, fn in zip(t["names"], t["fnames"]):
            f.append("write(*,'(i0,1x,a,1x,i0)') %d, '%s', %s" % (i, nm, fn))
    f.append("end program p")
    res = {}
    for name, src, cmd in (("cxx", "o.cpp", ["g++", "-std=c++11", "-w", "-o", "o_cxx", "o.cpp"]),
                           ("c", "g.c", ["gcc", "-w", "-o", "o_c", "g.c"]),
                           ("f", "g.f90", ["gfortran", "-w", "-ffree-line-length-none", "-o", "o_f", "g.f90"])):
        with open(os.path.join(d, src), "w") as fp:
            fp.write("\n".join({"cxx": cpp, "c": c, "f": f}[name]) + "\n")
        p = subprocess.run(cmd, cwd=d, stdout=subprocess.PIPE, stderr=subprocess.STDOUT, text=True)
        if p.returncode != 0:
            res[name] = ("compile-error", p.stdout[:1500] + "\n...\n" + p.stdout[-400:])
            continue
        p = subprocess.run([os.path.join(d, "o_" + name)], cwd=d, stdout=subprocess.PIPE, text=True)
        vals = {}
        for line in p.stdout.split("\n"):
            w = line.split()
            if len(w) == 3:
                vals.setdefault(int(w[0]), {})[w[1]] = int(w[2])
        res[name] = ("ok", vals)
    return res


def fits32(members):
    """Every intermediate value of every member stays within 32 bits (TLC integers): the stated bound of the domain."""
    vals = []

    def walk(e):
        o = e["op"]
        if o == "lit":
            v = e["v"]
        elif o == "ref":
            v = vals[e["v"] - 1]
        elif o == "neg":
            v = -walk(e["a"])
        elif o in ("pos", "paren"):
            v = walk(e["a"])
        else:
            a, b = walk(e["a"]), walk(e["b"])
            if o == "+":
                v = a + b
            elif o == "-":
                v = a - b
            elif o == "*":
                v = a * b
            else:
                if b == 0:
                    v = 0            # undefined in C++: judged by the specification, magnitude irrelevant
                else:
                    q = abs(a) // abs(b)
                    v = q if (a < 0) == (b < 0) else -q
        if abs(v) >= 2 ** 31 - 1:
            raise OverflowError
        return v
    try:
        for m in members:
            vals.append(walk(m["e"]) if m["has"] else (vals[-1] + 1 if vals else 0))
            if abs(vals[-1]) >= 2 ** 31 - 1:
                return False
    except OverflowError:
        return False
    return True


def defined(members):
    """C++ meaning defined (no division by zero)?  Used only to keep undefined
    enums out of the *compiled* batch; the verdict is TLA+'s."""
    vals = []
    for m in members:
        if not m["has"]:
            vals.append(vals[-1] + 1 if vals else 0)
            continue
        try:
            vals.append(ev(m["e"], vals))
        except ZeroDivisionError:
            return False
    return all(abs(v) < 2 ** 31 for v in vals)


def ev(e, env):
    o = e["op"]
    if o == "lit":
        return e["v"]
    if o == "ref":
        return env[e["v"] - 1]
    if o == "neg":
        return -ev(e["a"], env)
    if o in ("pos", "paren"):
        return ev(e["a"], env)
    a, b = ev(e["a"], env), ev(e["b"], env)
    if o == "+":
        return a + b
    if o == "-":
        return a - b
    if o == "*":
        return a * b
    if b == 0:
        raise ZeroDivisionError
    q = abs(a) // abs(b)
    return q if (a < 0) == (b < 0) else -q


def run(tier):
    with Check("C11", tier) as c:
        rng = random.Random(common.seed())
        thorough = tier == "thorough"
        c.assumptions += ["expressions use + - * / parentheses, unary sign, decimal literals and earlier members; "
                          "a unary sign directly after a binary operator is written with parentheses",
                          "values fit in 32 bits (TLC integers)",
                          "the harness tokeniser (numbers, identifiers, operators) and the name->member lookup are trusted"]
        cfg = "MC_EnumValues_thorough" if thorough else "MC_EnumValues_quick"
        r, bad = model_check("MC_EnumValues", cfg, require_actions=("Derive",), timeout=3400)
        c.add_tlc(r, cfg)
        if bad:
            c.violation("model:" + bad, "design-level invariant %s violated" % bad, {"tlc_tail": r.out[-5000:]})
        em = Emit()
        kinds = ["enum", "enum class", "enum struct"]
        wheres = ["lib", "ns", "cls"]
        traces = []

        def add(members, rr=None):
            k = kinds[len(traces) % 3]
            w = wheres[(len(traces) // 3) % 3]
            try:
                traces.append(em.emit(members, k, w, rr))
            except Exception as ex:
                c.violation("raise:" + json.dumps(members)[:150],
                            "EnumNode/wrap_enum raised %s: %s" % (type(ex).__name__, ex), {"members": members})

        NONE = {"has": False, "e": lit(0)}
        # exhaustive: up to 2 members (quick) / 3 members (thorough) over depth-1 expressions
        lits = [2, 3]
        maxm = 3 if thorough else 2
        choices = {n: [NONE] + [{"has": True, "e": x} for x in e1(n, lits)] for n in range(1, maxm + 1)}
        for n in range(1, maxm + 1):
            for combo in itertools.product(*[choices[j] for j in range(1, n + 1)]):
                add(list(combo))
        n_exh = len(traces)
        # sampled: 3 members depth 1 (the model's own bound), then deeper / longer
        for _ in range(0 if thorough else 6000):
            add([rng.choice(choices_n(n, lits, NONE)) for n in range(1, 4)])
        for _ in range(60000 if thorough else 6000):
            n = rng.randint(2, 6)
            ms = []
            for j in range(1, n + 1):
                if rng.random() < 0.4:
                    ms.append(NONE)
                else:
                    ms.append({"has": True, "e": rand_expr(rng, j, rng.randint(0, 3))})
            add(ms, rng)
        # three-way compile on a batch of defined enums
        batch = [t for t in traces[n_exh:] if defined(t["members"])][:(1500 if thorough else 300)]
        with common.scratch("c11-") as d:
            res = compile_batch(batch, d)
        for name in ("cxx", "c", "f"):
            if res[name][0] != "ok":
                if name == "cxx":
                    raise MachineryError("g++ rejects the original enums: " + res[name][1])
                c.violation("compile:" + name, "generated %s enum text does not compile: %s" % (name, res[name][1]),
                            {"diag": res[name][1]})
        if res["cxx"][0] == "ok":
            for i, t in enumerate(batch):
                t["cxx"] = [res["cxx"][1].get(i, {}).get(nm) for nm in t["names"]]
                for side in ("c", "f"):
                    if res[side][0] == "ok":
                        got = [res[side][1].get(i, {}).get(nm) for nm in t["names"]]
                        if got != t["cxx"]:
                            c.violation("compiled:%s:%s" % (side, t["decl"][:100]),
                                        "compiled %s values %r differ from g++ %r" % (side, got, t["cxx"]),
                                        {"decl": t["decl"], "ctext": t["ctext"], "ftext": t["ftext"]})
        c.part("three_way_compile", enums=len(batch), status={k: v[0] for k, v in res.items()})
        # negative controls
        controls = []
        for t in traces:
            if len(controls) >= 12:
                break
            if len(t["fout"]) >= 2 and defined(t["members"]):
                k = json.loads(json.dumps(t))
                if len(controls) % 2 == 0:
                    k["fout"][-1] = k["fout"][-1] + [{"t": "op", "v": "+"}, {"t": "num", "v": 1}]
                else:
                    k["cout"][-1] = {"has": True, "ts": [{"t": "num", "v": 77777}]}
                controls.append(k)
        # values (intermediate ones included) beyond 32 bits are outside the stated domain (and TLC's integers)
        nbig = sum(1 for t in traces if not fits32(t["members"]))
        traces = [t for t in traces if fits32(t["members"])]
        controls = [t for t in controls if fits32(t["members"])]
        c.part("domain", excluded_beyond_32_bits=nbig)
        keep = ("members", "cout", "fout", "corder", "forder", "cxx", "tree")
        alltr = [{k: t[k] for k in keep} for t in traces + controls]
        verdicts, st = validate_traces("Trace_EnumValues", "Trace_EnumValues", alltr, shard=5000)
        c.add_stats(st, "trace_validation", len(traces))
        cnt = {}
        for i, t in enumerate(traces):
            v, detail = verdicts[i]
            cnt[v] = cnt.get(v, 0) + 1
            if v == "REJECT":
                c.violation("enum:" + t["decl"][:160], detail,
                            {"decl": t["decl"], "c": t["ctext"], "fortran": t["ftext"], "detail": detail})
            elif v == "BADTREE":
                raise MachineryError("harness generated a tree that is not the parse of its text: " + t["decl"])
            elif v == "ACCEPT":
                nt = any(m["has"] and m["e"]["op"] not in ("lit",) for m in t["members"])
                c.count(1, [t["decl"].split("{", 1)[1]] if nt else ())
            else:
                c.count(1)
        for i, k in enumerate(controls):
            v, detail = verdicts[len(traces) + i]
            if v != "REJECT":
                raise MachineryError("negative control %d not rejected: %s %s" % (i, v, detail))
        c.part("conformance", exhaustive_small=n_exh, total=len(traces), verdicts=cnt,
               with_gxx_values=len(batch), negative_controls_rejected=len(controls))
        c.cov["exhaustive"] = True
        c.cov["rule"] = ("all enums of <= %d members over depth-1 expressions (lits 2,3, refs) through the real "
                         "EnumNode/wrap_enum, plus random enums of 2..6 members, depth <= 3; plain/class/struct x "
                         "library/namespace/class scope round-robin. non-trivial = accepted enum with at least one "
                         "non-literal value expression, distinct by member text" % maxm)
        for t in traces[n_exh + 10:n_exh + 13]:
            c.sample({"decl": t["decl"], "c": t["ctext"], "fortran": t["ftext"]})
        c.finish()


_CH = {}


def choices_n(n, lits, NONE):
    if n not in _CH:
        _CH[n] = [NONE] + [{"has": True, "e": x} for x in e1(n, lits)]
    return _CH[n]


if __name__ == "__main__":
    run(common.tier_from_argv())
