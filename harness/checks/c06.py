"""C06 -- wrapped objects and returned memory are released exactly once, never early.

1. TLC model-checks Capsule: for every sequence of wrapper calls over three
   handles (construct, owned / borrowed pointer results, clone, method, handle
   copy, destructor wrapper, generic release, release again) no object is
   released twice, library-owned memory is never freed, borrowed handles carry
   no destructor index, owned handles do.
2. Conformance: a class library with ownership annotations is wrapped by the
   real Shroud; a C driver (interpreter over operation codes, built with
   AddressSanitizer) executes every call sequence up to a length bound over
   two handles; the instrumented library logs constructor / destructor events
   with object ids; each sequence is replayed by TLC (Trace_Capsule).
   A Fortran driver built with ASan/LSan exercises string and vector
   temporaries and allocatable results (leak / overflow reports are violations).
"""
import concurrent.futures as cf
import itertools
import json
import os
import subprocess
import sys

sys.path.insert(0, os.path.dirname(os.path.dirname(os.path.abspath(__file__))))
import common  # noqa: E402
from common import Check, model_check, validate_traces, MachineryError  # noqa: E402
import shroudrun  # noqa: E402

RT = os.path.join(os.path.dirname(os.path.dirname(os.path.abspath(__file__))), "rt")

YAML = """
library: own
cxx_header: own.hpp
options: {debug: true, wrap_python: false, wrap_lua: false, wrap_fortran: true}
declarations:
- decl: class Cls
  declarations:
  - decl: Cls(int v)
  - decl: ~Cls()
  - decl: int get() const
  - decl: Cls * clone() +owner(caller)
- decl: namespace inner
  declarations:
  - decl: Cls * spawn(int v) +owner(caller)
- decl: std::vector<int> iota(int n)
- decl: void maketable(int **tbl +intent(out)+owner(caller)+dimension(n), int n)
- decl: Cls * pooled(int v) +owner(caller)+free_pattern(pool_release)
- decl: Cls * make(int v) +owner(caller)
- decl: Cls * borrow() +owner(library)
- decl: const std::string getstr(int n)
- decl: void upper(std::string & s)
- decl: void fill(std::vector<int> & v +intent(out), int n)
- decl: int total(const std::vector<int> & v)
- decl: int * newints(int n) +owner(caller)+dimension(n)+deref(pointer)
- decl: const char * label(int k) +deref(allocatable)
- decl: char * dupname(int k) +owner(caller)
- decl: std::string * newstring(int k) +owner(caller)
patterns:
  pool_release: |
    Cls *cxx_ptr = reinterpret_cast<Cls *>(ptr);
    pool_put(cxx_ptr);
"""

HPP = """
#ifndef OWN_HPP
#define OWN_HPP
#include <string>
#include <vector>
class Cls { public: int value; explicit Cls(int v); ~Cls(); int get() const; Cls *clone(); };
namespace inner { Cls *spawn(int v); }
std::vector<int> iota(int n);
void maketable(int **tbl, int n);
Cls *pooled(int v);
void pool_put(Cls *p);
Cls *make(int v);
Cls *borrow();
const std::string getstr(int n);
void upper(std::string &s);
void fill(std::vector<int> &v, int n);
int total(const std::vector<int> &v);
int *newints(int n);
const char *label(int k);
char *dupname(int k);
std::string *newstring(int k);
#endif
"""

CPP = """
#include "own.hpp"
#include "vt.h"
#include <cstdlib>
Cls::Cls(int v) : value(v) { vt_live(1); vt_begin("Lib", "ctor"); vt_obj(this); vt_end(); }
Cls::~Cls() { vt_live(-1); vt_begin("Lib", "dtor"); vt_obj(this); vt_end(); }
int Cls::get() const { return value; }
Cls *Cls::clone() { return new Cls(value + 1); }
Cls *make(int v) { return new Cls(v); }
// a malloc'ed block handed to the caller; free() is wrapped at link time (-Wl,--wrap=free) to see its release
static void *tracked_[64]; static unsigned long ntracked_ = 0;      /* ring of the most recent blocks */
void maketable(int **tbl, int n) {
    int *p = (int *)malloc(sizeof(int) * (n > 0 ? n : 1));
    for (int i = 0; i < n; i++) p[i] = i;
    tracked_[ntracked_++ % 64] = p;
    vt_live(1); vt_begin("Lib", "ctor"); vt_obj(p); vt_end();
    *tbl = p;
}
extern "C" void __real_free(void *p);
extern "C" void __wrap_free(void *p) {
    for (int i = 0; i < 64; i++) if (tracked_[i] == p && p) {
        tracked_[i] = 0;
        vt_live(-1); vt_begin("Lib", "dtor"); vt_obj(p); vt_end();
        break;
    }
    __real_free(p);
}
namespace inner { Cls *spawn(int v) { return new Cls(v + 7); } }
Cls *pooled(int v) { return new Cls(v + 500); }
void pool_put(Cls *p) { vt_begin("Lib", "pool"); vt_obj(p); vt_end(); delete p; }
static Cls *the_static = 0;
Cls *borrow() { if (!the_static) the_static = new Cls(-1); return the_static; }
std::vector<int> iota(int n) { std::vector<int> v; for (int i = 0; i < n; i++) v.push_back(i + 1); return v; }
const std::string getstr(int n) { return std::string((size_t)n, 'g'); }
void upper(std::string &s) { for (size_t i = 0; i < s.size(); i++) if (s[i] >= 'a' && s[i] <= 'z') s[i] -= 32; }
void fill(std::vector<int> &v, int n) { v.clear(); for (int i = 0; i < n; i++) v.push_back(i * i); }
int total(const std::vector<int> &v) { int t = 0; for (size_t i = 0; i < v.size(); i++) t += v[i]; return t; }
int *newints(int n) { int *p = (int *)malloc(sizeof(int) * (n > 0 ? n : 1)); for (int i = 0; i < n; i++) p[i] = 10 + i; return p; }
char *dupname(int k) { char *p = (char *)malloc(8); p[0] = 'D'; p[1] = (char)('0' + k % 10); p[2] = 0; return p; }
std::string *newstring(int k) { return new std::string((size_t)(k % 7), 's'); }
const char *label(int k) { static char b[16]; b[0] = 'L'; b[1] = (char)('0' + k % 10); b[2] = 0; return b; }
"""

# operation codes of the interpreter:  op * 4 + h * 2 + g
CDRIVER = r"""
#include <stdio.h>
#include <string.h>
#include "vt.h"
#include "wrapown.h"
#include "wrapCls.h"
#include "typesown.h"
enum { CTOR, MAKE, BORROW, CLONE, METHOD, COPY, DTOR, RELEASE, POOLED, MAKEARR, NOPS };
static const char *opname[] = {"ctor", "make", "borrow", "clone", "method", "copy", "dtor", "release", "pooled", "makearr"};
static OWN_Cls H[2];
static int borrowed[2], alias_of[2], gone[2], inpool[2], isarr[2];
static void snap(const char *op, int h, int g) {
    int k;
    vt_begin("Op", op); vt_int(h); vt_int(g);
    for (k = 0; k < 2; k++) { vt_obj(H[k].addr); vt_int(H[k].idtor); }
    vt_end();
}
static int allowed(int op, int h, int g) {
    /* a correct caller: no call through an empty handle, never destroys library memory itself,
       releases a copied handle through one of the copies only */
    if ((op == CLONE) && (H[g].addr == NULL || gone[g] || isarr[g])) return 0;
    if ((op == METHOD || op == DTOR) && isarr[h]) return 0;      /* a block of ints is not an object */
    if ((op == METHOD || op == DTOR) && (H[h].addr == NULL || gone[h])) return 0;
    if (op == DTOR && (borrowed[h] || inpool[h])) return 0;
    if (op == COPY && (h == g)) return 0;
    if ((op == DTOR || op == RELEASE) && alias_of[h] >= 0 && gone[alias_of[h]]) return 0;
    /* a stale copy: the object it points to was destroyed through the other copy (which may have been reused since) */
    if ((op == DTOR || op == RELEASE) && gone[h] && H[h].addr != NULL) return 0;
    return 1;
}
static void apply(int op, int h, int g) {
    /* a handle that receives a new value is no longer the copy of anything */
    if (op == CTOR || op == MAKE || op == POOLED || op == BORROW || op == CLONE || op == COPY || op == MAKEARR) {
        int k; for (k = 0; k < 2; k++) if (k != h && alias_of[k] == h) alias_of[k] = -1;
    }
    switch (op) {
    case CTOR: OWN_Cls_ctor(7, &H[h]); isarr[h] = 0; borrowed[h] = 0; alias_of[h] = -1; gone[h] = 0; inpool[h] = 0; break;
    case MAKE: OWN_make(3, &H[h]); isarr[h] = 0; borrowed[h] = 0; alias_of[h] = -1; gone[h] = 0; inpool[h] = 0; break;
    case POOLED: OWN_pooled(4, &H[h]); borrowed[h] = 0; alias_of[h] = -1; gone[h] = 0; inpool[h] = 1; isarr[h] = 0; break;
    case MAKEARR: { OWN_SHROUD_array D; memset(&D, 0, sizeof D); OWN_maketable_bufferify(&D, 3);
                    H[h].addr = D.cxx.addr; H[h].idtor = D.cxx.idtor;
                    borrowed[h] = 0; alias_of[h] = -1; gone[h] = 0; inpool[h] = 0; isarr[h] = 1; break; }
    case BORROW: OWN_borrow(&H[h]); isarr[h] = 0; borrowed[h] = 1; alias_of[h] = -1; gone[h] = 0; inpool[h] = 0; break;
    case CLONE: { OWN_Cls tmp; OWN_Cls_clone(&H[g], &tmp); H[h] = tmp; isarr[h] = 0; borrowed[h] = 0; alias_of[h] = -1; gone[h] = 0; inpool[h] = 0; break; }
    case METHOD: (void)OWN_Cls_get(&H[h]); break;
    case COPY: H[h] = H[g]; isarr[h] = isarr[g]; borrowed[h] = borrowed[g]; inpool[h] = inpool[g]; alias_of[h] = g; alias_of[g] = h; gone[h] = gone[g]; break;
    case DTOR: OWN_Cls_dtor(&H[h]); gone[h] = 1; if (alias_of[h] >= 0) gone[alias_of[h]] = 1; break;
    case RELEASE: OWN_SHROUD_memory_destructor((OWN_SHROUD_capsule_data *)&H[h]);
                  if (!borrowed[h]) { gone[h] = 1; if (alias_of[h] >= 0) gone[alias_of[h]] = 1; } break;
    }
    snap(opname[op], h, g);
}
int main(void) {
    int L, MAXL = %(maxl)d, idx[8], k, nseq = 0;
    int NCODE = NOPS * 4;
    /* make the library-owned object known first: it gets object id 1 */
    { OWN_Cls t; OWN_borrow(&t); vt_begin("Static", "borrow"); vt_obj(t.addr); vt_end(); }
    for (L = 1; L <= MAXL; L++) {
        long total = 1, s;
        for (k = 0; k < L; k++) total *= NCODE;
        for (s = 0; s < total; s++) {
            long q = s; int ok = 1;
            for (k = 0; k < L; k++) { idx[k] = (int)(q %% NCODE); q /= NCODE; }
            /* canonical encodings only: g is used by clone and copy */
            for (k = 0; k < L; k++) { int op = idx[k] / 4, g = idx[k] %% 2; if (op != CLONE && op != COPY && g != 0) ok = 0; }
            if (!ok) continue;
            if (%(stride)d > 1 && L == MAXL && (s %% %(stride)d) != %(phase)d) continue;
            memset(H, 0, sizeof H); isarr[0] = isarr[1] = 0; borrowed[0] = borrowed[1] = 0; alias_of[0] = alias_of[1] = -1; gone[0] = gone[1] = 0; inpool[0] = inpool[1] = 0;
            vt_begin("SeqBegin", "seq"); vt_int(nseq); vt_int(vt_live(0)); vt_end();
            for (k = 0; k < L; k++) {
                int op = idx[k] / 4, h = (idx[k] / 2) %% 2, g = idx[k] %% 2;
                if (!allowed(op, h, g)) { ok = 0; break; }
                apply(op, h, g);
            }
            /* the caller lets go of everything it still holds */
            for (k = 0; k < 2; k++) if (allowed(RELEASE, k, 0)) apply(RELEASE, k, 0);
            vt_begin("SeqEnd", ok ? "complete" : "cut"); vt_int(nseq); vt_int(vt_live(0)); vt_end();
            nseq++;
        }
    }
    return 0;
}
"""

FDRIVER = """
program fdrv
  use iso_c_binding
  use own_mod
  implicit none
  integer :: n, k, t
  character(len=:), allocatable :: s
  character(len=8) :: u
  integer(C_INT), allocatable :: v(:)
  integer(C_INT) :: w(5)
  integer(C_INT), pointer :: p(:)
  type(cls) :: a, b
  do k = 1, 3
    do n = 0, 6
      s = getstr(n)
      if (len(s) /= n) stop 11
      u = 'abcdefgh'
      u(1:n) = repeat('x', n)
      call upper(u)
      if (allocated(v)) deallocate(v)
      allocate(v(max(n, 1)))
      call fill(v, n)
      w = [1, 2, 3, 4, 5]
      t = total(w(1:min(n, 5)))
      s = label(n)
      if (len(s) /= 2) stop 12
      s = dupname(n)
      if (len(s) /= 2) stop 14
      if (allocated(v)) deallocate(v)
      v = iota(n)
      if (size(v) /= n) stop 16
      s = newstring(n)
      if (len(s) /= n) stop 15
    end do
    a = cls(k)
    b = a%%clone()
    if (b%%get() /= k + 1) stop 13
    call a%%dtor()
    call b%%dtor()
  end do
  ! one object of each of the twelve further classes: each is released through its own destructor
  block
%(kdecl)s
%(kuse)s
  end block
  ! the driver's own allocatables (a main program does not free them at exit)
  if (allocated(v)) deallocate(v)
  if (allocated(s)) deallocate(s)
end program fdrv
"""


def sh(cmd, cwd, env=None):
    e = dict(os.environ)
    if env:
        e.update(env)
    p = subprocess.run(cmd, cwd=cwd, env=e, stdout=subprocess.PIPE, stderr=subprocess.STDOUT, text=True)
    return p.returncode, p.stdout


def build_lib(d):
    os.makedirs(d, exist_ok=True)
    open(os.path.join(d, "own.yaml"), "w").write(YAML)
    open(os.path.join(d, "own.hpp"), "w").write(HPP)
    open(os.path.join(d, "own.cpp"), "w").write(CPP)
    out = os.path.join(d, "gen")
    os.makedirs(out, exist_ok=True)
    rc, so, se = shroudrun.run(["--outdir", out, "--logdir", out, "--ffiles", os.path.join(d, "ffiles.txt"), os.path.join(d, "own.yaml")])
    if rc != 0:
        return None, "shroud: " + se[-600:]
    inc = ["-I", d, "-I", out, "-I", RT]
    objs = []
    for s in [os.path.join(d, "own.cpp")] + [os.path.join(out, f) for f in sorted(os.listdir(out)) if f.endswith(".cpp")]:
        o = s + ".o"
        rc, txt = sh(["g++", "-std=c++11", "-g", "-fsanitize=address", "-fno-omit-frame-pointer", "-c", s, "-o", o] + inc, d)
        if rc != 0:
            return None, "compile %s: %s" % (os.path.basename(s), txt[-1200:])
        objs.append(o)
    o = os.path.join(d, "vt.o")
    sh(["gcc", "-g", "-c", os.path.join(RT, "vt.c"), "-o", o] + inc, d)
    objs.append(o)
    return (objs, inc, out), ""


def run_c_driver(d, lib, maxl, stride, phase):
    objs, inc, out = lib
    src = os.path.join(d, "cdrv_%d.c" % phase)
    open(src, "w").write(CDRIVER % {"maxl": maxl, "stride": stride, "phase": phase})
    o = src + ".o"
    rc, txt = sh(["gcc", "-std=c99", "-g", "-fsanitize=address", "-c", src, "-o", o] + inc, d)
    if rc != 0:
        return None, "compile driver: " + txt[-1500:], ""
    exe = os.path.join(d, "cdrv_%d" % phase)
    rc, txt = sh(["g++", "-fsanitize=address", "-Wl,--wrap=free", "-o", exe, o] + objs, d)
    if rc != 0:
        return None, "link: " + txt[-1200:], ""
    tf = os.path.join(d, "trace_%d.ndjson" % phase)
    p = subprocess.run([exe], cwd=d, env=dict(os.environ, VT_TRACE=tf, ASAN_OPTIONS="detect_leaks=0"), stdout=subprocess.PIPE,
                       stderr=subprocess.PIPE, text=True, timeout=900)
    asan = ""
    if p.returncode != 0:
        lines = [l for l in p.stderr.split("\n") if "ERROR: AddressSanitizer" in l or "SUMMARY" in l]
        asan = " | ".join(lines)[:300] or ("driver exit %d" % p.returncode)
    ev = [json.loads(l) for l in open(tf)] if os.path.exists(tf) else []
    return ev, "", asan


def vals(e):
    return [x["v"] for x in e["vals"]]


def idtor_kinds(out):
    """index -> what the generated release function does for it (read from its switch)."""
    import re

    kinds = {0: "none"}
    for fn in os.listdir(out):
        if fn.startswith("wrap") and fn.endswith(".cpp"):
            txt = open(os.path.join(out, fn)).read()
            m = re.search(r"_SHROUD_memory_destructor\(.*?\n}\n", txt, re.S)
            if not m:
                continue
            for cm in re.finditer(r"case (\d+):(.*?)break;", m.group(0), re.S):
                body = re.sub(r"//[^\n]*", "", cm.group(2))
                k = "pool" if "pool_put" in body else ("delete" if ("delete" in body or "free(" in body) else "none")
                kinds[int(cm.group(1))] = k
    return kinds


def cut_sequences(events, asan, kinds):
    """-> traces for Trace_Capsule"""
    traces = []
    cur = None
    pending = []
    static_raw = 1
    for e in events:
        if e["ev"] == "Static":
            static_raw = vals(e)[0]
            continue
        if e["ev"] == "SeqBegin":
            cur = {"events": [], "live0": vals(e)[1], "n": vals(e)[0], "ids": {static_raw: 1}}
            pending = []
        elif cur is None:
            continue
        elif e["ev"] == "Lib":
            oid = vals(e)[0]
            pending.append({"ev": e["f"], "raw": oid})
        elif e["ev"] == "Op":
            v = vals(e)
            h, g = v[0], v[1]
            ids = cur["ids"]

            def rid(raw):
                if raw == 0:
                    return 0
                if raw not in ids:
                    cur["nid"] = cur.get("nid", 1) + 1
                    ids[raw] = cur["nid"]
                return ids[raw]
            lib = []
            for x in pending:
                if x["ev"] == "ctor":
                    # a new object may reuse the address of a released one: it is a new identity
                    cur["nid"] = cur.get("nid", 1) + 1
                    ids[x["raw"]] = cur["nid"]
                lib.append({"ev": x["ev"], "id": rid(x["raw"])})
            after = {"h1": {"addr": rid(v[2]), "idtor": kinds.get(v[3], "unknown:%s" % v[3])},
                     "h2": {"addr": rid(v[4]), "idtor": kinds.get(v[5], "unknown:%s" % v[5])}}
            cur["events"].append({"op": e["f"], "h": "h%d" % (h + 1), "g": "h%d" % (g + 1), "after": after, "lib": lib})
            pending = []
        elif e["ev"] == "SeqEnd":
            cur["live"] = vals(e)[1] - cur["live0"] + 1       # objects of this sequence still alive + the library's own
            if e["f"] == "complete":
                traces.append({"events": cur["events"], "live": cur["live"], "asan": "", "n": cur["n"]})
            cur = None
    if cur is not None and asan:
        traces.append({"events": cur["events"], "live": 0, "asan": asan, "n": cur["n"]})
    return traces


def fortran_part(c, d, lib):
    objs, inc, out = lib
    src = os.path.join(d, "fdrv.f90")
    open(src, "w").write(FDRIVER % {
        "kdecl": "\n".join("    type(k%02d) :: x%02d" % (k, k) for k in range(1, NKINDS + 1)),
        "kuse": "\n".join("    x%02d = k%02d(%d)" % (k, k, k) for k in range(1, NKINDS + 1)) + "\n" +
                "\n".join("    call x%02d%%dtor()" % k for k in range(NKINDS, 0, -1))})
    fobjs = []
    for s in open(os.path.join(d, "ffiles.txt")).read().split() + [src]:
        o = os.path.join(d, os.path.basename(s) + ".o")
        rc, txt = sh(["gfortran", "-cpp", "-ffree-form", "-ffree-line-length-none", "-g", "-fsanitize=address", "-J", d, "-c", s, "-o", o], d)
        if rc != 0:
            c.violation("fortran-compile:" + os.path.basename(s), "generated Fortran does not compile: " + txt[-800:])
            return 0
        fobjs.append(o)
    exe = os.path.join(d, "fdrv")
    rc, txt = sh(["gfortran", "-fsanitize=address", "-Wl,--wrap=free", "-o", exe] + fobjs + objs + ["-lstdc++"], d)
    if rc != 0:
        c.violation("fortran-link", "link fails: " + txt[-800:])
        return 0
    p = subprocess.run([exe], cwd=d, env=dict(os.environ, VT_TRACE=os.path.join(d, "ftrace.ndjson"),
                                              ASAN_OPTIONS="detect_leaks=1"), stdout=subprocess.PIPE, stderr=subprocess.PIPE,
                       text=True, timeout=300)
    if p.returncode != 0:
        lines = [l for l in p.stderr.split("\n") if "ERROR" in l or "SUMMARY" in l or "STOP" in l]
        what = " | ".join(lines)[:400] or p.stderr[-300:]
        key = "fortran-driver:leak" if "LeakSanitizer" in p.stderr else "fortran-driver:memory-error"
        detail = [l.strip() for l in p.stderr.split("\n") if l.strip().startswith("#") and "own" in l.lower()][:6]
        c.violation(key, "Fortran driver over string / vector / owned-array wrappers: " + what, {"stderr_tail": p.stderr[-3000:], "frames": detail})
    return 1


# ---------------------------------------------------------------------------
# Python front (specs/PyOwn.tla): the same library wrapped as an extension module
PYAML = """
library: pown
cxx_header: own.hpp
options: {debug: true, wrap_python: true, wrap_lua: false, wrap_fortran: false, wrap_c: false, PY_array_arg: list}
declarations:
- decl: class Cls
  declarations:
  - decl: Cls(int v)
  - decl: ~Cls()
  - decl: int get() const
  - decl: Cls * clone() +owner(caller)
%(kinds)s- decl: Cls * pooled(int v) +owner(caller)+free_pattern(pool_release)
- decl: Cls * make(int v) +owner(caller)
- decl: Cls * borrow() +owner(library)
- decl: char * pdup(int k) +owner(caller)
- decl: int * pints(int n) +owner(caller)+dimension(n)
patterns:
  pool_release: |
    Cls *cxx_ptr = reinterpret_cast<Cls *>(ptr);
    pool_put(cxx_ptr);
"""
PCPP_EXTRA = """
static void track_(void *p) { tracked_[ntracked_++ % 64] = p; vt_live(1); vt_begin("Lib", "ctor"); vt_obj(p); vt_end(); }
char *pdup(int k) { char *p = dupname(k); track_(p); return p; }
int *pints(int n) { int *p = newints(n); track_(p); return p; }
"""
PHPP_EXTRA = "char *pdup(int k);\nint *pints(int n);\n"
# more classes than one digit counts: every class has a release code of its own in the library-wide table
NKINDS = 12
PYAML = PYAML.replace("%(kinds)s", "".join(
    "- decl: class K%02d\n  declarations:\n  - decl: K%02d(int v)\n  - decl: ~K%02d()\n" % (k, k, k) for k in range(1, NKINDS + 1)))
KYAML = "".join("- decl: class K%02d\n  declarations:\n  - decl: K%02d(int v)\n  - decl: ~K%02d()\n" % (k, k, k) for k in range(1, NKINDS + 1))
# (classes of different sizes: a release through another class's destructor is also a size mismatch for ASan)
HPP = HPP.replace("#endif", "".join("class K%02d { public: int v; int pad[%d]; explicit K%02d(int v); ~K%02d(); };\n" % (k, k, k, k)
                                    for k in range(1, NKINDS + 1)) + "#endif", 1)
YAML = YAML.replace("- decl: namespace inner\n", KYAML + "- decl: namespace inner\n", 1)
CPP += "".join(
    'K%(k)02d::K%(k)02d(int v_) : v(v_) { vt_live(1); vt_begin("Lib", "ctor"); vt_obj(this); vt_int(%(k)d); vt_end(); }\n'
    'K%(k)02d::~K%(k)02d() { vt_live(-1); vt_begin("Lib", "dtor"); vt_obj(this); vt_int(%(k)d); vt_end(); }\n' % {"k": k}
    for k in range(1, NKINDS + 1))

PYDRIVER = r"""
import gc, json, sys
sys.path.insert(0, sys.argv[3])
seqs = json.load(open(sys.argv[1]))
out = open(sys.argv[2], "a")
start = int(sys.argv[4])
import pown
def mark(**kw):
    out.write(json.dumps(kw) + "\n"); out.flush()
mark(ev="Prelude")
keep = pown.borrow()        # the library creates its own object on first use: outside every sequence
for n in range(start, len(seqs)):
    env = {}
    mark(ev="SeqBegin", n=n)
    for op, v, w in seqs[n]:
        mark(ev="Op", op=op, v=v, w=w)
        exc = ""
        try:
            if op == "ctor": env[v] = getattr(pown, w or "Cls")(7)
            elif op == "make": env[v] = pown.make(9)
            elif op == "pooled": env[v] = pown.pooled(3)
            elif op == "borrow": env[v] = pown.borrow()
            elif op == "clone": env[w] = env[v].clone()
            elif op == "alias": env[w] = env[v]
            elif op == "method": env[v].get()
            elif op == "del": del env[v]
            elif op == "dupname":
                if pown.pdup(4) != "D4": exc = "wrong value"
            elif op == "newints":
                if list(pown.pints(3)) != [10, 11, 12]: exc = "wrong value"
            gc.collect()
        except BaseException as ex:
            exc = type(ex).__name__
        mark(ev="OpEnd", exc=exc)
    mark(ev="SeqEnd", n=n)
"""


def py_sequences(maxl):
    """Every statement sequence of length <= maxl over two variables that Python itself allows (a bound source, an
    unbound target), closed by deleting what is still bound."""
    V = ["a", "b"]
    out = []

    def ops(bound):
        for v in V:
            if v not in bound:
                for op in ("ctor", "make", "pooled", "borrow"):
                    yield (op, v, ""), bound | {v}
            else:
                yield ("method", v, ""), bound
                yield ("del", v, ""), bound - {v}
                for w in V:
                    if w not in bound:
                        yield ("clone", v, w), bound | {w}
                        yield ("alias", v, w), bound | {w}
        yield ("dupname", "", ""), bound
        yield ("newints", "", ""), bound

    def rec(seq, bound):
        if seq:
            out.append(seq + [("del", v, "") for v in sorted(bound)])
        if len(seq) == maxl:
            return
        for o, b in ops(bound):
            rec(seq + [o], b)
    rec([], frozenset())
    return out


def py_random_sequences(n, length, rng):
    """Longer statement sequences over three variables, drawn at random among the statements Python allows in the
    state reached (the guards of specs/PyOwn.tla), closed by deleting what is still bound."""
    V = ["a", "b", "c"]
    out = []
    for _ in range(n):
        bound, seq, nobj = set(), [], 0
        while len(seq) < length:
            # (statements that run into a recorded finding -- owned results -- end a replay at that point: they are
            # left to the enumerated short sequences; the long ones exercise constructors, borrowed results, aliases)
            cand = []
            for v in V:
                if v not in bound:
                    cand += [("ctor", v, ""), ("ctor", v, ""), ("borrow", v, "")]
                else:
                    cand += [("method", v, ""), ("del", v, ""), ("del", v, "")]
                    cand += [("alias", v, w) for w in V if w not in bound]
            op = rng.choice(cand)
            makes = op[0] in ("ctor", "make", "pooled", "clone", "dupname", "newints")
            if makes and nobj >= 10:
                continue
            nobj += 1 if makes else 0
            seq.append(op)
            if op[0] in ("ctor", "make", "pooled", "borrow"):
                bound.add(op[1])
            elif op[0] in ("clone", "alias"):
                bound.add(op[2])
            elif op[0] == "del":
                bound.discard(op[1])
        out.append(seq + [("del", v, "") for v in sorted(bound)])
    return out


def python_part(c, d, thorough):
    from rt import pygen
    cfg = "MC_PyOwn_thorough" if thorough else "MC_PyOwn_quick"
    r, bad = model_check("MC_PyOwn", cfg, timeout=1800)
    c.add_tlc(r, cfg)
    if bad:
        c.violation("model:PyOwn:" + bad, "design-level invariant %s violated" % bad, {"tlc_tail": r.out[-3000:]})
    pd = os.path.join(d, "py")
    os.makedirs(pd)
    open(os.path.join(pd, "pown.yaml"), "w").write(PYAML)
    open(os.path.join(pd, "own.hpp"), "w").write(HPP.replace("#endif", PHPP_EXTRA + "#endif", 1) if "#endif" in HPP else HPP + PHPP_EXTRA)
    open(os.path.join(pd, "own.cpp"), "w").write(CPP + PCPP_EXTRA)
    out = os.path.join(pd, "gen")
    os.makedirs(out)
    rc, so, se = shroudrun.run(["--outdir", out, "--logdir", out, os.path.join(pd, "pown.yaml")])
    if rc != 0:
        c.violation("py-build:shroud", "Shroud fails on the Python description: " + se[-600:])
        return 0
    objs = []
    for s_ in [os.path.join(pd, "own.cpp"), os.path.join(RT, "vt.c")] + [os.path.join(out, f) for f in sorted(os.listdir(out)) if f.endswith(".cpp")]:
        o = os.path.join(pd, os.path.basename(s_) + ".o")
        cc = ["gcc", "-std=c99"] if s_.endswith(".c") else ["g++", "-std=c++11"]
        rc, txt = sh(cc + ["-g", "-fPIC", "-c", s_, "-o", o, "-I", pd, "-I", out, "-I", RT, "-I", pygen.PYINC], pd)
        if rc != 0:
            c.violation("py-build:compile", "Python extension does not compile: " + txt[-800:])
            return 0
        objs.append(o)
    rc, txt = sh(["g++", "-shared", "-Wl,--wrap=free", "-o", os.path.join(pd, "pown.so")] + objs, pd)
    if rc != 0:
        c.violation("py-build:link", txt[-800:])
        return 0
    seqs = py_sequences(4 if thorough else 3)
    import random
    seqs += py_random_sequences(400 if thorough else 40, 12, random.Random(common.seed()))
    # one object of every class, constructed and dropped in turn: each is released by its own destructor
    kseq = []
    for k in range(1, NKINDS):
        kseq += [("ctor", "a", "K%02d" % k), ("del", "a", "")]
    seqs.append(kseq[:22])
    seqs.append([("ctor", "a", "K%02d" % NKINDS), ("ctor", "b", "K02"), ("del", "a", ""), ("del", "b", ""),
                 ("ctor", "a", "K10"), ("ctor", "b", "K01"), ("del", "b", ""), ("del", "a", "")])
    json.dump(seqs, open(os.path.join(pd, "seqs.json"), "w"))
    open(os.path.join(pd, "driver.py"), "w").write(PYDRIVER)
    tf = os.path.join(pd, "trace.ndjson")
    start, crashes = 0, {}
    while start < len(seqs):
        p = subprocess.run([common.PY, "driver.py", "seqs.json", tf, pd, str(start)], cwd=pd,
                           env=dict(os.environ, VT_TRACE=tf, MALLOC_CHECK_="3"), stdout=subprocess.PIPE, stderr=subprocess.PIPE, text=True, timeout=3000)
        if p.returncode == 0:
            break
        last = -1
        for line in open(tf):
            try:
                e = json.loads(line)
            except ValueError:
                continue
            if e.get("ev") == "SeqBegin":
                last = e["n"]
        if last < start:
            raise MachineryError("python ownership driver failed outside a sequence: " + p.stderr[-400:])
        crashes[last] = "exit %d: %s" % (p.returncode, (p.stderr.strip().split("\n") or [""])[-1][:160])
        start = last + 1
    # cut the log into sequences; objects are numbered per sequence in order of construction, the library's own is MaxObj
    traces, cur, op, lib_addr, prelude = [], None, None, None, False
    MAXOBJ = 12
    for line in open(tf):
        try:
            e = json.loads(line)
        except ValueError:
            continue
        ev = e.get("ev")
        if ev == "Prelude":
            prelude, lib_addr = True, None
        elif ev == "SeqBegin":
            prelude = False
            cur = {"events": [], "crash": crashes.get(e["n"], ""), "n": e["n"], "ids": {}}
            traces.append(cur)
        elif ev == "Op" and cur is not None:
            op = {"op": e["op"], "v": e["v"], "w": "" if e["op"] == "ctor" else e["w"], "lib": [], "exc": "crash"}
            cur["events"].append(op)
        elif ev == "OpEnd" and op is not None:
            op["exc"] = e["exc"]
            op = None
        elif ev == "SeqEnd":
            cur = None
        elif ev == "Lib":
            addr = [x["v"] for x in e["vals"] if x["t"] == "o"][0]
            kind_ = ([x["v"] for x in e["vals"] if x["t"] == "i"] or [0])[0]
            if prelude:
                if e["f"] == "ctor":
                    lib_addr = addr
                continue
            if cur is None:
                continue
            if addr == lib_addr:
                oid = MAXOBJ
            elif e["f"] == "ctor":
                oid = cur["ids"][addr] = len([1 for x in cur["ids"]]) + 1 if addr not in cur["ids"] or True else 0
                cur["nobj"] = cur.get("nobj", 0) + 1
                oid = cur["ids"][addr] = cur["nobj"]
            else:
                oid = cur["ids"].get(addr, MAXOBJ - 1)
            kind = e["f"]
            if kind == "dtor" and op is not None and op["op"] in ("dupname", "newints"):
                kind = "free"
            if e["f"] == "ctor":
                cur.setdefault("kinds", {})[oid] = kind_
            (op["lib"] if op is not None else cur["events"][-1]["lib"] if cur["events"] else []).append(
                {"ev": kind, "id": oid, "k": kind_, "ck": cur.get("kinds", {}).get(oid, kind_)})
    if not traces:
        raise MachineryError("no Python ownership sequence recorded")
    controls = []
    for t in traces:
        if any(e["op"] == "del" and e["lib"] for e in t["events"]) and len(controls) < 2:
            k = json.loads(json.dumps(t))
            for e in k["events"]:
                if e["op"] == "del" and e["lib"]:
                    e["lib"] = []
                    break
            controls.append(k)
        if any(e["op"] == "borrow" for e in t["events"]) and len(controls) < 4 and any(e["op"] == "del" and not e["lib"] for e in t["events"]):
            k = json.loads(json.dumps(t))
            for e in k["events"]:
                if e["op"] == "del" and not e["lib"]:
                    e["lib"] = [{"ev": "dtor", "id": MAXOBJ, "k": 0, "ck": 0}]
                    break
            controls.append(k)
    alltr = [{"events": t["events"], "crash": t["crash"]} for t in traces + controls]
    verdicts, st = validate_traces("Trace_PyOwn", "Trace_PyOwn", alltr, shard=3000)
    c.add_stats(st, "Trace_PyOwn", len(traces))
    cnt = {}
    for i, t in enumerate(traces):
        v, detail = verdicts[i]
        cnt[v] = cnt.get(v, 0) + 1
        if v == "BADTREE":
            raise MachineryError("python ownership driver and PyOwn disagree on what is possible: %s" % detail)
        if v == "REJECT":
            ops = ",".join("%s(%s%s)" % (e["op"], e["v"], "->" + e["w"] if e["w"] else "") for e in t["events"])
            what = detail.split('"')[1] if '"' in detail else detail
            key = "py-seq:%s:%s" % (what[:50], ops)
            if what == "object not released (leak)":
                # recorded findings (KNOWN_FINDINGS.txt) are recognised by what made the object that is not released:
                # +owner(caller) on a class result and on plain memory is not implemented in the Python wrapper
                import re
                m = re.search(r'"object not released \(leak\)", "\w+", (\d+)', detail)
                oid = int(m.group(1)) if m else -1
                maker = [e["op"] for e in t["events"] if any(x["ev"] == "ctor" and x["id"] == oid for x in e["lib"])]
                if maker and maker[0] in ("make", "pooled", "clone"):
                    key = "py-owned-class-result-not-released:" + maker[0]
                elif maker and maker[0] in ("dupname", "newints"):
                    key = "py-owned-memory-not-freed:" + maker[0]
            c.violation(key, "python: %s: %s" % (ops, detail), {"ops": ops, "events": t["events"], "detail": detail})
        elif v == "ACCEPT":
            c.count(1, ["py:" + json.dumps([(e["op"], e["v"], e["w"]) for e in t["events"]])])
    for i, k in enumerate(controls):
        v, detail = verdicts[len(traces) + i]
        if v != "REJECT":
            raise MachineryError("python negative control %d not rejected: %s %s" % (i, v, detail))
    c.part("python_ownership", sequences=len(traces), verdicts=cnt, negative_controls_rejected=len(controls))
    return len(traces)


def run(tier):
    with Check("C06", tier) as c:
        thorough = tier == "thorough"
        c.assumptions += ["the driver is a correct caller: it never calls through an empty handle, never destroys "
                          "library-owned memory itself and releases a copied handle through one copy only; sequences it "
                          "cuts short for that reason are not judged",
                          "object identity is the address, renumbered per sequence in order of first appearance",
                          "AddressSanitizer / LeakSanitizer of GCC 12"]
        cfg = "MC_Capsule_thorough" if thorough else "MC_Capsule_quick"
        r, bad = model_check("MC_Capsule", cfg, timeout=1800)
        c.add_tlc(r, cfg)
        if bad:
            c.violation("model:" + bad, "design-level invariant %s violated" % bad, {"tlc_tail": r.out[-3000:]})
        traces = []
        with common.scratch("c06-") as d:
            lib, err = build_lib(d)
            if lib is None:
                c.violation("build", err)
                c.finish()
            maxl = 4 if thorough else 3
            shards = 8 if thorough else 1
            with cf.ThreadPoolExecutor(8) as ex:
                res = list(ex.map(lambda ph: run_c_driver(d, lib, maxl, shards if thorough else 1, ph), range(shards)))
            for ev, err, asan in res:
                if ev is None:
                    c.violation("build-driver", err)
                    continue
                traces += cut_sequences(ev, asan, idtor_kinds(lib[2]))
            nf = fortran_part(c, d, lib)
            python_part(c, d, thorough)
        if not traces:
            raise MachineryError("no sequences recorded")
        controls = []
        for t in traces:
            if any(e["op"] == "release" and e["lib"] for e in t["events"]) and len(controls) < 2:
                k = json.loads(json.dumps(t))
                for e in k["events"]:
                    if e["op"] == "release" and e["lib"]:
                        e["lib"] = []
                        break
                controls.append(k)
            if any(e["op"] == "borrow" for e in t["events"]) and len(controls) < 4:
                k = json.loads(json.dumps(t))
                for e in k["events"]:
                    if e["op"] == "borrow":
                        e["after"][e["h"]]["idtor"] = "delete"
                        break
                controls.append(k)
        alltr = [{"events": t["events"], "live": t["live"], "asan": t["asan"]} for t in traces + controls]
        verdicts, st = validate_traces("Trace_Capsule", "Trace_Capsule", alltr, shard=3000)
        c.add_stats(st, "trace_validation", len(traces))
        cnt = {}
        for i, t in enumerate(traces):
            v, detail = verdicts[i]
            cnt[v] = cnt.get(v, 0) + 1
            if v == "REJECT":
                ops = ",".join("%s(%s%s)" % (e["op"], e["h"], "<-" + e["g"] if e["op"] in ("clone", "copy") else "") for e in t["events"])
                c.violation("seq:" + ops, "%s: %s" % (ops, detail), {"ops": ops, "events": t["events"], "detail": detail})
            elif v == "ACCEPT":
                c.count(1, [json.dumps([(e["op"], e["h"], e["g"]) for e in t["events"]])])
        for i, k in enumerate(controls):
            v, detail = verdicts[len(traces) + i]
            if v != "REJECT":
                raise MachineryError("negative control %d not rejected: %s %s" % (i, v, detail))
        c.part("conformance", sequences=len(traces), verdicts=cnt, max_length=maxl, fortran_driver_runs=nf,
               negative_controls_rejected=len(controls))
        c.cov["exhaustive"] = not thorough
        c.cov["rule"] = ("every sequence of <= %d calls over {ctor, owned result, pool-owned result (free_pattern), borrowed result, clone, method, handle "
                         "copy, destructor wrapper, generic release} x 2 handles that a correct caller may make, followed by "
                         "releasing both handles; thorough: length 4 in 8 shards. non-trivial = distinct accepted sequence" % maxl)
        c.sample({"sequence": [(e["op"], e["h"]) for e in traces[len(traces) // 2]["events"]]})
        c.finish()


if __name__ == "__main__":
    run(common.tier_from_argv())
