"""C05 -- every accepted input yields wrapper sources that compile and link.

1. TLC model-checks EmitOrder (helper closure: for every dependency table on
   N helpers and every requested set the generator's visit order emits the
   closure, each helper once, dependencies first).
2. Conformance of the real _gather_helper_code (wrapc, wrapf, wrapp) on
   enumerated dependency tables: Trace_EmitOrder kind "gather".
3. Domain exploration: TLC -simulate over LibGen.tla (the admitted grammar)
   yields library descriptions; the real Shroud wraps each; every written file
   is compiled (headers alone as C and C++, sources, Fortran modules in the
   order Shroud lists them, Python against the 3.12 headers, Lua against the
   C API emulation), linked with the wrapped library, the Python module is
   imported; the symbol tables and module lists go back to TLC as a build
   trace (Trace_EmitOrder kind "build": modules before use, every symbol
   defined once, every reference resolved).
4. The upstream corpus: every configuration that has a library under
   regression/run is generated afresh, compiled and linked with that library
   and its upstream Fortran test program (which is also run).
"""
import concurrent.futures as cf
import itertools
import json
import os
import sys

sys.path.insert(0, os.path.dirname(os.path.dirname(os.path.abspath(__file__))))
import common  # noqa: E402
from common import Check, model_check, validate_traces, MachineryError  # noqa: E402
import shroudrun  # noqa: E402
import corpus  # noqa: E402
from rt import libgen  # noqa: E402

PROP = "C05"


# ---------------------------------------------------------------------------
# part 2: the real gather_helper_code on dependency tables
GATHER_CHILD = r'''
import json, sys, os
sys.path.insert(0, os.environ["VERIF_REPO"])
from shroud import wrapc, wrapf, wrapp, whelpers
cases = json.load(open(sys.argv[1]))
out = []
for c in cases:
    n = len(c["deps"])
    names = ["h%d" % (i + 1) for i in range(n)]
    res = {}
    # C wrapper
    table = {}
    for i, nm in enumerate(names):
        table[nm] = dict(scope=c["scope"][i], source=nm, dependent_helpers=[names[j - 1] for j in c["deps"][i]])
        if not table[nm]["dependent_helpers"]:
            del table[nm]["dependent_helpers"]
        if c["scope"][i] == "file" and c.get("noscope"):
            del table[nm]["scope"]
    req = {names[j - 1]: True for j in c["req"]}
    saved = whelpers.CHelpers
    whelpers.CHelpers = table
    try:
        for lang in ("c", "cxx"):
            w = wrapc.Wrapc.__new__(wrapc.Wrapc)
            w.language = lang
            w.gather_helper_code(req)
            res["wrapc-" + lang] = {k: list(v) for k, v in w.helper_source.items()}
        # Python wrapper: its own scopes "file" and "pwrap_impl"
        ptable = {}
        for nm, h in table.items():
            h2 = dict(h)
            h2["scope"] = "pwrap_impl" if h.get("scope") == "cwrap_impl" else "file"
            ptable[nm] = h2
        whelpers.CHelpers = ptable
        w = wrapp.Wrapp.__new__(wrapp.Wrapp)
        w.language = "cxx"
        w.gather_helper_code(req)
        res["wrapp"] = {"file": list(w.helper_summary["source"]["file"]), "cwrap_include": [],
                        "cwrap_impl": list(w.helper_summary["source"]["pwrap_impl"]), "pscope": True}
        # Fortran wrapper: one bucket per module
        import types
        fsaved = whelpers.FHelpers
        whelpers.FHelpers = {nm: dict(source=nm, dependent_helpers=h.get("dependent_helpers", [])) for nm, h in table.items()}
        try:
            w = wrapf.Wrapf.__new__(wrapf.Wrapf)
            w.shared_helper = {}
            w.private_lines = []
            fi = types.SimpleNamespace(f_helper=dict(req), c_helper={}, helper_source=[], helper_derived_type=[], interface_lines=[], module_use={})
            w.gather_helper_code(fi)
            res["wrapf"] = {"file": list(fi.helper_source), "cwrap_include": [], "cwrap_impl": [], "fscope": True}
        finally:
            whelpers.FHelpers = fsaved
    finally:
        whelpers.CHelpers = saved
    out.append(res)
json.dump(out, open(sys.argv[2], "w"))
'''


def gather_cases(tier):
    """Dependency tables on 3 (quick) or 4 helpers with <= 2 listed dependencies each, sampled deterministically."""
    import random
    rng = random.Random(common.seed())
    n = 3 if tier == "quick" else 4
    H = list(range(1, n + 1))
    deplists = [[]] + [[a] for a in H] + [[a, b] for a in H for b in H]
    scopes = ["file", "cwrap_include", "cwrap_impl"]
    cases = []
    every = list(itertools.product(deplists, repeat=n))
    rng.shuffle(every)
    for deps in every[:400 if tier == "quick" else 4000]:
        req = [h for h in H if rng.random() < 0.6] or [rng.choice(H)]
        sc = [rng.choice(scopes) for _ in H]
        cases.append({"deps": [list(d) for d in deps], "req": req, "scope": sc, "noscope": rng.random() < 0.5})
    return cases


def run_gather(c, tier):
    import subprocess
    cases = gather_cases(tier)
    with common.scratch("c05g-") as d:
        inp, outp, prog = os.path.join(d, "in.json"), os.path.join(d, "out.json"), os.path.join(d, "child.py")
        json.dump(cases, open(inp, "w"))
        open(prog, "w").write(GATHER_CHILD)
        p = subprocess.run([common.PY, prog, inp, outp], env=dict(os.environ, VERIF_REPO=common.REPO, PYTHONDONTWRITEBYTECODE="1"),
                           stdout=subprocess.PIPE, stderr=subprocess.STDOUT, text=True)
        if p.returncode != 0:
            raise MachineryError("gather child failed: " + p.stdout[-2000:])
        res = json.load(open(outp))
    traces, meta = [], []
    for cs, r in zip(cases, res):
        for front, o in sorted(r.items()):
            if "error" in o:
                raise MachineryError("gather child: %s %s" % (front, o["error"]))
            scope = list(cs["scope"])
            if o.get("pscope"):
                scope = ["cwrap_impl" if x == "cwrap_impl" else "file" for x in scope]
            if o.get("fscope"):
                scope = ["file" for x in scope]
            tr = {"kind": "gather", "deps": cs["deps"], "req": cs["req"], "scope": scope,
                  "out": {k: [int(x[1:]) for x in o.get(k, [])] for k in ("file", "cwrap_include", "cwrap_impl")}}
            traces.append(tr)
            meta.append((front, cs))
    keep, km = traces, meta
    # negative controls: swap two helpers in one scope / drop one
    ctl = []
    for tr in keep:
        for sc in ("file", "cwrap_include", "cwrap_impl"):
            if len(tr["out"][sc]) >= 2 and len(ctl) < 20:
                bad = json.loads(json.dumps(tr))
                bad["out"][sc] = bad["out"][sc][::-1]
                ctl.append(bad)
                break
    v, st = validate_traces("Trace_EmitOrder", "Trace_EmitOrder", keep + ctl)
    c.add_stats(st, "Trace_EmitOrder/gather", len(keep))
    for (verdict, detail), (front, cs) in zip(v[:len(keep)], km):
        c.count()
        if verdict != "ACCEPT":
            c.violation("gather:%s" % front, "%s.gather_helper_code emits helpers in an order that is not dependencies-first: %s %s" % (
                front, json.dumps(cs), detail), {"case": cs, "front": front, "detail": detail})
    for verdict, detail in v[len(keep):]:
        if verdict != "REJECT":
            raise MachineryError("negative control (reversed helper order) accepted")
    c.part("gather", cases=len(keep), controls=len(ctl))


# ---------------------------------------------------------------------------
# part 2b: every resolved entry of the statement tables requests the helpers its code calls
REQ_CHILD = r'''
import json, sys, os, re
sys.path.insert(0, os.environ["VERIF_REPO"])
from shroud import statements, whelpers, wrapp, util, ast, declast
# helper tables need a library (format fields of their names)
from shroud import main as shmain
lib = ast.LibraryNode(library="req")
whelpers.set_library(lib)
whelpers.add_all_helpers()
out = []
LISTF = ["pre_call", "call", "post_call", "final", "ret", "declare", "post_parse", "cleanup", "fail", "arg_call",
         "c_arg_decl", "f_arg_decl", "arg_decl", "arg_c_call", "post_declare"]
def deps_table(tbl):
    return {k: list(v.get("dependent_helpers", [])) for k, v in tbl.items()}
def funcs_of(tbl):
    """function identifier -> helper keys whose source defines it"""
    m = {}
    for k, v in tbl.items():
        for fld in ("source", "c_source", "cxx_source", "interface"):
            src = v.get(fld)
            if not src: continue
            for mm in re.finditer(r"^(?:static |extern )?[A-Za-z_][\w \*]*?\b(\w*Shroud\w+)\s*\(", src, re.M):
                m.setdefault(mm.group(1), set()).add(k)
    return m
for language in ("c", "c++"):
    statements.update_statements_for_language(language)
    cdefs = funcs_of(whelpers.CHelpers)
    def walk(tree, acc):
        for k, v in tree.items():
            if k == "_stmts": acc.append(v)
            elif isinstance(v, dict) and not k.startswith("_"): walk(v, acc)
    acc = []
    walk(statements.cf_tree, acc)
    for sc in acc:
        uses, nfunc = set(), 0
        for f in LISTF:
            v = sc.get(f, None)
            for x in (v if isinstance(v, list) else [v]):
                if isinstance(x, str):
                    for mm in re.finditer(r"\b(Shroud\w+)\s*\(", x):
                        uses.add(mm.group(1))
                    for mm in re.finditer(r"\{hnamefunc(\d)\}", x):
                        nfunc = max(nfunc, int(mm.group(1)) + 1)
        ch = (sc.get("c_helper", "") or "").split()
        fh = (sc.get("f_helper", "") or "").split()
        lang = sc.name.split("_")[0]
        unknown = [u for u in uses if u not in cdefs]
        out.append({"kind": "requests", "name": language + ":" + sc.name,
                    "uses": sorted({k for u in uses for k in cdefs.get(u, [])} if all(len(cdefs.get(u, [])) == 1 for u in uses)
                                   else {u for u in uses}),
                    "requests": ch, "nfunc": nfunc, "nfhelpers": len(fh) if lang == "f" else max(len(fh), nfunc),
                    "unknown": unknown})
json.dump({"traces": out, "cdeps": deps_table(whelpers.CHelpers)}, open(sys.argv[1], "w"))
'''


def run_requests(c, tier):
    import subprocess
    with common.scratch("c05r-") as d:
        prog, outp = os.path.join(d, "child.py"), os.path.join(d, "out.json")
        open(prog, "w").write(REQ_CHILD)
        p = subprocess.run([common.PY, prog, outp], env=dict(os.environ, VERIF_REPO=common.REPO, PYTHONDONTWRITEBYTECODE="1"),
                           stdout=subprocess.PIPE, stderr=subprocess.STDOUT, text=True)
        if p.returncode != 0:
            raise MachineryError("requests child failed: " + p.stdout[-2000:])
        res = json.load(open(outp))
    deps = res["cdeps"]
    traces = []
    for t in res["traces"]:
        if t["unknown"]:
            raise MachineryError("statement %s calls %s, which no helper defines (reader of helper sources incomplete)" % (t["name"], t["unknown"]))
        # every name that can be reached must be a key of deps
        for k in t["uses"] + t["requests"]:
            deps.setdefault(k, [])
        traces.append(t)
    for t in traces:
        t["deps"] = {k: deps[k] for k in deps}
    interesting = [t for t in traces if t["uses"] or t["nfunc"]]
    ctl = []
    for t in interesting:
        if t["uses"] and len(ctl) < 3:
            b = json.loads(json.dumps(t))
            b["requests"] = []
            ctl.append(b)
    v, st = validate_traces("Trace_EmitOrder", "Trace_EmitOrder", interesting + ctl)
    c.add_stats(st, "Trace_EmitOrder/requests", len(interesting))
    for (verdict, detail), t in zip(v[:len(interesting)], interesting):
        c.count()
        if verdict != "ACCEPT":
            c.violation("requests:%s" % t["name"].split(":", 1)[1], "statement %s: %s" % (t["name"], detail), {"statement": t["name"], "detail": detail,
                                                                                            "uses": t["uses"], "requests": t["requests"]})
    for verdict, detail in v[len(interesting):]:
        if verdict != "REJECT":
            raise MachineryError("negative control (requests emptied) accepted")
    c.part("helper_requests", resolved_entries=len(traces), entries_calling_helpers=len(interesting), controls=len(ctl))


# declarations guarded by cpp_if (docs/input.rst "cpp_if"): the library and its wrappers must build with the
# symbol defined and with it undefined
CPPIF = {
    "yaml": """
library: sub
cxx_header: sub.hpp
options: {debug: true, wrap_python: false, wrap_lua: false}
declarations:
- decl: void over(int a)
  cpp_if: ifdef HAVE_OPT
- decl: void over(double a)
- decl: void over(const std::string & a)
  cpp_if: if defined(HAVE_OPT)
- decl: int only_opt(int n)
  cpp_if: ifdef HAVE_OPT
- decl: class Shape
  declarations:
  - decl: Shape()
  - decl: ~Shape()
  - decl: void draw(int a)
    cpp_if: ifdef HAVE_OPT
  - decl: void draw(double b)
  - decl: int sides() const
    cpp_if: ifdef HAVE_OPT
  - decl: static int instances()
    cpp_if: ifdef HAVE_OPT
  - decl: static int made()
  - decl: int scaled(int a, int k = 2) const
    cpp_if: ifdef HAVE_OPT
  - decl: void resize(double f)
    cpp_if: ifdef HAVE_OPT
    fortran_generic:
    - decl: (float f)
    - decl: (double f)
- decl: int plus(int a, int k = 2)
  cpp_if: ifdef HAVE_OPT
- decl: double half(double f)
  cpp_if: ifdef HAVE_OPT
  fortran_generic:
  - decl: (float f)
  - decl: (double f)
- decl: template<typename T> T same(T a)
  cpp_if: ifdef HAVE_OPT
  cxx_template:
  - instantiation: <int>
  - instantiation: <double>
- decl: class Gated
  cpp_if: ifdef HAVE_OPT
  declarations:
  - decl: Gated()
  - decl: ~Gated()
  - decl: bool open(bool how) const
- decl: namespace inner
  declarations:
  - decl: double twice(double x)
  - decl: double thrice(double x)
    cpp_if: ifdef HAVE_OPT
""",
    "hpp": """
#ifndef SUB_HPP
#define SUB_HPP
#include <string>
#ifdef HAVE_OPT
void over(int a);
void over(const std::string &a);
int only_opt(int n);
int plus(int a, int k = 2);
double half(double f);
template<typename T> T same(T a) { return a; }
#endif
void over(double a);
class Shape { public: Shape(); ~Shape(); void draw(double b); int v; static int made();
#ifdef HAVE_OPT
  void draw(int a); int sides() const; static int instances(); int scaled(int a, int k = 2) const; void resize(double f);
#endif
};
#ifdef HAVE_OPT
class Gated { public: Gated(); ~Gated(); bool open(bool how) const; };
#endif
namespace inner { double twice(double x);
#ifdef HAVE_OPT
double thrice(double x);
#endif
}
#endif
""",
    "cpp": """
#include "sub.hpp"
#ifdef HAVE_OPT
void over(int a) { (void)a; }
void over(const std::string &a) { (void)a; }
int only_opt(int n) { return n; }
void Shape::draw(int a) { v = a; }
int Shape::sides() const { return v; }
int Shape::instances() { return 1; } int Shape::scaled(int a, int k) const { return a * k; } void Shape::resize(double f) { v = (int)f; }
int plus(int a, int k) { return a + k; }
double half(double f) { return f / 2; }
Gated::Gated() {} Gated::~Gated() {} bool Gated::open(bool how) const { return how; }
namespace inner { double thrice(double x) { return 3 * x; } }
#endif
void over(double a) { (void)a; }
Shape::Shape() : v(0) {} Shape::~Shape() {} void Shape::draw(double b) { v = (int)b; } int Shape::made() { return 2; }
namespace inner { double twice(double x) { return 2 * x; } }
""",
}


# a chain of Fortran modules three deep: a namespace inside a namespace, each using a class of the scope around it
# (the modules must be listed by --ffiles in an order in which they compile)
NEST = {
    "yaml": """
library: sub
cxx_header: sub.hpp
options: {debug: true, wrap_python: false, wrap_lua: false}
declarations:
- decl: class Base
  declarations:
  - decl: Base()
  - decl: ~Base()
  - decl: int id() const
- decl: namespace mid
  declarations:
  - decl: class Mid
    declarations:
    - decl: Mid()
    - decl: ~Mid()
    - decl: int twice(int a) const
  - decl: Base * frombase() +owner(caller)
  - decl: int viabase(const Base & b)
  - decl: namespace deep
    declarations:
    - decl: class Leaf
      declarations:
      - decl: Leaf()
      - decl: ~Leaf()
    - decl: mid::Mid * frommid() +owner(caller)
    - decl: int viamid(const mid::Mid & m)
    - decl: namespace deeper
      declarations:
      - decl: int vialeaf(const mid::deep::Leaf & l, const Base & b)
""",
    "hpp": """
#ifndef SUB_HPP
#define SUB_HPP
class Base { public: Base(); ~Base(); int id() const; };
namespace mid {
class Mid { public: Mid(); ~Mid(); int twice(int a) const; };
Base *frombase();
int viabase(const Base &b);
namespace deep {
class Leaf { public: Leaf(); ~Leaf(); };
mid::Mid *frommid();
int viamid(const mid::Mid &m);
namespace deeper { int vialeaf(const mid::deep::Leaf &l, const Base &b); }
}
}
#endif
""",
    "cpp": """
#include "sub.hpp"
Base::Base() {} Base::~Base() {} int Base::id() const { return 1; }
namespace mid {
Mid::Mid() {} Mid::~Mid() {} int Mid::twice(int a) const { return 2 * a; }
Base *frombase() { return new Base; }
int viabase(const Base &b) { return b.id(); }
namespace deep {
Leaf::Leaf() {} Leaf::~Leaf() {}
mid::Mid *frommid() { return new mid::Mid; }
int viamid(const mid::Mid &m) { return m.twice(2); }
namespace deeper { int vialeaf(const mid::deep::Leaf &l, const Base &b) { (void)l; return b.id(); } }
}
}
""",
}


# a class method that takes a struct declared beside the class (docs/struct.rst): the class's C header must see the
# C form of the struct
CLSSTRUCT = {
    "yaml": """
library: sub
cxx_header: sub.hpp
options: {debug: true, wrap_python: false, wrap_lua: false}
declarations:
- decl: namespace ns1
  declarations:
  - decl: struct Pt { int x; double y; }
  - decl: class Holder
    declarations:
    - decl: Holder()
    - decl: ~Holder()
    - decl: int take(const Pt & p)
    - decl: void give(Pt * p +intent(out))
  - decl: int free_take(Pt p)
""",
    "hpp": """
#ifndef SUB_HPP
#define SUB_HPP
namespace ns1 {
struct Pt { int x; double y; };
class Holder { public: Holder(); ~Holder(); int take(const Pt &p); void give(Pt *p); };
int free_take(Pt p);
}
#endif
""",
    "cpp": """
#include "sub.hpp"
namespace ns1 {
Holder::Holder() {} Holder::~Holder() {} int Holder::take(const Pt &p) { return p.x; } void Holder::give(Pt *p) { p->x = 1; p->y = 2.0; }
int free_take(Pt p) { return p.x; }
}
""",
}


# a Python-wrapped class whose methods and members need the list helpers (PY_array_arg: list): the per-class
# type file uses helper functions and the Python 2/3 compatibility macros
PYCLS = {
    "yaml": """
library: sub
cxx_header: sub.hpp
options: {debug: true, wrap_python: true, wrap_lua: false, wrap_fortran: false, wrap_c: false, PY_array_arg: list}
declarations:
- decl: class Accum
  declarations:
  - decl: Accum()
  - decl: ~Accum()
  - decl: int total(const int *v +rank(1), int n +implied(size(v)))
  - decl: void fill(int *v +intent(out)+dimension(n), int n)
  - decl: double mean(const double *x +rank(1), int n +implied(size(x)))
  - decl: long span(const long *w +rank(1), int n +implied(size(w)))
  - decl: int count +readonly
- decl: int plain_total(const int *v +rank(1), int n +implied(size(v)))
""",
    "hpp": """
#ifndef SUB_HPP
#define SUB_HPP
class Accum { public: int count; Accum(); ~Accum(); int total(const int *v, int n); void fill(int *v, int n);
  double mean(const double *x, int n); long span(const long *w, int n); };
int plain_total(const int *v, int n);
#endif
""",
    "cpp": """
#include "sub.hpp"
Accum::Accum() : count(0) {} Accum::~Accum() {}
int Accum::total(const int *v, int n) { int t = 0; for (int i = 0; i < n; i++) t += v[i]; return t; }
void Accum::fill(int *v, int n) { for (int i = 0; i < n; i++) v[i] = i; }
double Accum::mean(const double *x, int n) { double t = 0; for (int i = 0; i < n; i++) t += x[i]; return n ? t / n : 0.0; }
long Accum::span(const long *w, int n) { return n ? w[n - 1] - w[0] : 0; }
int plain_total(const int *v, int n) { int t = 0; for (int i = 0; i < n; i++) t += v[i]; return t; }
""",
}


# a Python-wrapped class with a member of enumeration type
PYENUM = {
    "yaml": """
library: sub
cxx_header: sub.hpp
options: {debug: true, wrap_python: true, wrap_lua: false, wrap_fortran: false, wrap_c: false}
declarations:
- decl: enum Color { RED = 1, BLUE = 5 }
- decl: class Lamp
  declarations:
  - decl: Lamp()
  - decl: ~Lamp()
  - decl: Color tint
""",
    "hpp": """
#ifndef SUB_HPP
#define SUB_HPP
enum Color { RED = 1, BLUE = 5 };
class Lamp { public: Color tint; Lamp(); ~Lamp(); };
#endif
""",
    "cpp": """
#include "sub.hpp"
Lamp::Lamp() : tint(RED) {} Lamp::~Lamp() {}
""",
}


# ---------------------------------------------------------------------------
# part 3: descriptions from LibGen
def classify(lib, stage, fn, txt):
    """A stable key for a diagnostic (used for known findings)."""
    import re
    if stage == "shroud":
        lines = [l for l in txt.strip().splitlines() if l.strip()]
        return "shroud:" + re.sub(r"[^A-Za-z0-9_{}.:-]+", "_", lines[-1] if lines else "no-output")[:70]
    t = txt
    m = re.search(r"(?:error|Error): ([^\n]*)", t)
    msg = m.group(1) if m else t.strip().splitlines()[-1] if t.strip() else ""
    msg = re.sub(r"[‘’']", "'", msg)
    msg = re.sub(r"\b(g\d+|[A-Za-z_]*_g\d+\w*)\b", "<fn>", msg)
    msg = re.sub(r"\bSH_[a-h]\b", "SH_<arg>", msg)
    msg = re.sub(r"; did you mean .*", "", msg)
    msg = re.sub(r"\d+", "N", msg)
    kind = "py" if fn.startswith("py") else "lua" if fn.startswith("lua") else "f" if fn.endswith(".f") else "c"
    return re.sub(r"\s+", "_", "%s:%s:%s" % (stage, kind, msg[:80].strip()))


def explore(c, tier):
    n = 10 if tier == "quick" else 160
    libs, r = libgen.sample_libraries(8 * n, common.seed())
    c.add_tlc(r, "LibGen/simulate")
    # de-duplicate, keep order
    seen, uniq = set(), []
    for l in libs:
        k = json.dumps(l, sort_keys=True)
        if k not in seen:
            seen.add(k)
            uniq.append(l)
    # choose n of them: first greedily so that every option value, language, container and feature occurs,
    # then in sampling order
    def feats(l):
        f = {"language:" + l["language"], "class:%s" % l["class"], "ns:%s" % l["ns"]}
        f |= {"%s=%s" % kv for kv in l["opts"].items()}
        for fn in l["funcs"]:
            f.add("result:" + fn["result"])
            f |= {"param:" + p for p in fn["params"]}
            f.add("kind:" + fn["kind"])
            if fn.get("ndef"):
                f.add("defaults")
        return f
    chosen, have = [], set()
    pool = list(uniq)
    while pool and len(chosen) < n:
        best = max(pool, key=lambda l: len(feats(l) - have))
        if not (feats(best) - have):
            break
        chosen.append(best)
        have |= feats(best)
        pool.remove(best)
    uniq = (chosen + pool)[:n]
    # the wide member of the domain (specs/LibGenPairs.tla): C + Fortran, Fortran with F_CFI, Python, Lua
    sets = libgen.cfg_sets()
    uniq.append(libgen.wide_library())
    uniq.append(libgen.wide_library(sets["PyRows"], wrap_python=True, wrap_fortran=False, wrap_c=False))
    uniq.append(libgen.wide_library(sets["LuaRows"], wrap_lua=True, wrap_fortran=False))
    uniq.append(libgen.wide_library(F_CFI=True))
    # every function of the wide member that has a parameter passed as int, as a function template instantiated
    # for int and double (Templatize), with fortran_generic entries where a double / long parameter allows (Genericize)
    for o_ in ({}, {"F_CFI": True}, {"wrap_python": True, "wrap_fortran": False, "wrap_c": False}):
        tl = libgen.wide_library(sets["PyRows"] if o_.get("wrap_python") else None, **o_)
        tl["funcs"] = [dict(f, tmpl=True, gen=bool({"double_v", "long_v"} & set(f["params"])))
                       for f in tl["funcs"] if "int_v" in f["params"]]
        uniq.append(libgen.without_cfi_conflict(tl))
    # declarations the documentation itself shows (docs/cwrapper.rst: vector_string_fill)
    doc = libgen.wide_library()
    doc["funcs"] = [{"kind": "plain", "result": "void", "params": ["vecstr_out"], "ndef": 0}]
    doc["class"] = False
    uniq.append(doc)
    doc2 = json.loads(json.dumps(doc))
    doc2["funcs"] = [{"kind": "plain", "result": "cstr_raw", "params": ["str_cref"], "ndef": 0}]
    uniq.append(doc2)
    for defs in ([], ["-DHAVE_OPT"]):
        cl = libgen.wide_library()
        cl["funcs"] = []
        cl["custom"] = CPPIF
        cl["defines"] = defs
        uniq.append(cl)
    nl = libgen.wide_library()
    nl["funcs"] = []
    nl["custom"] = NEST
    uniq.append(nl)
    cs_ = libgen.wide_library()
    cs_["funcs"] = []
    cs_["custom"] = CLSSTRUCT
    uniq.append(cs_)
    pc_ = libgen.wide_library(wrap_python=True, wrap_fortran=False, wrap_c=False)
    pc_["funcs"] = []
    pc_["custom"] = PYCLS
    uniq.append(pc_)
    pe_ = libgen.wide_library(wrap_python=True, wrap_fortran=False, wrap_c=False)
    pe_["funcs"] = []
    pe_["custom"] = PYENUM
    uniq.append(pe_)
    # one library per row with nothing else in it (a forgotten helper / include request is not masked)
    uniq += libgen.solo_libraries()
    if tier == "thorough":
        uniq += libgen.solo_libraries(F_CFI=True)
        uniq += libgen.solo_libraries(sets["PyRows"], wrap_python=True, wrap_fortran=False, wrap_c=False)
        uniq.append(libgen.wide_library(debug=False, doxygen=False, show_splicer_comments=False, line=40))
        uniq.append(libgen.wide_library(sets["PyRows"], wrap_python=True, wrap_fortran=True, F_CFI=True, literalinclude=True, line=132))
    results = [None] * len(uniq)

    def one(i):
        with common.scratch("c05-") as d:
            res = libgen.build(d, uniq[i])
        causes = sorted({libgen.known_cause(uniq[i], f) for f in uniq[i]["funcs"]} - {None})
        if res["shroud_rc"] != 0 and causes:
            # Shroud stopped: report that, then build the rest of the library without the functions of the
            # recorded findings (one kind after the other) so that one failure does not hide the others
            dropped = []
            for cause in causes:
                dropped.append(cause)
                rest = libgen.without_cfi_conflict(uniq[i], dropped)
                if not rest["funcs"]:
                    break
                with common.scratch("c05-") as d:
                    res2 = libgen.build(d, rest)
                if res2["shroud_rc"] == 0 or cause == causes[-1]:
                    res2["problems"] = res["problems"] + res2["problems"]
                    res2["retried_without"] = cause if res2["shroud_rc"] == 0 else None
                    return i, res2
        return i, res
    with cf.ThreadPoolExecutor(max(2, common.NCPU // 2)) as ex:
        for i, res in ex.map(one, range(len(uniq))):
            results[i] = res
    traces, tmeta = [], []
    cover = {}
    for lib, res in zip(uniq, results):
        c.count(1, [json.dumps({k: v for k, v in lib.items() if k != "custom"}, sort_keys=True)] if res["counts"].get("link") else [])
        for k, v in res["counts"].items():
            cover[k] = cover.get(k, 0) + v
        for o, v in lib["opts"].items():
            cover["opt:%s=%s" % (o, v)] = cover.get("opt:%s=%s" % (o, v), 0) + 1
        cover["language:" + lib["language"]] = cover.get("language:" + lib["language"], 0) + 1
        for stage, fn, txt in res["problems"]:
            key = classify(lib, stage, fn, txt)
            # one recorded finding has many faces (KNOWN_FINDINGS.txt "cfi-clone-only"): with F_CFI a function with a
            # character/string argument or result gets only the CFI clone.  It is recognised by its cause -- every
            # function the diagnostic names (or, when Shroud itself stops, some function of the library) combines
            # a string with a vector argument / pointer result with extent -- not by the compiler's wording.
            cause_of = {i: libgen.known_cause(lib, f) for i, f in enumerate(lib["funcs"], 1)}
            if any(cause_of.values()):
                names = {}
                nm = {}
                for i, f in enumerate(lib["funcs"], 1):
                    nm[i] = nm[f["of"]] if f["kind"] == "overload" and f.get("of") in nm else "g%d" % i
                    names.setdefault(nm[i], set()).add(i)
                import re as _re
                mentioned = set(_re.findall(r"\b(?:SUB_)?(?:ns1_)?(g\d+)(?:_\w+)?\(", txt)) | \
                    set(_re.findall(r"\[in procedure (?:c_)?(g\d+)\w*\]", txt if stage == "compile-fortran" else ""))
                if stage == "shroud" and res.get("retried_without"):
                    key = res["retried_without"] + ":shroud"
                elif stage in ("compile", "compile-fortran") and mentioned:
                    cs = [{cause_of[i] for i in names.get(m, set())} - {None} for m in mentioned]
                    common_cause = set.intersection(*cs) if all(cs) else set()
                    if common_cause:
                        key = sorted(common_cause)[0] + ":" + stage
            c.violation(key, "generated file %s fails at %s: %s" % (fn, stage, txt.strip()[:400]),
                        {"library": lib, "stage": stage, "file": fn, "diagnostic": txt})
        if res["trace"]:
            for tr in [res["trace"]] + res.get("extra_traces", []):
                traces.append(tr)
                tmeta.append((lib, tr["label"], bool([p for p in res["problems"] if p[0] in ("link",)])))
    # negative controls on build traces: drop a definition, duplicate one, reorder modules
    ctl = []
    for tr in traces:
        objs = [e for e in tr["events"] if e["ev"] == "Object" and e["defs"]]
        if objs and len(ctl) < 6:
            bad = json.loads(json.dumps(tr))
            for e in bad["events"]:
                if e["ev"] == "Object" and e["undefs"]:
                    e["undefs"].append("VT_control_missing_symbol")
                    ctl.append(("undefined symbol", bad))
                    break
        if len(objs) >= 2 and len(ctl) < 12:
            bad = json.loads(json.dumps(tr))
            os_ = [e for e in bad["events"] if e["ev"] == "Object" and e["defs"]]
            os_[1]["defs"].append(os_[0]["defs"][0])
            ctl.append(("symbol defined twice", bad))
        mods = [e for e in tr["events"] if e["ev"] == "Module"]
        if mods and len(ctl) < 16:
            bad = json.loads(json.dumps(tr))
            for e in bad["events"]:
                if e["ev"] == "Module":
                    e["uses"].append("vt_control_later_module")
                    break
            ctl.append(("module used before", bad))
    if traces:
        v, st = validate_traces("Trace_EmitOrder", "Trace_EmitOrder", traces + [b for _, b in ctl])
        c.add_stats(st, "Trace_EmitOrder/build", len(traces))
        for (verdict, detail), (lib, label, linkfail) in zip(v[:len(traces)], tmeta):
            if verdict != "ACCEPT":
                import re
                key = re.sub(r"\s+", "_", "build:%s:%s" % (label, re.sub(r"\d+", "N", detail)[:80]))
                c.violation(key, "build of the generated %s files: %s" % (label, detail), {"library": lib, "detail": detail})
        for (what, _), (verdict, detail) in zip(ctl, v[len(traces):]):
            if verdict != "REJECT" or what not in detail:
                raise MachineryError("negative control %r not rejected: %s %s" % (what, verdict, detail))
    c.part("libgen", libraries=len(uniq), **{k.replace(":", "_").replace("=", "_"): v for k, v in sorted(cover.items())})
    c.sample({"library": uniq[0]})
    if not cover.get("compile-fortran") or not cover.get("link"):
        raise MachineryError("exploration compiled no Fortran / linked nothing: %r" % cover)


def main():
    tier = common.tier_from_argv()
    with Check(PROP, tier, level="exploration") as c:
        c.assumptions += [
            "toolchain: gcc/g++/gfortran 12.2 (-std=c99 / -std=c++11 / free form with -cpp), CPython 3.12 headers and libpython, "
            "no Lua installed: harness/rt/luastub headers (compile + link against the emulation)",
            "domain: descriptions reachable in specs/LibGen.tla (rows of harness/rt/cases.py) and the upstream corpus",
        ]
        r, bad = model_check("MC_EmitOrder", "MC_EmitOrder_" + tier)
        c.add_tlc(r, "MC_EmitOrder_" + tier)
        if bad:
            c.violation("model:" + bad, "EmitOrder invariant %s violated" % bad, {"tlc": r.out[-3000:]})
        run_gather(c, tier)
        run_requests(c, tier)
        explore(c, tier)
        sys.path.insert(0, os.path.dirname(os.path.abspath(__file__)))
        import c05_corpus
        c05_corpus.run(c, tier)
        c.cov["rule"] = ("descriptions reachable in LibGen.tla sampled by TLC -simulate (seeded); every file Shroud writes is compiled and linked; "
                         "upstream corpus rebuilt with upstream Makefiles against fresh output. non-trivial = distinct description whose "
                         "generated files were compiled and reached the link step")
        c.finish()
    return 0


if __name__ == "__main__":
    sys.exit(main())
