"""C16 -- documentation and debug options change comments only.

1. TLC model-checks Lockstep: the lock-step walk accepts exactly the pairs of
   runs that are equal file by file and chunk by chunk.
2. Conformance: every library is generated with a baseline option set and
   with variants (all 2^4 global combinations of debug, doxygen,
   show_splicer_comments, version stamp; each option and literalinclude placed
   on individual declarations, classes and namespaces); every output file is
   reduced to its comment-free token stream (harness/lexers.py) and the pair
   is walked in lock step by TLC (Trace_Lockstep).
"""
import concurrent.futures as cf
import copy
import itertools
import json
import os
import random
import sys

sys.path.insert(0, os.path.dirname(os.path.dirname(os.path.abspath(__file__))))
import common  # noqa: E402
from common import Check, model_check, validate_traces, MachineryError  # noqa: E402
import corpus  # noqa: E402
import lexers  # noqa: E402
import shroudrun  # noqa: E402

GEN_CPPIF = """
library: cppif
cxx_header: cppif.hpp
options: {wrap_python: true, wrap_lua: false}
declarations:
- decl: void over(int a)
  cpp_if: ifdef HAVE_INT
  doxygen: {brief: integer overload, description: "Long text\\nover two lines"}
- decl: void over(double a)
  doxygen: {brief: double overload}
- decl: void over(const std::string & a)
  cpp_if: if defined(HAVE_STRING)
- decl: int plain(int n = 1, double x = 0.5)
  default_arg_suffix: [_a, _b, _c]
- decl: class Holder
  cpp_if: if defined(HAVE_HOLDER)
  declarations:
  - decl: Holder()
  - decl: ~Holder()
  - decl: const std::string & name() const
    doxygen: {brief: the name}
  - decl: void resize(int n)
    cpp_if: ifdef HAVE_RESIZE
- decl: namespace inner
  declarations:
  - decl: double twice(double x)
  - decl: void fill(double * v +intent(out)+dimension(n), int n)
splicer_code:
  c:
    CXX_declarations: ["typedef int user_cxx_decl_t;"]
    CXX_definitions: ["static int user_cxx_def = 1;"]
    C_declarations: ["typedef int user_c_decl_t;"]
    C_definitions: ["static int user_c_def = 2;"]
    function:
      plain_a: ["// user splicer", "return 7;"]
    class:
      Holder:
        CXX_definitions: ["static int user_holder_def = 3;"]
    namespace:
      inner:
        CXX_definitions: ["static int user_inner_def = 4;"]
  f:
    file_top: ["#define CPPIF_USER_LEVEL 2"]
    module_use: ["use iso_c_binding, only : C_SIZE_T"]
    module_top: ["integer, parameter :: USERCONST = 20"]
    additional_interfaces: ["subroutine user_iface() bind(C)", "end subroutine user_iface"]
    additional_functions: ["subroutine user_sub()", "end subroutine user_sub"]
    namespace:
      inner:
        file_top: ["#define CPPIF_INNER_LEVEL 3"]
        module_top: ["integer, parameter :: INNERCONST = 30"]
"""

GLOBAL = ["debug", "doxygen", "show_splicer_comments"]


def libraries(base, thorough):
    libs = []
    d = os.path.join(base, "gen")
    os.makedirs(d)
    with open(os.path.join(d, "cppif.yaml"), "w") as f:
        f.write(GEN_CPPIF)
    libs.append(("gen_cppif", os.path.join(d, "cppif.yaml"), []))
    # the wide member of the TLA+ grammar (specs/LibGenPairs.tla): every pairing of parameter rows and result rows,
    # wrapped for C, Fortran and Python (rows the Python wrapper supports), and for Lua (its rows)
    from rt import libgen
    sets = libgen.cfg_sets()
    for tag, lib in (("wide_py", libgen.wide_library(sets["PyRows"], wrap_python=True)),
                     ("wide_lua", libgen.wide_library(sets["LuaRows"], wrap_lua=True)))[:2 if thorough else 1]:
        wd = os.path.join(base, tag + "_src")
        libgen.materialise(wd, lib)
        libs.append((tag, os.path.join(wd, "sub.yaml"), []))
    names = ["tutorial", "classes", "strings", "clibrary"]
    ts = {t.name: t for t in corpus.tests()}
    if thorough:
        names = [n for n in ts if n != "none"]
    for n in names:
        t = ts[n]
        cmd = [a for a in t.cmdline]
        # command-line --option of the corpus configuration stay, except the options under test
        clean = []
        k = 0
        while k < len(cmd):
            if cmd[k] == "--option" and cmd[k + 1].split("=")[0] in GLOBAL + ["literalinclude", "literalinclude2"]:
                k += 2
                continue
            clean.append(cmd[k])
            k += 1
        libs.append((n, os.path.join(corpus.INPUT, t.yaml), clean))
    return libs


def decl_nodes(y):
    """All dicts of the description that declare something (functions, classes, namespaces, blocks)."""
    out = []

    def walk(lst):
        for d in lst or []:
            if isinstance(d, dict) and ("decl" in d or "block" in d):
                out.append(d)
                walk(d.get("declarations"))
    walk(y.get("declarations"))
    return out


def variant_yaml(y0, glob, place=None):
    y = copy.deepcopy(y0)
    y.setdefault("options", {})
    if not isinstance(y["options"], dict):
        y["options"] = {}
    for k in GLOBAL:
        y["options"][k] = bool(glob.get(k, False))
    y["options"].pop("literalinclude", None)
    y["options"].pop("literalinclude2", None)
    for d in decl_nodes(y):
        if isinstance(d.get("options"), dict):
            for k in GLOBAL + ["literalinclude"]:
                d["options"].pop(k, None)
    if place is not None:
        idx, opt = place
        d = decl_nodes(y)[idx]
        d.setdefault("options", {})
        d["options"][opt] = True
    return y


def generate(base, tag, lib, y, version):
    import yaml

    name, ypath, cmd = lib
    d = os.path.join(base, tag)
    out = os.path.join(d, "out")
    os.makedirs(out)
    yp = os.path.join(d, os.path.basename(ypath))
    with open(yp, "w") as f:
        yaml.safe_dump(y, f, default_flow_style=False, sort_keys=False)
    argv = ["--path", corpus.INPUT, "--outdir", out, "--logdir", d,
            "--write-version" if version else "--nowrite-version"] + cmd + [yp]
    rc, so, se = shroudrun.run(argv)
    if rc != 0:
        return None, se[-500:]
    files = {}
    for rel, data in shroudrun.read_tree(out).items():
        # setup.py embeds the --outdir string; runs use different scratch directories
        files[rel] = data.decode("utf-8", "replace").replace(out, "<OUTDIR>")
    return files, ""


def streams(files, intern):
    res = []
    for name in sorted(files):
        toks = lexers.lex_file(name, files[name])
        ids = [intern.setdefault(t, len(intern) + 1) for t in toks]
        res.append({"name": name, "chunks": [ids[i:i + 48] for i in range(0, len(ids), 48)], "toks": toks})
    return res


def run(tier):
    with Check("C16", tier) as c:
        rng = random.Random(common.seed())
        thorough = tier == "thorough"
        c.assumptions += ["harness/lexers.py (comment removal and tokenisation for C/C++, free-form Fortran, "
                          "Python, YAML) is trusted; its behaviour is exercised by negative controls",
                          "library-level literalinclude / literalinclude2 are excluded (documented to regroup interface blocks)"]
        r, bad = model_check("MC_Lockstep", "MC_Lockstep", require_actions=("Start", "Both", "Done"), timeout=900)
        c.add_tlc(r, "MC_Lockstep")
        if bad:
            c.violation("model:" + bad, "design-level invariant %s violated" % bad, {"tlc_tail": r.out[-3000:]})
        import yaml

        jobs = []
        with common.scratch("c16-") as base:
            libs = libraries(base, thorough)
            for lib in libs:
                y0 = yaml.safe_load(open(lib[1]))
                nd = len(decl_nodes(y0))
                variants = []
                for bits in itertools.product([False, True], repeat=4):
                    if not thorough and lib[0].startswith("wide") and sum(bits) not in (0, 1, 4):
                        continue        # quick: baseline, each option alone, all together
                    g = dict(zip(GLOBAL, bits[:3]))
                    variants.append((g, bits[3], None))
                places = [(i, o) for i in range(nd) for o in GLOBAL[:2] + ["literalinclude"]]
                if not thorough and lib[0] != "gen_cppif":
                    places = rng.sample(places, min(len(places), 8 if not lib[0].startswith("wide") else 12))
                elif len(places) > 150:
                    places = rng.sample(places, 150)
                for pl in places:
                    variants.append(({}, False, pl))
                for k, (g, ver, pl) in enumerate(variants):
                    jobs.append((lib, "%s_%d" % (lib[0], k), g, ver, pl, y0))

            def one(j):
                lib, tag, g, ver, pl, y0 = j
                return j, generate(base, tag, lib, variant_yaml(y0, g, pl), ver)
            with cf.ThreadPoolExecutor(common.NCPU) as ex:
                res = list(ex.map(one, jobs))
        by_lib = {}
        for (lib, tag, g, ver, pl, y0), (files, err) in res:
            label = "%s:%s:%s%s" % (lib[0], ",".join(k for k in GLOBAL if g.get(k)) or "-", "version" if ver else "noversion",
                                    (":decl%d.%s" % pl) if pl else "")
            if files is None:
                c.violation("run-fails:" + label, "generation fails: " + err, {"label": label})
                continue
            by_lib.setdefault(lib[0], []).append((label, files, (g, ver, pl)))
        traces = []
        meta = []
        intern = {}
        for name, runs in by_lib.items():
            base_run = [r for r in runs if not any(r[2][0].values()) and not r[2][1] and r[2][2] is None]
            if not base_run:
                raise MachineryError("baseline run missing for " + name)
            b = streams(base_run[0][1], intern)
            for (label, files, cfg) in runs:
                if label == base_run[0][0]:
                    continue
                a = streams(files, intern)
                names_a = [{"name": x["name"], "chunks": []} for x in a]
                names_b = [{"name": x["name"], "chunks": []} for x in b]
                traces.append({"a": names_b, "b": names_a})
                meta.append((label, None, None, None))
                amap = {x["name"]: x for x in a}
                for xb in b:
                    xa = amap.get(xb["name"])
                    if xa is None:
                        continue
                    if xa["chunks"] == xb["chunks"]:
                        # identical streams need no walk; counted, and a sample is still walked by TLC
                        if rng.random() > (0.25 if thorough else 0.1):
                            c.count(1)
                            continue
                    traces.append({"a": [{"name": xb["name"], "chunks": xb["chunks"]}],
                                   "b": [{"name": xa["name"], "chunks": xa["chunks"]}]})
                    meta.append((label, xb["name"], xb["toks"], xa["toks"]))
        # negative controls
        controls = []
        for t in traces:
            if t["a"] and t["a"][0]["chunks"] and t["a"] == t["b"] and len(controls) < 3:
                k = json.loads(json.dumps(t))
                k["b"][0]["chunks"][-1] = k["b"][0]["chunks"][-1] + [999999]
                controls.append(k)
        # lexer controls: a comment-only change must vanish, a code change must not
        la = lexers.lex_c("int a; // c1\n/* x */ #ifdef A\nint b;\n#endif\n")
        lb = lexers.lex_c("int a;\n#ifdef A /* y */\nint b; // z\n#endif\n")
        lc = lexers.lex_c("int a;\n#ifdef B\nint b;\n#endif\n")
        fa = lexers.lex_fortran("x = 1 ! c\ncall f(a, &\n   b)\n")
        fb = lexers.lex_fortran("! only comment\nX = 1\ncall f(a, b) ! t\n")
        fc_ = lexers.lex_fortran("x = 1\ncall f(a)\n")
        if la != lb or la == lc or fa != fb or fa == fc_:
            raise MachineryError("lexer self-test failed")
        verdicts, st = validate_traces("Trace_Lockstep", "Trace_Lockstep", traces + controls, shard=300)
        c.add_stats(st, "trace_validation", len(traces))
        cnt = {}
        for i, t in enumerate(traces):
            v, detail = verdicts[i]
            cnt[v] = cnt.get(v, 0) + 1
            label, fname, tb, ta = meta[i]
            if v == "REJECT":
                ctx = None
                if fname is not None:
                    m = [s for s in detail.replace(",", " ").split() if s.isdigit()]
                    if len(m) >= 2:
                        pos = (int(m[-2]) - 1) * 48 + int(m[-1]) - 1
                        ctx = {"baseline": " ".join(tb[max(0, pos - 12):pos + 12]), "variant": " ".join(ta[max(0, pos - 12):pos + 12])}
                parts = label.split(":")
                key = "pair:%s:%s" % (":".join(parts[:1] + parts[1:2]) if len(parts) < 4 else parts[0] + ":" + parts[3].split(".")[-1], fname or "file-set")
                c.violation(key, "%s: %s" % (label, detail), {"label": label, "file": fname, "context": ctx})
            else:
                c.count(1, [label + ":" + (fname or "names")])
        for i, k in enumerate(controls):
            v, detail = verdicts[len(traces) + i]
            if v != "REJECT":
                raise MachineryError("negative control %d not rejected: %s %s" % (i, v, detail))
        c.part("conformance", libraries=len(by_lib), runs=len(res), walked_pairs=len(traces), verdicts=cnt,
               negative_controls_rejected=len(controls), distinct_tokens=len(intern))
        c.cov["rule"] = ("per library: baseline (all options off, no version stamp) vs the 15 other global combinations of "
                         "debug/doxygen/show_splicer_comments/version stamp, and vs each option and literalinclude placed on "
                         "single declarations (all of them for the generated cpp_if library, sampled for corpus libraries "
                         "in quick); every file pair whose streams differ is walked by TLC, identical ones are sampled. "
                         "non-trivial = walked pair")
        c.sample({"libraries": sorted(by_lib), "example_label": meta[0][0]})
        c.finish()


if __name__ == "__main__":
    run(common.tier_from_argv())
