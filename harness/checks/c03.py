"""C03 -- the generated Python extension is call-equivalent to the wrapped library.

1. TLC model-checks PyDispatch (every positional/keyword split binds the same
   values and selects the same overload; the C++ arity covers intent(out)
   parameters in front of omitted defaults; first matching overload wins) and
   CallBridge (the call contract).
2. Conformance: the real Shroud wraps an instrumented C++ library for Python;
   the extension is compiled against the Python 3.12 headers and imported; a
   driver executes a plan of calls -- every arity, every positional/keyword
   split, boundary values, wrongly typed / missing / surplus / unknown /
   duplicated arguments, overload sets, a class with constructor and methods --
   and logs results or exception classes; the library logs what it receives;
   TLC validates every call (Trace_PyDispatch).
"""
import json
import os
import random
import sys

sys.path.insert(0, os.path.dirname(os.path.dirname(os.path.abspath(__file__))))
import common  # noqa: E402
from common import Check, model_check, validate_traces, MachineryError  # noqa: E402
from rt import pygen  # noqa: E402


def run(tier):
    with Check("C03", tier) as c:
        rng = random.Random(common.seed())
        thorough = tier == "thorough"
        c.assumptions += ["numpy-free subset: scalars, bool, const char*, std::string in/inout/out, pointers and references "
                          "as in/out/inout scalars, default arguments, overloads, a class",
                          "supplied arguments form a prefix of the input parameters (keyword calls that skip an earlier "
                          "defaulted parameter are not in the plan)",
                          "driver and library write to one flushed trace file in one process"]
        for mod, acts in (("MC_PyDispatch", ()), ("MC_CallBridge", ("DoInvoke", "DoEnter", "DoExit", "DoReturn"))):
            r, bad = model_check(mod, mod, require_actions=acts, timeout=900)
            c.add_tlc(r, mod)
            if bad:
                c.violation("model:%s:%s" % (mod, bad), "design-level invariant %s violated" % bad, {"tlc_tail": r.out[-3000:]})
        cases = pygen.py_cases()
        plan = pygen.make_plan(cases, 4 if thorough else 2, rng) + pygen.class_plan()
        # the wide member of the TLA+ grammar (specs/LibGenPairs.tla) restricted to the rows the Python plan can
        # drive, with a default value on every trailing by-value parameter: every pairing of argument kinds, each
        # called with and without its defaulted argument, positionally and by keyword
        from rt import libgen
        wide = libgen.cases_of(libgen.wide_library(pygen.PY_ROWS & libgen.cfg_sets()["PyRows"], defaults=True),
                               pygen.PY_ROWS, pygen.PY_RESULTS)
        wplan = pygen.make_plan(wide, 3 if thorough else 1, rng)
        with common.scratch("c03-") as d:
            ok, err = pygen.build_ext(d, cases)
            if ok is None:
                c.violation("build", "extension does not build: " + err, {"error": err})
                c.finish()
            res = pygen.run_plan(d, plan)
            members = pygen.run_members(d)
            dw = os.path.join(d, "wide")
            ok, err = pygen.build_ext(dw, wide)
            dropped = []
            KNOWN = ("declared as reference but not initialized", "SH_a' was not declared in this scope",
                     "SH_b' was not declared in this scope")
            if ok is None and any(k in err.replace("\u2018", "'").replace("\u2019", "'") for k in KNOWN):
                # known findings recorded under C05 (Python wrapper of a 'const std::string &' result whose call can
                # 'goto fail' declares an uninitialised reference; std::string inout/out argument together with a
                # default argument is declared inside the case block and used after it): those functions cannot be
                # compiled, so they cannot be called either; the rest of the library is still driven
                import re
                full = open(os.path.join(dw, "compile.log")).read() if os.path.exists(os.path.join(dw, "compile.log")) else err
                cur, badf = None, set()
                for line in full.splitlines():
                    m = re.search(r"In function .*\bPY_(\w+?)(?:_\d+)?\(", line)
                    if m:
                        cur = m.group(1)
                    if any(k in line.replace("\u2018", "'").replace("\u2019", "'") for k in KNOWN) and cur:
                        badf.add(cur)
                dropped = sorted(badf)
                wide = [x for x in wide if x["name"] not in badf]
                wplan = pygen.make_plan(wide, 3 if thorough else 1, rng)
                import shutil
                shutil.rmtree(dw, ignore_errors=True)
                ok, err = pygen.build_ext(dw, wide)
            c.part("wide", functions=len(wide), not_compilable_known_finding_C05=dropped)
            if ok is None:
                c.violation("build-wide", "extension of the wide library does not build: " + err[:600], {"error": err})
                c.finish()
            res += pygen.run_plan(dw, wplan)
            # the same kind of library declared as C (language: c): rows of LibGen's CRows / CResults, no overloads,
            # no default arguments
            sets = libgen.cfg_sets()
            crows, cres = sets["CRows"] & pygen.PY_ROWS, sets["CResults"] & pygen.PY_RESULTS
            seen = set()
            ccases = []
            for x in cases + [w for w in wide if len(w["params"]) <= 2][::7]:
                if x["name"] in seen or any("default" in p_ for p_ in x["params"]) or x.get("template"):
                    continue
                if sum(1 for y_ in cases if y_["name"] == x["name"]) > 1:
                    continue
                if all(p_["kind"] in crows for p_ in x["params"]) and x["result"] in cres:
                    seen.add(x["name"])
                    ccases.append(x)
            cplan = pygen.make_plan(ccases, 3 if thorough else 2, rng)
            dc = os.path.join(d, "clang")
            ok, err = pygen.build_ext(dc, ccases, language="c")
            if ok is None:
                c.violation("build-c", "extension of the C library does not build: " + err[:600], {"error": err})
                c.finish()
            res += pygen.run_plan(dc, cplan)
            c.part("c_library", functions=len(ccases), calls=len(cplan))
        plan = plan + wplan + cplan
        traces = []
        for p, r in zip(plan, res):
            if r is None:
                raise MachineryError("no record for call " + p["label"])
            t = dict(p["tla"])
            t["events"] = r["events"]
            t["exc"] = r["exc"]
            t["ret"] = r["ret"]
            t["refs"] = r.get("refs") or {"args": [], "res": []}
            traces.append(t)
        controls = []
        for t in traces:
            if t["exc"] == "" and t["ret"] and len(controls) < 3:
                k = json.loads(json.dumps(t))
                k["ret"] = k["ret"][:-1]
                controls.append(k)
            if t["exc"] in ("TypeError", "ValueError") and not t["events"] and len(controls) < 5:
                k = json.loads(json.dumps(t))
                k["exc"] = "SystemError"
                controls.append(k)
        verdicts, st = validate_traces("Trace_PyDispatch", "Trace_PyDispatch", traces + controls, shard=1500)
        c.add_stats(st, "trace_validation", len(traces))
        cnt = {}
        for i, t in enumerate(traces):
            v, detail = verdicts[i]
            cnt[v] = cnt.get(v, 0) + 1
            p = plan[i]
            if v == "REJECT":
                name = p["call"].get("name") or p["call"].get("kind")
                shape = "%dpos+%s" % (len(p["call"]["pos"]), ",".join(sorted(p["call"]["kw"])) or "nokw")
                d0 = detail.split('"')[1] if '"' in detail else detail
                key = "call:%s:%s:%s" % (name, shape, d0[:50])
                if d0.startswith("exception raised after"):
                    key = "call:%s:exception-after-call:%s" % (name, t["exc"])
                    # the known PY_SSIZE_T_CLEAN finding is a class of signatures, not one function: the call
                    # returns a tuple (two or more values) one of which is a std::string ("s#" in Py_BuildValue)
                    sigs = [cd["sig"] for cd in t["cands"]]
                    def tuple_with_string(sg):
                        outs = ([sg["result"]] if sg["result"] != "none" else []) + \
                               [q["ty"] for q in sg["params"] if q["intent"] in ("out", "inout")]
                        return len(outs) >= 2 and "str" in outs
                    if t["exc"] == "SystemError" and all(tuple_with_string(sg) for sg in sigs):
                        key = "call:tuple-with-string:exception-after-call:SystemError"
                c.violation(key, "%s -> %s (exception %r, returned %r)" % (p["label"], detail, t["exc"], t["ret"]),
                            {"call": p["label"], "detail": detail, "exception": t["exc"], "library_events": t["events"], "returned": t["ret"],
                             "crashed": res[i]["crashed"]})
            elif res[i]["crashed"] and t["exc"] != "crash":
                name = p["call"].get("name") or p["call"].get("kind")
                c.violation("call:%s:interpreter-died-after-return" % name,
                            "%s returned, then the interpreter died: %s" % (p["label"], res[i]["crashed"]),
                            {"call": p["label"], "crashed": res[i]["crashed"], "returned": t["ret"]})
            else:
                c.count(1, [p["label"]])
        for i, k in enumerate(controls):
            v, detail = verdicts[len(traces) + i]
            if v != "REJECT":
                raise MachineryError("negative control %d not rejected: %s %s" % (i, v, detail))
        common.check_members(c, [("python", members)])
        c.part("conformance", calls=len(traces), verdicts=cnt, negative_controls_rejected=len(controls),
               crashes=sum(1 for r in res if r["crashed"]))
        c.cov["rule"] = ("%d functions (scalars, bool, strings, pointers in/out/inout, defaults incl. an intent(out) parameter "
                         "before a default, overloads) x every arity x every positional/keyword split x boundary values, "
                         "plus surplus / unknown / missing / duplicated / wrongly typed arguments, plus a class. "
                         "non-trivial = distinct accepted call" % len(cases))
        c.sample({"call": plan[3]["label"], "events": traces[3]["events"], "returned": traces[3]["ret"]})
        c.finish()


if __name__ == "__main__":
    run(common.tier_from_argv())
