"""C08 -- every callable C++ signature gets exactly one, distinct wrapper name.

1. TLC model-checks Naming: the expansion machine (Defaults, Number,
   Templates, Generics) produces exactly one entry per callable signature and
   no two names coincide, for every admitted scope of up to 2 (thorough 3)
   declared functions.
2. Conformance: the same scopes (and sampled larger ones, CamelCase names,
   namespace scope) are written as YAML and run through the real Shroud; the
   C function definitions, Fortran interfaces / specifics / generic
   interfaces, PyMethodDef and luaL_Reg tables are read back from the
   generated files and judged by TLC (Trace_Naming).
"""
import concurrent.futures as cf
import itertools
import json
import os
import random
import re
import sys

sys.path.insert(0, os.path.dirname(os.path.dirname(os.path.abspath(__file__))))
import common  # noqa: E402
from common import Check, enc, model_check, validate_traces, MachineryError  # noqa: E402
import shroudrun  # noqa: E402

CTYPE = {"int": "int", "double": "double", "long": "long", "float": "float"}
FTYPE = {"integer(c_int)": "int", "real(c_double)": "double", "integer(c_long)": "long", "real(c_float)": "float"}
DEFVALS = {"int": ["1", "0", "42"], "double": ["1.5", "0.0", "0"], "long": ["2", "0"], "float": ["0.5", "0.0"]}


def F(name, params, ndef=0, sfx="", dsfx=(), insts=(), gens=()):
    return {"name": name, "params": list(params), "ndef": ndef, "sfx": sfx, "dsfx": list(dsfx),
            "insts": [dict(i) for i in insts], "gens": [dict(g) for g in gens]}


def choices(names):
    plist = [(), ("int",), ("double",), ("int", "double"), ("int", "double", "long")]
    out = []
    for n in names:
        for p in plist:
            for d in range(0, min(2, len(p)) + 1):
                for s in ("", "_x", "_y"):
                    for ds in ((), ("_a",), ("_a", "_b"), ("_a", "_b", "_c")):
                        out.append(F(n, p, d, s, ds))
        for ts in ("", "_dbl"):
            out.append(F(n, ("T",), insts=[{"ty": "int", "sfx": ""}, {"ty": "double", "sfx": ts}]))
        for gs in ("", "_flt"):
            out.append(F(n, ("double",), gens=[{"params": ["float"], "sfx": gs}, {"params": ["double"], "sfx": ""}]))
    return out


def sigs(fs):
    res = []
    for f in fs:
        n = len(f["params"])
        for k in range(n - f["ndef"], n + 1):
            if f["insts"]:
                for i in f["insts"]:
                    res.append((f["name"], tuple(i["ty"] if p == "T" else p for p in f["params"][:k])))
            else:
                res.append((f["name"], tuple(f["params"][:k])))
    return res


def admitted(fs):
    for f in fs:
        if f["ndef"] > len(f["params"]):
            return False
        if f["ndef"] > 0 and f["sfx"]:
            return False
        if f["dsfx"] and not (f["ndef"] >= 1 and len(f["dsfx"]) <= f["ndef"] + 1 and not f["sfx"]):
            return False
    for i, a in enumerate(fs):
        for j, b in enumerate(fs):
            if i != j and a["name"] == b["name"]:
                if a["sfx"] and b["sfx"] and a["sfx"] == b["sfx"]:
                    return False
                if a["dsfx"] and b["dsfx"]:
                    return False
                if a["insts"] or b["insts"] or a["gens"] or b["gens"]:
                    return False
                if (a["sfx"] == "") != (b["sfx"] == ""):
                    if not (a["dsfx"] or b["dsfx"]):
                        return False
                if a["dsfx"] and not b["sfx"]:
                    return False
                if b["dsfx"] and not a["sfx"]:
                    return False
    s = sigs(fs)
    return len(set(s)) == len(s)


def yaml_of(fs, scope, libname):
    decls = []
    vr = random.Random(libname + str(common.seed()))     # default values vary with the scope
    for f in fs:
        ps = []
        n = len(f["params"])
        for k, p in enumerate(f["params"]):
            t = "T" if p == "T" else CTYPE[p]
            s = "%s a%d" % (t, k + 1)
            if k >= n - f["ndef"]:
                s += " = " + vr.choice(DEFVALS[p])
            ps.append(s)
        d = {"decl": "void %s(%s)" % (f["name"], ", ".join(ps))}
        if f["insts"]:
            d["decl"] = "template<typename T> " + d["decl"]
            d["cxx_template"] = []
            for i in f["insts"]:
                e = {"instantiation": "<%s>" % i["ty"]}
                if i["sfx"]:
                    e["format"] = {"template_suffix": i["sfx"]}
                d["cxx_template"].append(e)
        if f["gens"]:
            d["fortran_generic"] = []
            for g in f["gens"]:
                e = {"decl": "(%s)" % ", ".join("%s a%d" % (CTYPE[p], k + 1) for k, p in enumerate(g["params"]))}
                if g["sfx"]:
                    e["function_suffix"] = g["sfx"]
                d["fortran_generic"].append(e)
        if f["sfx"]:
            d["format"] = {"function_suffix": f["sfx"]}
        if f["dsfx"]:
            d["default_arg_suffix"] = list(f["dsfx"])
        decls.append(d)
    y = {"library": libname, "cxx_header": libname + ".hpp",
         "options": {"debug": True, "F_force_wrapper": True, "wrap_python": True, "wrap_lua": True}}
    if scope == "ns":
        y["declarations"] = [{"decl": "namespace outer", "declarations": decls}]
    elif scope == "ns2":
        y["declarations"] = [{"decl": "namespace outer", "declarations": [{"decl": "namespace inner", "declarations": decls}]}]
    elif scope == "flat":
        # a namespace folded into the module of its parent (F_flatten_namespace): Fortran names carry the namespace
        y["options"]["F_flatten_namespace"] = True
        y["declarations"] = [{"decl": "namespace inner1", "declarations": decls}]
    elif scope == "class":
        # methods of a class: C names carry the class, Fortran has type-bound generics
        y["options"]["wrap_python"] = False
        y["options"]["wrap_lua"] = False
        y["declarations"] = [{"decl": "class Cone", "declarations": decls}]
    else:
        y["declarations"] = decls
    return y


def rank_generic_scopes():
    """Scopes with a fortran_generic entry that turns a scalar argument into an array (docs/fortran.rst "Scalar and
    Array Arguments"), alone, inside an overload set, with a default argument, with explicit suffixes.
    -> list of (declarations, names)"""
    out = []
    for gsfx in (None, ("_scalar", "_array")):
        gens = [{"decl": "(int *a1)"}, {"decl": "(int *a1 +rank(1))"}]
        if gsfx:
            gens[0]["function_suffix"], gens[1]["function_suffix"] = gsfx
        a = {"decl": "void alpha(int *a1 +intent(in), int n)", "fortran_generic": gens}
        b = {"decl": "void alpha(double *a1 +intent(in), int n)"}
        d = {"decl": "void alpha(int *a1 +intent(in), int n = 1)", "fortran_generic": gens}
        x = dict(a, format={"function_suffix": "_x"})
        other = {"decl": "void Beta(int a1)"}
        for decls in ([a], [a, b], [b, a], [b, a, {"decl": "void alpha(long *a1 +intent(in), int n)"}], [d], [d, other], [x],
                      [x, dict(b, format={"function_suffix": "_y"})], [other, a, {"decl": "void Beta(double a1)"}]):
            out.append(([dict(e) for e in decls], sorted({e["decl"].split("(")[0].split()[-1] for e in decls})))
    return out


def result_arg_scopes():
    """Functions whose character result is passed back through an argument (format F_string_result_as_arg,
    docs/fortran.rst), overloaded / with default arguments / with explicit suffixes: with F_CFI the clone that Fortran
    calls carries the suffix of its function as without.  -> list of (declarations, names)"""
    out = []
    ra = {"F_string_result_as_arg": "output"}
    a = {"decl": "const std::string & alpha(int a1)", "format": dict(ra)}
    b = {"decl": "const std::string & alpha(double a1)", "format": dict(ra)}
    d = {"decl": "const char * alpha(int a1, int a2 = 1)", "format": dict(ra)}
    x = {"decl": "const std::string & alpha(int a1)", "format": dict(ra, function_suffix="_from_index")}
    y_ = {"decl": "const std::string & alpha(const std::string & a1)", "format": dict(ra, function_suffix="_from_name")}
    other = {"decl": "void Beta(int a1)"}
    for decls in ([a], [a, b], [d], [x, y_], [a, b, other], [d, other]):
        out.append(([json.loads(json.dumps(e)) for e in decls], sorted({e["decl"].split("(")[0].split()[-1] for e in decls})))
    return out


def one_rank(job):
    decls, names, scope, idx, base = job[:5]
    more_options = job[5] if len(job) > 5 else {}
    libname = "rlib%d" % idx
    import yaml

    d = os.path.join(base, libname)
    os.makedirs(d)
    y = {"library": libname, "cxx_header": libname + ".hpp",
         "options": dict({"debug": True, "F_force_wrapper": True, "wrap_python": False, "wrap_lua": False}, **more_options)}
    y["declarations"] = [{"decl": "namespace outer", "declarations": decls}] if scope == "ns" else decls
    yp = os.path.join(d, libname + ".yaml")
    with open(yp, "w") as f:
        yaml.safe_dump(y, f, default_flow_style=False, sort_keys=False)
    out = os.path.join(d, "out")
    os.makedirs(out)
    rc, so, se = shroudrun.run(["--outdir", out, "--logdir", out, yp])
    fs = [F(n, ("int",)) for n in names]
    if rc != 0:
        return {"funcs": fs, "scope": scope, "error": se[-800:], "yaml": y}
    t = build_trace(fs, scope, libname, out)
    t["scope"] = scope
    t["relaxed"] = True
    t["yaml"] = y
    return t


def join_cont(lines, cont):
    out, cur = [], ""
    for l in lines:
        s = l.rstrip()
        if cont and s.endswith("&"):
            cur += s[:-1] + " "
        else:
            out.append(cur + s)
            cur = ""
    if cur:
        out.append(cur)
    return out


def read_tables(outdir, libname):
    crows, frows, generics, py, lua = [], [], [], [], []
    # --- C definitions
    for fn in sorted(os.listdir(outdir)):
        p = os.path.join(outdir, fn)
        if fn.startswith("wrap") and (fn.endswith(".cpp") or fn.endswith(".c")):
            lines = open(p).read().split("\n")
            i = 0
            cur = None
            while i < len(lines):
                m = re.match(r"// Function:\s+(.*)$", lines[i])
                if m:
                    cur = m.group(1).split("+")[0].split()[-1]
                elif cur and re.match(r"^[A-Za-z_]", lines[i]) and "(" in lines[i] and not lines[i].startswith("//"):
                    proto = lines[i]
                    while ")" not in proto:
                        i += 1
                        proto += " " + lines[i].strip()
                    mm = re.match(r"^(.*?)\b(\w+)\((.*)\)\s*$", proto)
                    if mm:
                        params = [x.strip() for x in mm.group(3).split(",")]
                        if params == ["void"] or params == [""]:
                            params = []
                        # (a declarator written without blanks, `char *s`, keeps its stars with the type)
                        types = [" ".join(re.sub(r"([*&]+)(\w+)$", r"\1 \2", x).split()[:-1]) for x in params]
                        crows.append({"name": cur, "params": types, "cname": mm.group(2)})
                    cur = None
                i += 1
        if fn.startswith("wrapf") and fn.endswith(".f"):
            lines = join_cont(open(p).read().split("\n"), True)
            iface = {}
            tbind = {}
            k = 0
            in_contains = False
            in_type = False
            while k < len(lines):
                l = lines[k].strip()
                low = l.lower()
                if re.match(r"type\s*(,[^:]*)?(::)?\s*\w+\s*$", low) and not low.startswith("type("):
                    in_type = True
                elif re.match(r"end\s+type", low):
                    in_type = False
                if low == "contains" and not in_type:
                    in_contains = True
                m = re.match(r"(?:.*\s)?(function|subroutine)\s+(\w+)\s*\((.*?)\).*bind\(c,\s*name=\"(\w+)\"\)", l, re.I)
                if m and not in_contains:
                    iface[m.group(2).lower()] = m.group(4)
                # type-bound: procedure :: binding => specific ; generic :: name => binding, binding
                m = re.match(r"procedure\s*(?:,\s*\w+(?:\(\w*\))?\s*)*::\s*(\w+)\s*=>\s*(\w+)", l, re.I)
                if m and not in_contains:
                    tbind[m.group(1).lower()] = m.group(2).lower()
                m = re.match(r"generic\s*::\s*(\w+)\s*=>\s*(.*)$", l, re.I)
                if m and not in_contains:
                    generics.append({"gname": m.group(1).lower(),
                                     "members": [tbind.get(x.strip().lower(), x.strip().lower()) for x in m.group(2).split(",") if x.strip()]})
                m = re.match(r"interface\s+(\w+)", l, re.I)
                if m and not in_contains:
                    g = {"gname": m.group(1).lower(), "members": []}
                    k += 1
                    while not re.match(r"end\s+interface", lines[k].strip(), re.I):
                        mm = re.match(r"module procedure\s+(\w+)", lines[k].strip(), re.I)
                        if mm:
                            g["members"].append(mm.group(1).lower())
                        k += 1
                    generics.append(g)
                m = re.match(r"(?:.*\s)?(function|subroutine)\s+(\w+)\s*\((.*?)\)", l, re.I)
                if m and in_contains and not low.startswith("end"):
                    fname = m.group(2).lower()
                    args = [a.strip().lower() for a in m.group(3).split(",") if a.strip()]
                    types = {}
                    called = None
                    k += 1
                    while not re.match(r"end\s+(function|subroutine)", lines[k].strip(), re.I):
                        b = lines[k].strip()
                        md = re.match(r"([\w() ]+?)\s*(?:,.*)?::\s*(.*)$", b)
                        if md:
                            for v in md.group(2).split(","):
                                types[v.strip().lower()] = md.group(1).strip().lower().replace(" ", "")
                        for w in re.findall(r"\b(\w+)\s*\(", b):
                            if w.lower() in iface:
                                called = iface[w.lower()]
                        mc = re.match(r"call\s+(\w+)\s*$", b, re.I)
                        if mc and mc.group(1).lower() in iface:
                            called = iface[mc.group(1).lower()]
                        k += 1
                    frows.append({"fname": fname, "params": [FTYPE.get(types.get(a, "?"), types.get(a, "?")) for a in args],
                                  "cname": called or "?"})
                k += 1
        if fn.startswith("py") and fn.endswith("module.cpp"):
            txt = open(p).read()
            m = re.search(r"static PyMethodDef \w+\[\] = \{(.*?)\};", txt, re.S)
            if m:
                py = re.findall(r'\{"(\w+)"', m.group(1))
        if fn.startswith("lua") and fn.endswith("module.cpp"):
            txt = open(p).read()
            for m in re.finditer(r"static const struct luaL_Reg \w+\s*\[\] = \{(.*?)\};", txt, re.S):
                lua += re.findall(r'\{"(\w+)"', m.group(1))
    return crows, frows, generics, py, lua


def un_camel_ref(s):
    return s


def build_trace(fs, scope, libname, outdir):
    crows, frows, generics, py, lua = read_tables(outdir, libname)
    cprefix = libname[:3].upper() + "_" + {"ns": "outer_", "ns2": "outer_inner_", "class": "Cone_", "flat": "inner1_"}.get(scope, "")
    fprefix = {"class": "cone_", "flat": "inner1_"}.get(scope, "")
    gprefix = "" if scope == "class" else fprefix
    if scope == "class":
        # the object a method is called on is not part of the C++ signature
        for r in crows:
            if r["params"] and "Cone" in r["params"][0]:
                r["params"] = r["params"][1:]
        for r in frows:
            if r["params"] and ("cone" in r["params"][0] or r["params"][0] == "?"):
                r["params"] = r["params"][1:]
        # the class's own helpers (documented F_name_instance_get/set, F_name_associated, operators) are not
        # wrappers of declared functions
        helpers = {"cone_get_instance", "cone_set_instance", "cone_associated", "cone_eq", "cone_ne"}
        frows = [r for r in frows if r["fname"] not in helpers]
        generics = [g for g in generics if g["gname"] != "operator"]
    cname2name = {r["cname"]: r["name"] for r in crows}
    for r in crows:
        r["name_cp"] = enc(r["name"])
        r["cname_cp"] = enc(r["cname"])
        r["suffix"] = ""     # filled by the spec comparison only when the prefix matches; computed in TLA+ via Exact
    for r in frows:
        r["name"] = cname2name.get(r["cname"], "?")
        r["name_cp"] = enc(r["name"])
        r["fname_cp"] = enc(r["fname"])
    for g in generics:
        owner = [r["name"] for r in frows if r["fname"] in g["members"]]
        g["name_cp"] = enc(owner[0] if owner else "?")
        g["gname_cp"] = enc(g["gname"])
    return {"funcs": fs, "crows": crows, "frows": frows, "generics": generics, "py": py, "lua": lua,
            "cprefix": enc(cprefix), "fprefix": enc(fprefix), "gprefix": enc(gprefix)}


def one(job):
    fs, scope, idx, base = job
    libname = "lib%d" % idx
    import yaml

    d = os.path.join(base, libname)
    os.makedirs(d)
    yp = os.path.join(d, libname + ".yaml")
    with open(yp, "w") as f:
        yaml.safe_dump(yaml_of(fs, scope, libname), f, default_flow_style=False, sort_keys=False)
    out = os.path.join(d, "out")
    os.makedirs(out)
    rc, so, se = shroudrun.run(["--outdir", out, "--logdir", out, yp])
    if rc != 0:
        return {"funcs": fs, "scope": scope, "error": se[-800:]}
    t = build_trace(fs, scope, libname, out)
    t["scope"] = scope
    return t


def run(tier):
    with Check("C08", tier) as c:
        rng = random.Random(common.seed())
        thorough = tier == "thorough"
        c.assumptions += [
            "admitted scopes follow the documented usage rules (MC_Naming!Admitted): a function with default "
            "arguments is named through default_arg_suffix, explicit suffixes are distinct, overloads are either "
            "all named or all numbered, callable signatures are pairwise distinct",
            "name tables are read back from the generated files with regular expressions (debug comments give the "
            "C++ name of each C function)"]
        cfg = "MC_Naming_thorough" if thorough else "MC_Naming_quick"
        r, bad = model_check("MC_Naming", cfg, require_actions=("PDefaults", "PNumber", "PTemplates", "PGenerics"),
                             timeout=3400)
        c.add_tlc(r, cfg)
        if bad:
            c.violation("model:" + bad, "design-level invariant %s violated" % bad, {"tlc_tail": r.out[-4000:]})
        ch = choices(["alpha", "Beta"])
        scopes = []
        for a in ch:
            if admitted([a]):
                scopes.append([a])
        pairs = [[a, b] for a in ch for b in ch if admitted([a, b])]
        rng.shuffle(pairs)
        scopes += pairs[:(3000 if thorough else 250)]
        # CamelCase names of the documented forms, three functions
        camel = choices(["getName", "CamelCase", "getHTTPResponseCode"])
        tri = 0
        while tri < (1500 if thorough else 120):
            fs = [rng.choice(ch + camel) for _ in range(3)]
            if admitted(fs):
                scopes.append(fs)
                tri += 1
        # an overload set that is numbered beyond one digit (suffixes _0 .. _11), as free functions, methods and in a namespace
        plists = [(), ("int",), ("double",), ("long",), ("float",), ("int", "int"), ("int", "double"), ("double", "int"),
                  ("double", "double"), ("int", "long"), ("long", "int"), ("int", "double", "long")]
        for nm in ("alpha", "getName"):
            many = [F(nm, pl) for pl in plists]
            if not admitted(many):
                raise MachineryError("the twelve-overload scope is not admitted by MC_Naming!Admitted")
            scopes += [many, many, many]     # (placed in the lib / class / ns rotation below)
        jobs = []
        with common.scratch("c08-") as base:
            for i, fs in enumerate(scopes):
                jobs.append((fs, ["lib", "class", "ns", "flat", "ns2", "ns", "lib"][i % 7], i, base))
            rjobs = [(decls, names, "ns" if k % 2 else "lib", 100000 + k, base) for k, (decls, names) in enumerate(rank_generic_scopes())]
            for cfi in (False, True):
                rjobs += [(decls, names, "ns" if k % 2 else "lib", 200000 + 100 * cfi + k, base, {"F_CFI": cfi})
                          for k, (decls, names) in enumerate(result_arg_scopes())]
            with cf.ThreadPoolExecutor(common.NCPU) as ex:
                results = list(ex.map(one, jobs))
                results += list(ex.map(one_rank, rjobs))
        traces = []
        for t in results:
            if "error" in t:
                c.violation("run-fails:" + json.dumps(t["funcs"])[:150], "Shroud fails on an admitted scope: " + t["error"][-300:],
                            {"funcs": t["funcs"]})
            else:
                traces.append(t)
        controls = []
        for t in traces:
            if len(t["crows"]) >= 2 and len(controls) < 3:
                k = json.loads(json.dumps(t))
                k["crows"][1]["cname"] = k["crows"][0]["cname"]
                controls.append(k)
            elif len(t["frows"]) >= 2 and len(controls) < 6:
                k = json.loads(json.dumps(t))
                k["frows"] = k["frows"][:-1]
                controls.append(k)
        keep = ("funcs", "crows", "frows", "generics", "py", "lua", "cprefix", "fprefix", "gprefix")
        verdicts, st = validate_traces("Trace_Naming", "Trace_Naming", [dict({k: t[k] for k in keep}, relaxed=bool(t.get("relaxed"))) for t in traces + controls],
                                       shard=1000)
        c.add_stats(st, "trace_validation", len(traces))
        cnt = {}
        for i, t in enumerate(traces):
            v, detail = verdicts[i]
            cnt[v] = cnt.get(v, 0) + 1
            if v == "REJECT":
                c.violation("scope:" + json.dumps(t["funcs"])[:200], detail,
                            {"funcs": t["funcs"], "scope": t["scope"], "c": [(r["name"], r["params"], r["cname"]) for r in t["crows"]],
                             "fortran": [(r["name"], r["params"], r["fname"], r["cname"]) for r in t["frows"]],
                             "generics": t["generics"]})
            else:
                c.count(1, [json.dumps(t["funcs"])] if len(t["crows"]) > 1 else ())
        for i, k in enumerate(controls):
            v, detail = verdicts[len(traces) + i]
            if v != "REJECT":
                raise MachineryError("negative control %d not rejected: %s %s" % (i, v, detail))
        c.part("conformance", scopes=len(traces), verdicts=cnt, negative_controls_rejected=len(controls))
        c.cov["rule"] = ("all admitted single-function scopes, sampled admitted pairs and triples over plain / "
                         "default-argument / template / fortran_generic functions, explicit and defaulted suffixes, "
                         "library and namespace scope, CamelCase names. non-trivial = scope with >1 C entry point")
        for t in traces[5:7]:
            c.sample({"funcs": t["funcs"], "c": [r["cname"] for r in t["crows"]], "fortran": [r["fname"] for r in t["frows"]],
                      "generics": t["generics"]})
        c.finish()


if __name__ == "__main__":
    run(common.tier_from_argv())
