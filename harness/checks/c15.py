"""C15 -- wrapper selection is honoured and the file lists match what was written.

1. TLC model-checks WrapSelect over every flag combination (Fortran only with
   C), one per-declaration override and three directory assignments, with
   every order of file writes the pass structure allows.
2. Conformance: library shapes x flag combinations x overrides x directory
   assignments are run through the real command line with --cfiles/--ffiles;
   the probe reports each write_output_file call; directory listings, list
   files and the presence of each declaration in each language's output are
   collected; TLC replays the writes through the pass machine
   (Trace_WrapSelect).  Toggle pairs compare the C/Fortran files of runs that
   differ only in wrap_python/wrap_lua.  The corpus configurations are traced
   the same way.
"""
import concurrent.futures as cf
import hashlib
import itertools
import json
import os
import random
import re
import sys

sys.path.insert(0, os.path.dirname(os.path.dirname(os.path.abspath(__file__))))
import common  # noqa: E402
from common import Check, model_check, validate_traces, MachineryError  # noqa: E402
import corpus  # noqa: E402
import shroudrun  # noqa: E402

LANGS = ["c", "f", "py", "lua"]
OPT = {"c": "wrap_c", "f": "wrap_fortran", "py": "wrap_python", "lua": "wrap_lua"}
NOOV = {"has": False, "only": "all", "c": False, "f": False, "py": False, "lua": False}


def shapes():
    return {
        "funcs": lambda o2: [{"decl": "int fone(int a)"}, dict({"decl": "void ftwo(double b)"}, **o2)],
        "class": lambda o2: [{"decl": "class Cone", "declarations": [{"decl": "Cone()"}, {"decl": "int fone(int a)"}]},
                             dict({"decl": "void ftwo(double b)"}, **o2)],
        "ns": lambda o2: [{"decl": "namespace outer", "declarations": [{"decl": "int fone(int a)"}]},
                          dict({"decl": "void ftwo(double b)"}, **o2)],
        "defarg": lambda o2: [{"decl": "int fone(int a, int b = 1)"}, dict({"decl": "void ftwo(double b)"}, **o2)],
        # an overload set whose first member carries the override (its siblings keep the library flags)
        "overload": lambda o2: [dict({"decl": "void ftwo(int a)"}, **o2), {"decl": "void ftwo(double b)"},
                                {"decl": "int fone(int a)"}],
        "string": lambda o2: [{"decl": "void fone(const std::string & s)"}, dict({"decl": "void ftwo(double b)"}, **o2)],
        # results that need the library's utility file (util<lib>.cpp: capsule destructors, string / array copies)
        "utility": lambda o2: [{"decl": "const std::string & fone(int a)"},
                               {"decl": "int * fthree(int n) +owner(caller)+dimension(n)+deref(pointer)"},
                               {"decl": "class Cone", "declarations": [{"decl": "Cone()"}, {"decl": "~Cone()"}]},
                               dict({"decl": "void ftwo(double b)"}, **o2)],
        # the override sits on a namespace: its members inherit it, and the namespace gets files of its own only
        # for the languages that are on for it
        "ns-off": lambda o2: [{"decl": "int fone(int a)"},
                              dict({"decl": "namespace hidden", "declarations": [{"decl": "void ftwo(double b)"}]}, **o2)],
        # the override sits deep inside: a wrapper switched on only there still has to be written
        "ns-inner": lambda o2: [{"decl": "namespace outer", "declarations": [{"decl": "int fone(int a)"},
                                                                             dict({"decl": "void ftwo(double b)"}, **o2)]}],
        "ns-nested": lambda o2: [{"decl": "namespace outer", "declarations": [
                                     {"decl": "int fone(int a)"},
                                     {"decl": "namespace deep", "declarations": [dict({"decl": "void ftwo(double b)"}, **o2)]}]}],
        "ns-block": lambda o2: [{"decl": "namespace outer", "declarations": [
                                    {"decl": "int fone(int a)"},
                                    {"block": True, "declarations": [dict({"decl": "void ftwo(double b)"}, **o2)]}]}],
        # generated variants of the overridden declaration must keep its flags: a method returning *this
        # (return_this makes a clone returning void), a template instantiation, a fortran_generic entry
        "return_this": lambda o2: [{"decl": "class Cone", "declarations": [
                                       {"decl": "Cone()"}, dict({"decl": "Cone * ftwo(double b)", "return_this": True}, **o2)]},
                                   {"decl": "int fone(int a)"}],
        "template": lambda o2: [{"decl": "int fone(int a)"},
                                dict({"decl": "template<typename T> void ftwo(T b)",
                                      "cxx_template": [{"instantiation": "<int>"}, {"instantiation": "<double>"}]}, **o2)],
        "generic": lambda o2: [{"decl": "int fone(int a)"},
                               dict({"decl": "void ftwo(double b)",
                                     "fortran_generic": [{"decl": "(float b)", "function_suffix": "_float"},
                                                         {"decl": "(double b)", "function_suffix": "_double"}]}, **o2)],
    }


def lib_flags():
    out = []
    for c_, f_, p_, l_ in itertools.product([False, True], repeat=4):
        if f_ and not c_:
            continue
        out.append({"c": c_, "f": f_, "py": p_, "lua": l_})
    return out


def overrides():
    return [NOOV,
            {"has": True, "only": "all", "c": False, "f": False, "py": False, "lua": False},
            {"has": True, "only": "cf", "c": False, "f": False, "py": False, "lua": False},   # python/lua inherited
            {"has": True, "only": "all", "c": True, "f": True, "py": False, "lua": False},
            {"has": True, "only": "all", "c": True, "f": False, "py": True, "lua": False}]


DIRSETS = [{"cf": "o", "py": "o", "lua": "o", "yaml": "o"},
           {"cf": "cf", "py": "o", "lua": "o", "yaml": "o"},
           {"cf": "o", "py": "py", "lua": "o", "yaml": "o"},
           {"cf": "o", "py": "o", "lua": "lua", "yaml": "y"},
           {"cf": "cf", "py": "py", "lua": "lua", "yaml": "y"}]


def run_config(base, idx, shape, lib, ov, dirs, history=False):
    """history: another library (C, Fortran and Python wrappers, helpers, a class) is generated first in the same
    process, with directories and list files of its own -- the judged run must look as it does alone."""
    import yaml

    d = os.path.join(base, "r%d" % idx)
    os.makedirs(d)
    o2 = {}
    if ov["has"]:
        o2 = {"options": {OPT[k]: ov[k] for k in (LANGS if ov["only"] == "all" else ["c", "f"])}}
    y = {"library": "sel", "cxx_header": "sel.hpp",
         "options": dict({OPT[k]: lib[k] for k in LANGS}, debug=True, F_force_wrapper=True),
         "declarations": shapes()[shape](o2)}
    yp = os.path.join(d, "sel.yaml")
    with open(yp, "w") as f:
        yaml.safe_dump(y, f, default_flow_style=False, sort_keys=False)
    names = sorted(set(dirs.values()) | {"o"})
    real = {n: os.path.join(d, n) for n in names}
    for p in real.values():
        os.makedirs(p)
    argv = ["--outdir", real["o"], "--logdir", d, "--cfiles", os.path.join(d, "cfiles.txt"),
            "--ffiles", os.path.join(d, "ffiles.txt")]
    if dirs["cf"] != "o":
        argv += ["--outdir-c-fortran", real[dirs["cf"]]]
    if dirs["py"] != "o":
        argv += ["--outdir-python", real[dirs["py"]]]
    if dirs["lua"] != "o":
        argv += ["--outdir-lua", real[dirs["lua"]]]
    if dirs["yaml"] != "o":
        argv += ["--outdir-yaml", real[dirs["yaml"]]]
    argv.append(yp)
    tf = os.path.join(d, "trace.ndjson")
    groups = [argv]
    if history:
        pd = os.path.join(d, "prev")
        os.makedirs(os.path.join(pd, "out"))
        py = {"library": "prev", "cxx_header": "prev.hpp", "options": {"wrap_c": True, "wrap_fortran": True, "wrap_python": True},
              "declarations": shapes()["utility"]({})}
        with open(os.path.join(pd, "prev.yaml"), "w") as f:
            yaml.safe_dump(py, f, default_flow_style=False, sort_keys=False)
        groups = [["--outdir", os.path.join(pd, "out"), "--logdir", pd, "--cfiles", os.path.join(pd, "cfiles.txt"),
                   "--ffiles", os.path.join(pd, "ffiles.txt"), os.path.join(pd, "prev.yaml")], argv]
    rc, so, se = shroudrun.run(groups, probes=["files"], trace=tf)
    back = {v: k for k, v in real.items()}
    if rc != 0:
        return {"kind": "run", "error": se[-600:], "label": (shape, lib, ov, dirs) + (("after-history",) if history else ())}
    ev = shroudrun.read_events(tf)
    if history:
        last = max(i for i, e in enumerate(ev) if e["e"] == "RunBegin")
        ev = ev[last:]
    writes, aux = [], []
    for e in ev:
        if e["e"] == "write_file":
            dn = back.get(e["dir"], e["dir"])
            cls = e["cls"]
            if cls == "TypeOut" or e["fname"] == "setup.py":
                # the types file and setup.py (which refers to the Python sources by path) live in --outdir
                aux.append([dn, e["fname"]])
                cls = "Aux"
            writes.append({"cls": cls, "fname": e["fname"], "dir": dn})
    listing = []
    texts = {}
    for n, p in real.items():
        for fn in sorted(os.listdir(p)):
            listing.append([n, fn])
            texts[(n, fn)] = open(os.path.join(p, fn), errors="replace").read()

    def readlist(fn):
        res = []
        for w in open(os.path.join(d, fn)).read().split():
            dn = back.get(os.path.dirname(w), os.path.dirname(w))
            res.append([dn, os.path.basename(w)])
        return res

    kind_of = {"Wrapc": "c", "Wrapf": "f", "Wrapp": "py", "Wrapl": "lua"}
    by_kind = {k: "" for k in LANGS}
    for w in writes:
        k = kind_of.get(w["cls"])
        if k:
            by_kind[k] += texts.get((w["dir"], w["fname"]), "")
    present = []
    for decl in (("fone",) if shape == "overload" else ("fone", "ftwo")):
        present.append({"lang": "c", "decl": decl, "present": bool(re.search(r"_%s\w*\(" % decl, by_kind["c"]))})
        present.append({"lang": "f", "decl": decl,
                        # the Fortran wrapper is the specific procedure; the bind(C) interface c_<name>
                        # belongs to the C wrapper and is emitted under wrap_c
                        "present": bool(re.search(r"^\s*(?:function|subroutine)\s+(?!c_)\w*%s\w*\s*\(" % decl,
                                                  by_kind["f"], re.I | re.M))})
        present.append({"lang": "py", "decl": decl, "present": ('"%s"' % decl) in by_kind["py"]})
        present.append({"lang": "lua", "decl": decl, "present": ('"%s"' % decl) in by_kind["lua"]})
    cfgrec = {"lib": lib, "decls": [{"name": "fone", "ov": NOOV}, {"name": "ftwo", "ov": ov}], "dirs": dirs}
    digests = {}
    for w in writes:
        if kind_of.get(w["cls"]) in ("c", "f"):
            digests[w["fname"]] = hashlib.sha1(texts.get((w["dir"], w["fname"]), "").encode()).hexdigest()
    scopes = []
    if shape == "ns-off":
        eff = {k: (ov[k] if ov["has"] and (ov["only"] == "all" or k in ("c", "f")) else lib[k]) for k in LANGS}
        scopes = [{"file": "wrapfsel_hidden.f", "on": bool(eff["f"] and eff["c"])},
                  {"file": "wrapsel_hidden.cpp", "on": bool(eff["c"])}]
    return {"kind": "run", "scopes": scopes, "cfg": cfgrec, "writes": writes, "cfiles": readlist("cfiles.txt"),
            "ffiles": readlist("ffiles.txt"), "listing": listing, "aux": aux, "present": present,
            "label": (shape, lib, ov, dirs) + (("after-history",) if history else ()), "digests": digests}


def run(tier):
    with Check("C15", tier) as c:
        rng = random.Random(common.seed())
        thorough = tier == "thorough"
        c.assumptions += ["Fortran is requested only together with C (library level and per declaration)",
                          "presence of a declaration in a language's output is detected by its name in the files "
                          "that language's emitter reported",
                          "files written by TypeOut (the *_types.yaml file), *.log and *.json are auxiliary"]
        r, bad = model_check("MC_WrapSelect", "MC_WrapSelect", require_actions=("NextPass",), timeout=1200)
        c.add_tlc(r, "MC_WrapSelect")
        if bad:
            c.violation("model:" + bad, "design-level invariant %s violated" % bad, {"tlc_tail": r.out[-4000:]})
        configs = []
        for shape in shapes():
            for lib in lib_flags():
                for ov in overrides():
                    for dirs in DIRSETS:
                        configs.append((shape, lib, ov, dirs))
        if not thorough:
            # every shape x flags x override with a rotating directory assignment, then a sample
            base_cfgs = [(s, l, o, DIRSETS[(i + j + k) % len(DIRSETS)])
                         for i, s in enumerate(shapes()) for j, l in enumerate(lib_flags())
                         for k, o in enumerate(overrides())]
            configs = base_cfgs
        traces = []
        with common.scratch("c15-") as base:
            with cf.ThreadPoolExecutor(common.NCPU) as ex:
                res = list(ex.map(lambda a: run_config(base, a[0], *a[1]), enumerate(configs)))
                # the same configurations as the second run of a process (main_with_args / create_wrapper are
                # documented for use from setup.py): nothing of the first run may show in the lists or directories
                hcfgs = [cfg for i, cfg in enumerate(configs) if thorough or i % 9 == 0 or (cfg[0] in ("funcs", "utility") and cfg[2] is NOOV)]
                res += list(ex.map(lambda a: run_config(base, len(configs) + 1000 + a[0], *a[1], history=True), enumerate(hcfgs)))
            # toggle pairs
            togg = []
            idx = len(configs)
            pairs = []
            for shape in shapes():
                for cfl in ({"c": True, "f": True}, {"c": True, "f": False}):
                    for ov in overrides()[:4]:
                        a = dict(cfl, py=False, lua=False)
                        b = dict(cfl, py=True, lua=True)
                        pairs.append((shape, a, b, ov))
            jobs = []
            for (shape, a, b, ov) in pairs:
                jobs.append((idx, (shape, a, ov, DIRSETS[0])))
                jobs.append((idx + 1, (shape, b, ov, DIRSETS[0])))
                idx += 2
            with cf.ThreadPoolExecutor(common.NCPU) as ex:
                tres = list(ex.map(lambda a: run_config(base, a[0], *a[1]), jobs))
        for t in res:
            if "error" in t:
                c.violation("run-fails:%s" % json.dumps(t["label"])[:160], "Shroud fails: " + t["error"][-300:], {"label": t["label"]})
            else:
                traces.append(t)
        for k in range(0, len(tres), 2):
            a, b = tres[k], tres[k + 1]
            if "error" in a or "error" in b:
                continue
            traces.append({"kind": "toggle", "label": (a["label"], b["label"]),
                           "a": sorted([n, h] for n, h in a["digests"].items()),
                           "b": sorted([n, h] for n, h in b["digests"].items())})
        # negative controls
        controls = []
        for t in traces:
            if t["kind"] == "run" and t["cfiles"] and len(controls) < 2:
                k = json.loads(json.dumps(t))
                k["cfiles"] = k["cfiles"][:-1]
                controls.append(k)
            elif t["kind"] == "run" and t["writes"] and len(controls) < 4:
                k = json.loads(json.dumps(t))
                k["writes"][0]["dir"] = "elsewhere"
                controls.append(k)
            elif t["kind"] == "toggle" and t["a"] and len(controls) < 6:
                k = json.loads(json.dumps(t))
                k["a"][0][1] = "0"
                controls.append(k)
        keep = {"run": ("kind", "scopes", "cfg", "writes", "cfiles", "ffiles", "listing", "aux", "present"),
                "toggle": ("kind", "a", "b")}
        alltr = []
        for t in traces + controls:
            u = {k: t[k] for k in keep[t["kind"]]}
            if t["kind"] == "run":
                u["aux"] = u["aux"] + [[dn, fn] for dn, fn in u["listing"] if fn.endswith(".log") or fn.endswith(".json")]
            alltr.append(u)
        verdicts, st = validate_traces("Trace_WrapSelect", "Trace_WrapSelect", alltr, shard=800)
        c.add_stats(st, "trace_validation", len(traces))
        cnt = {}
        for i, t in enumerate(traces):
            v, detail = verdicts[i]
            cnt[t["kind"] + ":" + v] = cnt.get(t["kind"] + ":" + v, 0) + 1
            if v == "REJECT":
                lab = t["label"]
                if t["kind"] == "run":
                    shape, lib, ov, dirs = lab[:4]
                    d0 = detail.split('"')[1]
                    key = "run:%s:%s%s" % (shape, d0[:60], ":after-history" if len(lab) > 4 else "")
                else:
                    key = "toggle:%s" % lab[0][0]
                c.violation(key, "%s: %s" % (json.dumps(lab)[:300], detail),
                            {"label": lab, "detail": detail,
                             "writes": t.get("writes"), "cfiles": t.get("cfiles"), "present": t.get("present")})
            else:
                c.count(1, [json.dumps(t["label"])])
        for i, k in enumerate(controls):
            v, detail = verdicts[len(traces) + i]
            if v != "REJECT":
                raise MachineryError("negative control %d not rejected: %s %s" % (i, v, detail))
        c.part("conformance", runs=len(res), toggle_pairs=len(tres) // 2, verdicts=cnt,
               negative_controls_rejected=len(controls))
        c.cov["rule"] = ("5 library shapes (functions, class, namespace, default argument, std::string) x 12 flag "
                         "combinations x 5 overrides of one declaration x directory assignments (rotating in quick, all 5 "
                         "in thorough); toggle pairs python/lua off vs on. non-trivial = distinct accepted configuration")
        for t in traces[3:5]:
            c.sample({"label": t["label"], "writes": t.get("writes"), "cfiles": t.get("cfiles")})
        c.finish()


if __name__ == "__main__":
    run(common.tier_from_argv())
