"""C13 -- line wrapping never alters code and respects Fortran's line limit.

1. TLC model-checks LineWrap (splitter W, directive layer D, acceptor A):
   the design satisfies the five invariants and W refines A on every bounded
   input.
2. The same bounded input set is pushed through the real
   util.WrapperMixin.write_lines / write_continue; each (input, physical
   lines) record is validated by TLC against Trace_LineWrap (acceptor decides;
   exact agreement with W is reported).
3. Every write_lines call made while Shroud generates the corpus is recorded
   by the probe and validated the same way; Fortran files on disk are scanned
   for the 132-column consequence.
4. Negative controls: corrupted records must be rejected.
"""
import concurrent.futures as cf
import hashlib
import io
import itertools
import json
import os
import random
import sys

sys.path.insert(0, os.path.dirname(os.path.dirname(os.path.abspath(__file__))))
import common  # noqa: E402
from common import Check, enc, dec, model_check, validate_traces, MachineryError  # noqa: E402
import corpus  # noqa: E402
import shroudrun  # noqa: E402

TAB, FF, CR, SP = "\t", "\f", "\r", " "


def stub(linelen, indent, cont):
    common.import_shroud()
    from shroud import util

    class Stub(util.WrapperMixin):
        pass

    s = Stub()
    s.linelen = linelen
    s.indent = indent
    s.cont = cont
    return s


def call_real(items, linelen, indent, cont, spaces):
    s = stub(linelen, indent, cont)
    fp = io.StringIO()
    err = None
    try:
        s.write_lines(fp, list(items), spaces)
    except Exception as ex:  # in-domain inputs must not raise
        err = "%s: %s" % (type(ex).__name__, ex)
    ls = fp.getvalue().split("\n")
    if ls and ls[-1] == "":
        ls.pop()
    return ls, s.indent, err


def to_trace(items, linelen, indent, indent_end, cont, spaces, obs, meta=None):
    its = []
    for it in items:
        if isinstance(it, int):
            its.append({"t": "int", "v": it})
        elif isinstance(it, dict):
            its.append({"t": "int", "v": it["v"]} if it["t"] == "int" else {"t": "str", "s": enc(it["s"])})
        else:
            its.append({"t": "str", "s": enc(it)})
    return {"linelen": linelen, "spw": len(spaces), "cont": enc(cont), "items": its,
            "indent": indent, "indent_end": indent_end, "obs": [enc(l) for l in obs]}


def human(tr):
    return {"linelen": tr["linelen"], "indent": tr["indent"], "cont": dec(tr["cont"]),
            "items": [it["v"] if it["t"] == "int" else dec(it["s"]) for it in tr["items"]],
            "obs": [dec(l) for l in tr["obs"]]}


def bad_payload(p):
    if p == "":
        return True
    q = p[1:] if p[0] == CR else p
    if CR in q or "\n" in p:
        return True
    parts = [x for x in q.replace(FF, "\t\f\t").split("\t") if x]
    return bool(parts) and parts[-1] == FF


def payload_space(alphabet, maxlen):
    for n in range(1, maxlen + 1):
        for tup in itertools.product(alphabet, repeat=n):
            p = "".join(tup)
            if not bad_payload(p):
                yield p


def realistic_lines(rng, n):
    """Lines shaped like the ones the emitters build: identifiers, commas,
    \t before blanks, \f forced breaks, leading \r."""
    words = ["integer(C_INT)", "value", "intent(IN)", "::", "arg", "SHT_rv", "character(len=*)",
             "x" * 20, "y" * 45, "call", "c_loc(array)", "size(array, kind=C_SIZE_T)", "&", "a",
             "const char *", "std::string", "name_of_function_with_long_identifier",
             "static_cast<void *>(const_cast<tutorial::Class1 *>(&SHCXX_rv))"]
    seps = [",\t ", "\t ", " ", "\t", ",", "(\t", ")\t", "\f", " \t", "\t  "]
    out = []
    for _ in range(n):
        k = rng.randint(1, 14)
        s = "\r" if rng.random() < 0.25 else ""
        for j in range(k):
            s += rng.choice(words)
            if j < k - 1:
                s += rng.choice(seps)
        out.append(s)
    return out


def run(tier):
    with Check("C13", tier) as c:
        rng = random.Random(common.seed())
        thorough = tier == "thorough"
        c.assumptions += [
            "TLC/SANY and CommunityModules (Json, IOUtils) are trusted",
            "payloads are in the documented domain of the helper: non-empty, \\r only leading, "
            "\\f not the last part (decided in TLA+: BadPayload / InDomain)",
            "the 132-column scan treats lines whose first non-blank character is ! as comments",
        ]
        # ---- 1. model checking
        cfgs = ["MC_LineWrap_quick", "MC_LineWrap_items_quick"]
        if thorough:
            cfgs = ["MC_LineWrap_thorough", "MC_LineWrap_items_thorough"]
        for cfg in cfgs:
            r, bad = model_check("MC_LineWrap", cfg,
                                 require_actions=("WSplit", "WStep", "WFinish", "AStep", "DSubline",
                                                  "DTakeItem", "DAfter", "DDone"),
                                 timeout=3000)
            c.add_tlc(r, cfg)
            if bad:
                c.violation("model:" + cfg + ":" + bad,
                            "design-level invariant %s violated in %s" % (bad, cfg),
                            {"tlc_tail": r.out[-6000:]})
        # ---- 2. bounded input set through the real code
        traces, metas = [], []
        if thorough:
            alpha, maxlen = [TAB, FF, CR, SP, "x", "y"], 6
            lls, inds, conts, sps = [1, 2, 3, 5, 8], [0, 1, 2], ["", " &"], ["    ", " "]
        else:
            alpha, maxlen = [TAB, FF, CR, SP, "x"], 5
            lls, inds, conts, sps = [1, 2, 3, 5], [0, 1], ["", " &"], [" "]
        n_err = 0
        pay = list(payload_space(alpha, maxlen))
        if thorough and len(pay) * len(lls) * len(inds) * len(conts) * len(sps) > 600000:
            rng.shuffle(pay)
            pay = pay[:600000 // (len(lls) * len(inds) * len(conts) * len(sps))]
            exhaustive = False
        else:
            exhaustive = True
        for p in pay:
            for ll in lls:
                for ind in inds:
                    for ct in conts:
                        for sp in sps:
                            items = ["@" + p]
                            obs, iend, err = call_real(items, ll, ind, ct, sp)
                            if err:
                                c.violation("raise:" + repr((p, ll, ind, ct)), "write_continue raised " + err,
                                            {"items": items, "linelen": ll, "indent": ind, "cont": ct})
                                continue
                            traces.append(to_trace(items, ll, ind, iend, ct, sp, obs))
        n_payload = len(traces)
        # realistic long lines at real line lengths
        for s in realistic_lines(rng, 4000 if thorough else 600):
            if bad_payload(s):
                continue
            for ll in (72, 132, 40):
                ct = rng.choice(["", "&", " &"])
                ind = rng.randint(0, 4)
                obs, iend, err = call_real(["@" + s], ll, ind, ct, "    ")
                if err:
                    c.violation("raise:" + repr((s, ll, ind, ct)), "write_continue raised " + err,
                                {"items": ["@" + s], "linelen": ll, "indent": ind, "cont": ct})
                    continue
                traces.append(to_trace(["@" + s], ll, ind, iend, ct, "    ", obs))
        n_real = len(traces) - n_payload
        # directive layer: all short item lists
        dalpha = ["+", "-", "@", "^", "#", "x", " ", "\n", "\t"]
        dlen, maxitems = (3, 2) if thorough else (3, 1)
        strs = ["".join(t) for n in range(0, dlen + 1) for t in itertools.product(dalpha, repeat=n)]
        itemset = [1, -1] + strs
        lists = [[a] for a in itemset]
        if maxitems >= 2:
            pairs = [[a, b] for a in itemset for b in itemset]
            rng.shuffle(pairs)
            lists += pairs[:60000]
        # quick: plus a sample of pairs and longer strings
        if not thorough:
            for _ in range(3000):
                lists.append([rng.choice(itemset), rng.choice(itemset)])
        for _ in range(3000 if thorough else 600):
            k = rng.randint(1, 5)
            lists.append([rng.choice(itemset + ["".join(rng.choice(dalpha) for _ in range(rng.randint(4, 7)))])
                          for _ in range(k)])
        n_dir = 0
        for items in lists:
            obs, iend, err = call_real(items, 4, 1, " &", "  ")
            tr = to_trace(items, 4, 1, iend, " &", "  ", obs)
            tr["err"] = err
            traces.append(tr)
            n_dir += 1
        # ---- 3. corpus calls
        ctraces, nfiles, longlines, nruns = corpus_traces(c, thorough)
        ltraces, lfiles, llong = longname_traces(c)
        ctraces += ltraces
        nfiles += lfiles
        longlines += llong
        seen = set()
        for tr in ctraces:
            h = hashlib.sha1(json.dumps(tr, sort_keys=True).encode()).hexdigest()
            if h in seen:
                continue
            seen.add(h)
            traces.append(tr)
        n_corpus = len(traces) - n_payload - n_real - n_dir
        for (f, ln, n) in longlines:
            c.violation("f132:%s:%d" % (f, ln), "non-comment Fortran line of %d columns in %s line %d" % (n, f, ln),
                        {"file": f, "line": ln, "len": n})
        # ---- 4. negative controls (appended after the real traces)
        controls = []
        base = [t for t in traces[:n_payload] if len(t["obs"]) >= 2 and t["cont"]][:50]
        for t in base[:10]:
            k = dict(t)
            k["obs"] = [list(l) for l in t["obs"]]
            k["obs"][0] = k["obs"][0][:-len(t["cont"])]      # continuation marker lost
            controls.append(("no-cont", k))
        for t in base[10:20]:
            k = dict(t)
            k["obs"] = [list(l) for l in t["obs"]] + [[120]]   # text duplicated / extra line
            controls.append(("extra-line", k))
        for t in base[20:30]:
            k = dict(t)
            k["obs"] = [list(l) for l in t["obs"]]
            k["obs"][-1] = k["obs"][-1] + [122]               # text altered
            controls.append(("altered", k))
        wide = [t for t in traces[n_payload:n_payload + n_real] if len(t["obs"]) >= 3][:10]
        for t in wide:
            k = dict(t)
            ob = [list(l) for l in t["obs"]]
            b0 = ob[0][:len(ob[0]) - len(t["cont"])]
            ob[0:2] = [b0 + [32] + [x for x in ob[1]]]          # two lines merged: too long
            k["obs"] = ob
            controls.append(("merged", k))
        # the line length each emitter uses is the one of its language: a run with C_line_length 50 and
        # F_line_length 110 on an input that has all four wrappers
        mixed = mixed_length_traces(c)
        traces += mixed
        k = dict(traces[0])
        k["want"] = traces[0]["linelen"] + 22
        controls.append(("other-language-length", k))
        alltr = traces + [k for _n, k in controls]
        for t in alltr:
            t.pop("err", None)
            t.setdefault("want", t["linelen"])
        verdicts, st = validate_traces("Trace_LineWrap", "Trace_LineWrap", alltr, shard=6000)
        c.add_stats(st, "trace_validation", len(traces))
        counts = {"ACCEPT": 0, "REJECT": 0, "EXCLUDED": 0}
        exact = 0
        for i, tr in enumerate(traces):
            v, detail = verdicts[i]
            counts[v] = counts.get(v, 0) + 1
            if v == "ACCEPT":
                if "exact" in detail:
                    exact += 1
                c.count(1, [json.dumps(tr["items"])[:200] + str(tr["linelen"])] if len(tr["obs"]) > 1 else ())
            elif v == "REJECT":
                h = human(tr)
                c.violation("layout:" + json.dumps(h["items"])[:120] + ":%d:%d:%r" % (tr["linelen"], tr["indent"], h["cont"]),
                            "observed layout not allowed by LineWrap: " + detail, h)
            else:
                c.count(1)
        # in-domain inputs must not raise: the directive traces carry err separately
        for i, (name, k) in enumerate(controls):
            v, detail = verdicts[len(traces) + i]
            if v != "REJECT":
                raise MachineryError("negative control %s #%d was not rejected (%s %s): %s" % (
                    name, i, v, detail, human(k)))
        c.part("conformance", payload_traces=n_payload, realistic_traces=n_real, directive_traces=n_dir,
               corpus_calls=n_corpus, corpus_runs=nruns, corpus_files_scanned=nfiles,
               accepted=counts["ACCEPT"], excluded=counts["EXCLUDED"], exact_match_with_W=exact,
               negative_controls_rejected=len(controls), payload_set_exhaustive=exhaustive)
        c.cov["exhaustive"] = exhaustive
        c.cov["rule"] = ("every payload over %r up to length %d x linelen %r x indent %r x cont %r; realistic "
                         "lines at 40/72/132; item lists over %r; every write_lines call of the corpus. "
                         "non-trivial = accepted trace whose output has more than one physical line" % (
                             alpha, maxlen, lls, inds, conts, dalpha))
        for t in traces[:2] + traces[n_payload:n_payload + 1] + traces[-1:]:
            c.sample(human(t))
        c.finish()


def split_call(e):
    """A recorded whole-file call is bound to per-item traces: the real code is
    re-run item by item (same configuration, indent threaded); when the
    concatenation reproduces the recorded output exactly the per-item records
    stand for the call (tiny states, heavy de-duplication); otherwise the
    whole call is validated as one trace."""
    out = []
    ind = e["indent"]
    allobs = []
    for it in e["items"]:
        item = it["v"] if it["t"] == "int" else it["s"]
        obs, iend, err = call_real([item], e["linelen"], ind, e["cont"], e["spaces"])
        if err:
            out = None
            break
        allobs += obs
        if not isinstance(item, int):
            out.append(to_trace([item], e["linelen"], ind, iend, e["cont"], e["spaces"], obs))
        ind = iend
    if out is None or allobs != e["obs"] or ind != e["indent_end"]:
        return [to_trace(e["items"], e["linelen"], e["indent"], e["indent_end"],
                         e["cont"], e["spaces"], e["obs"])]
    return out


def mixed_length_traces(c):
    out = []
    with common.scratch("c13m-") as base:
        for name in ("classes.yaml", "tutorial.yaml"):
            od = os.path.join(base, name)
            os.makedirs(od)
            tf = od + ".ndjson"
            argv = corpus.base_args(od) + ["--option", "C_line_length=50", "--option", "F_line_length=110",
                                           "--option", "wrap_python=true", "--option", "wrap_lua=true",
                                           os.path.join(corpus.INPUT, name)]
            rc, so, se = shroudrun.run(argv, probes=["linewrap"], trace=tf)
            if rc != 0:
                raise MachineryError("mixed line length run of %s failed rc=%s\n%s" % (name, rc, se[-1500:]))
            seen = set()
            for e in shroudrun.read_events(tf):
                if e.get("e") != "write_lines" or e.get("err"):
                    continue
                if e["cls"] not in ("Wrapf", "Wrapc", "Wrapp", "Wrapl"):
                    continue            # (the types file is written unwrapped)
                want = 110 if e["cls"] == "Wrapf" else 50
                seen.add(e["cls"])
                for tr in split_call(e)[:40]:
                    tr["want"] = want
                    out.append(tr)
            if not {"Wrapf", "Wrapc", "Wrapp", "Wrapl"} <= seen:
                raise MachineryError("mixed line length run of %s did not use every emitter: %s" % (name, sorted(seen)))
        # a line length given on a nested namespace does not leak into the files of other scopes
        od = os.path.join(base, "nested")
        os.makedirs(od)
        long_args = ", ".join("double argument_number_%d" % k for k in range(1, 7))
        yml = ("library: nest\ncxx_header: nest.hpp\noptions: {F_line_length: 60, C_line_length: 60}\ndeclarations:\n"
               "- decl: void outer_function_one(%s)\n"
               "- decl: namespace first\n  declarations:\n  - decl: void first_function(%s)\n"
               "- decl: namespace wide\n  options: {F_line_length: 120, C_line_length: 100}\n  declarations:\n"
               "  - decl: void wide_function(%s)\n"
               "- decl: void outer_function_two(const std::string & name_of_the_thing, %s)\n") % ((long_args,) * 4)
        yp = os.path.join(od, "nest.yaml")
        open(yp, "w").write(yml)
        tf = od + ".ndjson"
        rc, so, se = shroudrun.run(corpus.base_args(od) + [yp], probes=["linewrap"], trace=tf)
        if rc != 0:
            raise MachineryError("nested line length run failed rc=%s\n%s" % (rc, se[-1500:]))
        nfile = 0
        for e in shroudrun.read_events(tf):
            if e.get("e") != "write_lines" or e.get("err") or e["cls"] not in ("Wrapf", "Wrapc"):
                continue
            # (the wrappers read the line lengths once, from the library's options: a value given on a namespace
            # changes nothing -- in particular not the files of the scopes around it)
            want = 60
            nfile += 1
            for tr in split_call(e)[:60]:
                tr["want"] = want
                out.append(tr)
        if nfile < 4:
            raise MachineryError("nested line length run recorded %d files" % nfile)
    return out


LONG_TYPES = ["int", "long", "float", "double", "bool", "const std::string &", "const char *", "short", "int64_t"]


def longname_yaml(nover, lang_opts=""):
    """A library of long identifiers (each below Fortran's 63 characters): a class method with `nover` overloads
    (the type-bound `generic ::` statement lists every specific name), default arguments, a function template with
    four instantiations, fortran_generic entries, an enumeration, all inside a namespace."""
    meth = "\n".join("    - decl: void assign_element_value_from(int index_of_the_element, %s value_to_assign)" % t
                     for t in LONG_TYPES[:nover])
    return ("library: longnames\ncxx_header: longnames.hpp\n%sdeclarations:\n"
            "- decl: namespace computational_geometry_toolkit\n  declarations:\n"
            "  - decl: enum BoundaryConditionClassification { DirichletBoundaryConditionKind, NeumannBoundaryConditionKind = 4,"
            " PeriodicBoundaryConditionKind, ReflectingBoundaryConditionKind }\n"
            "  - decl: class StructuredMeshContainer\n    declarations:\n"
            "    - decl: StructuredMeshContainer()\n    - decl: ~StructuredMeshContainer()\n%s\n"
            "    - decl: int number_of_elements_in_direction(int direction_of_interest = 0, int level_of_refinement = 1,"
            " bool include_ghost_elements = false)\n"
            "    - decl: StructuredMeshContainer * refine_every_element_once() +owner(caller)\n"
            "  - decl: void scale_all_coordinates_by_factor(double scaling_factor_for_coordinates, int *list_of_marked_elements"
            " +intent(in)+rank(1), int number_of_marked_elements +implied(size(list_of_marked_elements)))\n"
            "    fortran_generic:\n    - decl: (float scaling_factor_for_coordinates)\n      function_suffix: _single_precision\n"
            "    - decl: (double scaling_factor_for_coordinates)\n      function_suffix: _double_precision\n"
            "  - decl: template<typename ValueType> void accumulate_weighted_contribution(ValueType value_to_accumulate,"
            " double weight_of_the_contribution, const std::string & name_of_the_accumulator)\n"
            "    cxx_template:\n    - instantiation: <int>\n    - instantiation: <long>\n    - instantiation: <float>\n"
            "    - instantiation: <double>\n"
            "  - decl: const std::string & name_of_boundary_condition_classification(BoundaryConditionClassification"
            " classification_to_describe, int verbosity_of_the_description = 0)\n") % (lang_opts, meth)


def longname_traces(c):
    """write_lines calls and over-long Fortran lines of the long-identifier libraries at default line lengths."""
    traces, longlines, nfiles = [], [], 0
    with common.scratch("c13l-") as base:
        for nover in (2, 5, 9):
            for tag, opts in (("", ""), ("-cfi", "options: {F_CFI: true}\n")):
                od = os.path.join(base, "long%d%s" % (nover, tag))
                os.makedirs(od)
                yp = os.path.join(od, "longnames.yaml")
                open(yp, "w").write(longname_yaml(nover, opts))
                tf = od + ".ndjson"
                rc, so, se = shroudrun.run(corpus.base_args(od) + [yp], probes=["linewrap"], trace=tf)
                if rc != 0:
                    raise MachineryError("long identifier library (%d overloads%s) failed rc=%s\n%s" % (nover, tag, rc, se[-1500:]))
                for e in shroudrun.read_events(tf):
                    if e.get("e") == "write_lines" and not e.get("err") and e["cls"] in ("Wrapf", "Wrapc"):
                        traces.extend(split_call(e))
                for fn in sorted(os.listdir(od)):
                    if fn.endswith(".f"):
                        nfiles += 1
                        for i, line in enumerate(open(os.path.join(od, fn), errors="replace"), 1):
                            line = line.rstrip("\n")
                            if len(line) > 132 and not line.lstrip().startswith("!"):
                                longlines.append(("long%d%s/%s" % (nover, tag, fn), i, len(line)))
    if nfiles < 6:
        raise MachineryError("long identifier libraries wrote %d Fortran files" % nfiles)
    return traces, nfiles, longlines


def corpus_traces(c, thorough):
    tests = corpus.tests() if thorough else corpus.quick_subset()
    traces = []
    longlines = []
    nfiles = 0

    def one(t, base):
        out = os.path.join(base, t.name)
        os.makedirs(out)
        tf = os.path.join(base, t.name + ".ndjson")
        argv = corpus.base_args(out) + t.cmdline + [os.path.join(corpus.INPUT, t.yaml)]
        rc, so, se = shroudrun.run(argv, probes=["linewrap"], trace=tf)
        if rc != 0:
            raise MachineryError("corpus run %s failed rc=%s\n%s" % (t.name, rc, se[-2000:]))
        evs = [e for e in shroudrun.read_events(tf) if e.get("e") == "write_lines"]
        ll = []
        nf = 0
        for fn in sorted(os.listdir(out)):
            if fn.endswith(".f") or fn.endswith(".F"):
                nf += 1
                with open(os.path.join(out, fn), errors="replace") as f:
                    for i, line in enumerate(f, 1):
                        line = line.rstrip("\n")
                        if len(line) > 132 and not line.lstrip().startswith("!"):
                            ll.append((t.name + "/" + fn, i, len(line)))
        return evs, ll, nf

    with common.scratch("c13-") as base:
        with cf.ThreadPoolExecutor(common.NCPU) as ex:
            for evs, ll, nf in ex.map(lambda t: one(t, base), tests):
                nfiles += nf
                longlines += ll
                for e in evs:
                    if e.get("err"):
                        c.violation("corpus-raise:" + e["file"], "write_lines raised " + e["err"], e)
                        continue
                    traces.extend(split_call(e))
    return traces, nfiles, longlines, len(tests)


if __name__ == "__main__":
    run(common.tier_from_argv())
