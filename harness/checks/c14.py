"""C14 -- equivalent ways of stating the same customisation give identical output.

1. TLC model-checks Scope: on every tree of <= 3 (thorough 4) scopes with
   every placement of two keys, PushDown and an empty block keep the value in
   force at every declaration, a setting is invisible outside its subtree and
   reaches everything inside that does not override it.
2. Conformance "eff": random YAML descriptions (library, namespaces, classes,
   blocks, functions; options and format fields set at random levels) are
   given to the real ast.create_library_from_dictionary; the harness builds
   the scope tree from the YAML nesting and TLC compares the value each real
   function node reports for every tracked key with Eff (Trace_Scope).
3. Conformance "pair": pairs of descriptions the property calls equivalent
   (container-level vs per-declaration setting, sibling scopes, inline
   attributes vs attrs/fattrs, --option/--language vs YAML fields, empty
   block, create_wrapper vs command line) are run through the real generator
   and their outputs compared byte for byte.
"""
import concurrent.futures as cf
import copy
import hashlib
import io
import json
import os
import random
import subprocess
import sys

sys.path.insert(0, os.path.dirname(os.path.dirname(os.path.abspath(__file__))))
import common  # noqa: E402
from common import Check, model_check, validate_traces, MachineryError, PY  # noqa: E402
import shroudrun  # noqa: E402

OPT_KEYS = {"F_force_wrapper": [True, False], "F_string_len_trim": [True, False], "user_opt": ["1", "2"]}
FMT_KEYS = {"user_fmt": ["x", "y"], "F_C_prefix": ["c_", "cc_"]}


def rand_locals(rng, p=0.35):
    o, f = {}, {}
    for k, vs in OPT_KEYS.items():
        if rng.random() < p:
            o[k] = rng.choice(vs)
    for k, vs in FMT_KEYS.items():
        if rng.random() < p:
            f[k] = rng.choice(vs)
    return o, f


def rand_description(rng, nmax=9):
    """-> (yaml dict, tree list for TLA, function name -> node index)"""
    counter = [0]
    tree = []
    fidx = {}

    def node(parent, kind, o, f):
        loc = [{"k": "opt:" + k, "v": str(v)} for k, v in o.items()] + [{"k": "fmt:" + k, "v": str(v)} for k, v in f.items()]
        tree.append({"parent": parent, "kind": kind, "loc": loc})
        return len(tree)

    def with_locals(d, o, f):
        if o:
            d["options"] = dict(o)
        if f:
            d["format"] = dict(f)
        return d

    def make_decls(parent, depth, in_class):
        decls = []
        n = rng.randint(1, 3)
        for _ in range(n):
            if len(tree) >= nmax:
                break
            kinds = ["func", "func", "block"]
            if not in_class:
                kinds += ["ns", "class"]
            kind = rng.choice(kinds) if depth < 3 else "func"
            o, f = rand_locals(rng)
            counter[0] += 1
            i = counter[0]
            if kind == "func":
                me = node(parent, "func", o, f)
                name = "fn%d" % i
                fidx[name] = me
                decls.append(with_locals({"decl": "void %s(int a)" % name}, o, f))
            elif kind == "block":
                me = node(parent, "block", o, f)
                d = with_locals({"block": True}, o, f)
                d["declarations"] = make_decls(me, depth + 1, in_class)
                decls.append(d)
            elif kind == "ns":
                me = node(parent, "ns", o, f)
                d = with_locals({"decl": "namespace ns%d" % i}, o, f)
                d["declarations"] = make_decls(me, depth + 1, False)
                decls.append(d)
            else:
                me = node(parent, "class", o, f)
                d = with_locals({"decl": "class Cls%d" % i}, o, f)
                d["declarations"] = make_decls(me, depth + 1, True)
                decls.append(d)
        return decls

    o, f = rand_locals(rng, 0.5)
    # documented library defaults of the tracked keys (docs/reference.rst)
    od = dict({"F_force_wrapper": False, "F_string_len_trim": True}, **o)
    fd = dict({"F_C_prefix": "c_"}, **f)
    root = node(0, "lib", od, fd)
    y = with_locals({"library": "scp", "cxx_header": "scp.hpp"}, o, f)
    y["declarations"] = make_decls(root, 1, False)
    return y, tree, fidx


def observe_eff(y, fidx):
    """Effective values reported by the real nodes (before generate_functions)."""
    from shroud import ast, typemap

    typemap.initialize()
    lib = ast.create_library_from_dictionary(copy.deepcopy(y))
    obs = []

    def walk(n):
        for fn in n.functions:
            nm = fn.ast.name
            if nm in fidx:
                for k in OPT_KEYS:
                    obs.append({"n": fidx[nm], "k": "opt:" + k, "v": str(fn.options.get(k, "<unset>"))})
                for k in FMT_KEYS:
                    obs.append({"n": fidx[nm], "k": "fmt:" + k, "v": str(fn.fmtdict.get(k, "<unset>"))})
        for c in getattr(n, "classes", []):
            walk(c)
        for ns in getattr(n, "namespaces", []):
            walk(ns)

    walk(lib)
    return obs


# ---------------------------------------------------------------------------
# pairs

def digest_tree(d, only=None):
    out = []
    for rel, data in sorted(shroudrun.read_tree(d).items()):
        if rel.endswith(".log") or rel.endswith(".json"):
            continue
        if only is not None and not only(rel):
            continue
        out.append([rel, hashlib.sha1(data).hexdigest()])
    return out


def run_yaml(base, tag, y, argv_extra=(), api=False, only=None):
    """Run one description into <base>/out (always the same path), return digests."""
    import yaml

    out = os.path.join(base, "out")
    if os.path.isdir(out):
        import shutil
        shutil.rmtree(out)
    os.makedirs(out)
    yp = os.path.join(base, "in.yaml")
    with open(yp, "w") as f:
        yaml.safe_dump(y, f, default_flow_style=False, sort_keys=False)
    if api:
        code = ("import sys; sys.path.insert(0, %r); import shroud; "
                "shroud.create_wrapper(%r, outdir=%r)" % (common.REPO, yp, out))
        p = subprocess.run([PY, "-c", code], cwd=base, stdout=subprocess.PIPE, stderr=subprocess.PIPE, text=True,
                           env=dict(os.environ, PYTHONDONTWRITEBYTECODE="1", PYTHONHASHSEED="0"))
        rc, se = p.returncode, p.stderr
        for fn in os.listdir(base):
            if fn.endswith(".log") or fn.endswith(".json"):
                os.remove(os.path.join(base, fn))
    else:
        rc, so, se = shroudrun.run(["--outdir", out, "--logdir", out] + list(argv_extra) + [yp], cwd=base)
    if rc != 0:
        return None, se[-500:]
    return digest_tree(out, only), ""


F1 = "void f1(int a)"
F2 = "double f2(double *x +intent(in)+rank(1), int n)"
F3 = "void f3(const std::string & s)"
F4 = "int *g4()"                                            # pointer to a scalar: return_scalar_pointer, F_return_fortran_pointer
F5A, F5B = "void f5(int a)", "void f5(double a)"            # an overload set: F_create_generic
F6 = "int f6(const int *v +dimension(..), int n)"          # assumed rank: F_assumed_rank_max
F7 = "const char *g7()"                                    # character result: F_create_bufferify_function
FDECLS = [F1, F2, F3]
FDECLS_WIDE = [F1, F2, F3, F4, F5A, F5B, F6, F7]


def decl(d, **kw):
    e = {"decl": d}
    e.update(kw)
    return e


def pair_list():
    """(family, description A, argv A, description B, argv B, api B, filter)"""
    base = {"library": "eqv", "cxx_header": "eqv.hpp", "options": {"debug": True}}
    pairs = []

    def lib(decls, **kw):
        y = copy.deepcopy(base)
        for k, v in kw.items():
            if k == "options":
                y["options"].update(v)
            else:
                y[k] = v
        y["declarations"] = decls
        return y
    settings = [("options", "F_force_wrapper", True), ("options", "C_force_wrapper", True),
                ("options", "F_string_len_trim", False), ("options", "doxygen", False),
                ("format", "F_C_prefix", "cc_"), ("options", "literalinclude", True),
                # wrapper selection is scoped like any option: switched on for a namespace or block = switched on
                # for each of its members (the library default for both is off)
                ("options", "wrap_python", True), ("options", "wrap_lua", True)]
    # options every function reads through its own scope chain (docs/reference.rst "Options"), with declarations
    # that are sensitive to them
    wide = [("options", "return_scalar_pointer", "scalar"), ("options", "F_return_fortran_pointer", False),
            ("options", "F_create_generic", False), ("options", "F_assumed_rank_max", 2),
            ("options", "F_create_bufferify_function", False), ("options", "F_standard", 2008),
            ("options", "C_API_case", "lower"),
            ("options", "C_name_template", "{C_prefix}x_{C_name_scope}{underscore_name}{function_suffix}{template_suffix}"),
            ("options", "F_name_impl_template", "{F_name_scope}{underscore_name}{function_suffix}{template_suffix}_impl")]
    for (dct, k, v) in settings + wide:
        for container in ("block", "namespace", "library"):
            ds = FDECLS_WIDE if (dct, k, v) in wide else FDECLS
            inner_a = [decl(d) for d in ds]
            inner_b = [decl(d, **{dct: {k: v}}) for d in ds]
            if container == "namespace" and k == "doxygen":
                continue            # doxygen on a namespace also governs the file header of that namespace's files
            if container == "block":
                a = lib([{"block": True, dct: {k: v}, "declarations": inner_a}])
                b = lib([{"block": True, "declarations": inner_b}])
            elif container == "namespace":
                a = lib([{"decl": "namespace outer", dct: {k: v}, "declarations": inner_a}])
                b = lib([{"decl": "namespace outer", "declarations": inner_b}])
            else:
                a = lib(inner_a, **{dct: {k: v}})
                b = lib(inner_b)
                if dct == "format" or k in ("literalinclude", "doxygen"):
                    continue        # library-level format / file-level options are not function-scoped
            pairs.append(("pushdown:%s:%s" % (container, k), a, [], b, [], False, None))
        # sibling: a setting inside namespace n1 must not change the files of namespace n2
        a = lib([{"decl": "namespace n1", "declarations": [decl(F1), decl(F3)]},
                 {"decl": "namespace n2", "declarations": [decl("void g1(int a)"), decl("void g3(const std::string & s)")]}])
        b = copy.deepcopy(a)
        b["declarations"][0][dct] = {k: v}
        pairs.append(("sibling:%s" % k, a, [], b, [], False, lambda rel: "_n2" in rel))
    # a class: the setting on the class declaration itself = the setting on a block around the class
    def gadget():
        return {"decl": "class Gadget", "declarations": [decl("Gadget()"), decl("~Gadget()"), decl("int size() const"),
                                                         decl("void rename(const std::string & s)"), decl("int *data()"),
                                                         decl("void put(int a)"), decl("void put(double a)")]}
    for (dct, k, v) in settings + wide:
        if dct != "options" or k in ("doxygen", "literalinclude"):
            continue
        a = lib([{"block": True, dct: {k: v}, "declarations": [gadget()]}, decl(F1)])
        b = lib([dict(gadget(), **{dct: {k: v}}), decl(F1)])
        pairs.append(("pushdown:class:%s" % k, a, [], b, [], False, None))
    # nested blocks: the inner block inherits from the outer one
    a = lib([{"block": True, "options": {"F_force_wrapper": True},
              "declarations": [{"block": True, "declarations": [decl(F1), decl(F2)]}]}])
    b = lib([decl(F1, options={"F_force_wrapper": True}), decl(F2, options={"F_force_wrapper": True})])
    pairs.append(("pushdown:nested-block:F_force_wrapper", a, [], b, [], False, None))
    a = lib([{"block": True, "format": {"F_C_prefix": "cc_"},
              "declarations": [{"block": True, "options": {"F_force_wrapper": True}, "declarations": [decl(F1), decl(F3)]}]}])
    b = lib([decl(F1, options={"F_force_wrapper": True}, format={"F_C_prefix": "cc_"}),
             decl(F3, options={"F_force_wrapper": True}, format={"F_C_prefix": "cc_"})])
    pairs.append(("pushdown:nested-block:mixed", a, [], b, [], False, None))
    # empty block is transparent
    a = lib([decl(F1), decl(F2), decl(F3)])
    b = lib([{"block": True, "declarations": [decl(F1), decl(F2)]}, {"block": True, "declarations": [decl(F3)]}])
    pairs.append(("empty-block", a, [], b, [], False, None))
    b2 = lib([{"block": True, "declarations": [{"block": True, "declarations": [decl(F1), decl(F2), decl(F3)]}]}])
    pairs.append(("empty-block:nested", a, [], b2, [], False, None))
    # inline attributes vs attrs / fattrs
    a = lib([decl("double f2(double *x +intent(in)+rank(1), int n +value)"),
             decl("int *g2(int n) +dimension(10)"), decl("const std::string & g3() +len(30)")])
    b = lib([decl("double f2(double *x, int n)", attrs={"x": {"intent": "in", "rank": 1}, "n": {"value": True}}),
             decl("int *g2(int n)", fattrs={"dimension": 10}), decl("const std::string & g3()", fattrs={"len": 30})])
    pairs.append(("attrs-syntax", a, [], b, [], False, None))
    # ... one pair per documented attribute (docs/input.rst "Attributes"): function attributes under fattrs,
    # argument attributes under attrs
    for tag, inline, plain, kw in (
            ("fattrs:name", "void f9(int a) +name(renamed)", "void f9(int a)", {"fattrs": {"name": "renamed"}}),
            ("fattrs:owner+deref", "int *g4(int n) +dimension(n)+deref(pointer)+owner(caller)", "int *g4(int n)",
             {"fattrs": {"dimension": "n", "deref": "pointer", "owner": "caller"}}),
            ("fattrs:deref-allocatable", "const char *g5() +deref(allocatable)", "const char *g5()", {"fattrs": {"deref": "allocatable"}}),
            ("attrs:charlen", "void s1(char *out +intent(out)+charlen(20))", "void s1(char *out)",
             {"attrs": {"out": {"intent": "out", "charlen": 20}}}),
            ("attrs:implied", "int f5(const double *x +rank(1), int n +implied(size(x)))", "int f5(const double *x, int n)",
             {"attrs": {"x": {"rank": 1}, "n": {"implied": "size(x)"}}}),
            ("attrs:dimension", "void f6(double *x +intent(out)+dimension(n), int n)", "void f6(double *x, int n)",
             {"attrs": {"x": {"intent": "out", "dimension": "n"}}}),
            ("attrs:deref+owner", "void f7(int **x +intent(out)+dimension(3)+deref(pointer)+owner(library))", "void f7(int **x)",
             {"attrs": {"x": {"intent": "out", "dimension": 3, "deref": "pointer", "owner": "library"}}}),
            ("attrs:len", "void s2(std::string &s +intent(out)+len(Ls))", "void s2(std::string &s)",
             {"attrs": {"s": {"intent": "out", "len": "Ls"}}}),       # for an argument the value is a name
            ("attrs:hidden", "void f8(int a, int b +hidden)", "void f8(int a, int b)", {"attrs": {"b": {"hidden": True}}})):
        a = lib([decl(F1), decl(inline)])
        b = lib([decl(F1), decl(plain, **kw)])
        pairs.append(("attrs-syntax:" + tag, a, [], b, [], False, None))
    # one attrs / fattrs / options mapping written once and used by several declarations (a YAML anchor and its
    # aliases: the loader hands the same object to each of them) vs. the attributes written inline on each
    shared_attrs = {"x": {"intent": "in", "rank": 1}, "n": {"value": True}}
    shared_fattrs = {"dimension": 10}
    shared_opts = {"F_force_wrapper": True}
    a = lib([decl("double h1(double *x +intent(in)+rank(1), int n +value)", options={"F_force_wrapper": True}),
             decl("double h2(double *x +intent(in)+rank(1), int n +value)", options={"F_force_wrapper": True}),
             decl("double h3(double *x +intent(in)+rank(1), int n +value)"),
             decl("int *g6(int n) +dimension(10)"), decl("int *g7(int n) +dimension(10)")])
    b = lib([decl("double h1(double *x, int n)", attrs=shared_attrs, options=shared_opts),
             decl("double h2(double *x, int n)", attrs=shared_attrs, options=shared_opts),
             decl("double h3(double *x, int n)", attrs=shared_attrs),
             decl("int *g6(int n)", fattrs=shared_fattrs), decl("int *g7(int n)", fattrs=shared_fattrs)])
    pairs.append(("attrs-syntax:shared-mapping", a, [], b, [], False, None))
    # a constructor renamed inline / under fattrs
    a = lib([{"decl": "class Widget", "declarations": [decl("Widget() +name(create)"), decl("~Widget() +name(destroy)"), decl("int size() const")]}])
    b = lib([{"decl": "class Widget", "declarations": [decl("Widget()", fattrs={"name": "create"}), decl("~Widget()", fattrs={"name": "destroy"}),
                                                       decl("int size() const")]}])
    pairs.append(("attrs-syntax:fattrs:ctor-name", a, [], b, [], False, None))
    # command line vs YAML
    for k, v, txt in (("F_force_wrapper", True, "true"), ("debug", False, "false"), ("F_string_len_trim", False, "False"),
                      ("wrap_python", True, "true"), ("C_line_length", 60, "60")):
        a = lib([decl(F1), decl(F2), decl(F3)], options={k: v})
        b = lib([decl(F1), decl(F2), decl(F3)])
        pairs.append(("cli-option:%s" % k, a, [], b, ["--option", "%s=%s" % (k, txt)], False, None))
    for lang in ("c", "c++"):
        ds = [decl(F1), decl(F2)]
        a = lib(ds, language=lang)
        b = lib(ds)
        pairs.append(("cli-language:%s" % lang, a, [], b, ["--language", lang], False, None))
    # programmatic entry point
    a = lib([decl(F1), decl(F2), decl(F3)])
    pairs.append(("create_wrapper", a, [], a, [], True, None))
    return pairs


def run_pair(base, i, p):
    fam, ya, argva, yb, argvb, api_b, only = p
    d = os.path.join(base, "p%d" % i)
    os.makedirs(d)
    da, ea = run_yaml(d, "a", ya, argva, False, only)
    db, eb = run_yaml(d, "b", yb, argvb, api_b, only)
    return fam, da, db, ea, eb, (ya, argva, yb, argvb)


def run(tier):
    with Check("C14", tier) as c:
        rng = random.Random(common.seed())
        thorough = tier == "thorough"
        common.import_shroud()
        c.assumptions += ["function-scoped keys only (options F_force_wrapper, C_force_wrapper, F_string_len_trim, "
                          "doxygen, literalinclude on declarations; format F_C_prefix and user keys); library-only "
                          "fields are not pushed down",
                          "the scope tree of a description is its YAML nesting"]
        cfg = "MC_Scope_thorough" if thorough else "MC_Scope_quick"
        r, bad = model_check("MC_Scope", cfg, require_actions=("DoPushDown", "DoBlock", "DoSet"), timeout=3400)
        c.add_tlc(r, cfg)
        if bad:
            c.violation("model:" + bad, "design-level invariant %s violated" % bad, {"tlc_tail": r.out[-4000:]})
        traces = []
        for i in range(3000 if thorough else 400):
            y, tree, fidx = rand_description(rng)
            try:
                obs = observe_eff(y, fidx)
            except Exception as ex:
                c.violation("eff-raise:%s" % type(ex).__name__, "create_library_from_dictionary raised %s: %s" % (type(ex).__name__, ex),
                            {"yaml": y})
                continue
            traces.append({"kind": "eff", "tree": tree, "obs": obs, "yaml": y})
        n_eff = len(traces)
        pairs = pair_list()
        with common.scratch("c14-") as base:
            with cf.ThreadPoolExecutor(common.NCPU) as ex:
                res = list(ex.map(lambda a: run_pair(base, a[0], a[1]), enumerate(pairs)))
        for fam, da, db, ea, eb, desc in res:
            if da is None or db is None:
                c.violation("pair-run-fails:" + fam, "one side of an equivalent pair fails: A=%r B=%r" % (ea[-200:], eb[-200:]),
                            {"family": fam, "a": desc[0], "argv_a": desc[1], "b": desc[2], "argv_b": desc[3]})
                continue
            traces.append({"kind": "pair", "family": fam, "a": da, "b": db, "desc": desc})
        controls = []
        k = json.loads(json.dumps({kk: v for kk, v in traces[0].items() if kk != "yaml"}))
        if k["obs"]:
            k["obs"][0]["v"] = "corrupted"
            controls.append(k)
        for t in traces[n_eff:n_eff + 2]:
            k = json.loads(json.dumps({kk: v for kk, v in t.items() if kk != "desc"}))
            if k["a"]:
                k["a"][0][1] = "0"
                controls.append(k)
        alltr = [{kk: v for kk, v in t.items() if kk not in ("yaml", "desc")} for t in traces + controls]
        verdicts, st = validate_traces("Trace_Scope", "Trace_Scope", alltr, shard=1500)
        c.add_stats(st, "trace_validation", len(traces))
        cnt = {}
        for i, t in enumerate(traces):
            v, detail = verdicts[i]
            cnt[t["kind"] + ":" + v] = cnt.get(t["kind"] + ":" + v, 0) + 1
            if v == "REJECT":
                if t["kind"] == "eff":
                    c.violation("eff:" + json.dumps(t["yaml"]["declarations"])[:160], detail, {"yaml": t["yaml"], "detail": detail})
                else:
                    c.violation("pair:" + t["family"], detail,
                                {"family": t["family"], "a": t["desc"][0], "argv_a": t["desc"][1], "b": t["desc"][2],
                                 "argv_b": t["desc"][3], "detail": detail})
            else:
                c.count(1, [t.get("family") or json.dumps(t["tree"])[:300]])
        for i, k in enumerate(controls):
            v, detail = verdicts[len(traces) + i]
            if v != "REJECT":
                raise MachineryError("negative control %d not rejected: %s %s" % (i, v, detail))
        c.part("conformance", eff_traces=n_eff, pairs=len(pairs), verdicts=cnt, negative_controls_rejected=len(controls))
        c.cov["rule"] = ("random descriptions of <= 9 scopes (library/namespace/class/block/function, depth <= 3) with 5 "
                         "tracked keys set at random levels; equivalent pairs: 6 settings x {block, namespace, library} "
                         "push-down, sibling namespaces, nested and empty blocks, inline vs attrs/fattrs, --option / "
                         "--language vs YAML, create_wrapper vs command line. non-trivial = distinct accepted trace")
        c.sample({"tree": traces[0]["tree"], "obs": traces[0]["obs"][:4]})
        c.sample({"pair": traces[n_eff]["family"], "files": [x[0] for x in traces[n_eff]["a"]]})
        c.finish()


if __name__ == "__main__":
    run(common.tier_from_argv())
