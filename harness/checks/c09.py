"""C09 -- declarations are understood exactly as a C++ compiler understands them.

1. TLC replays every derivation through DeclGrammar's phase machine
   (BalancedPrefix, Complete) -- the attribute grammar is the specification of
   what each sentence means (Proj) and how it is rendered (CxxTok).
2. Conformance: each derivation is rendered to text, parsed by the real
   declast.check_decl, projected field by field, rendered by the real
   unparsers and re-parsed; Trace_DeclGrammar compares everything with the
   specification.
3. g++ decides `std::is_same` between the original text and Shroud's C++
   rendering for a batch (ties both Shroud and the spec to a compiler).
"""
import json
import os
import random
import subprocess
import sys

sys.path.insert(0, os.path.dirname(os.path.dirname(os.path.abspath(__file__))))
import common  # noqa: E402
from common import Check, validate_traces, model_check, MachineryError  # noqa: E402
import declgen as G  # noqa: E402


def observe(lib, d, rng):
    toks = G.tokens(d)
    s = G.text(toks, rng)
    outcome, node = lib.parse(s)
    tr = {"D": d, "toks": G.lex(s), "outcome": outcome, "text": s,
          "proj": None, "cxx": [], "c": [], "reparse": {"outcome": "none", "proj": None}}
    if node is None:
        tr["proj"] = EMPTY
        tr["reparse"]["proj"] = EMPTY
        return tr
    tr["proj"] = G.proj(node)
    try:
        tr["cxx"] = G.lex(node.gen_arg_as_cxx(with_template_args=True))
        tr["cxx_text"] = node.gen_arg_as_cxx(with_template_args=True)
    except Exception as ex:
        tr["cxx"] = ["<raise>", type(ex).__name__]
    try:
        tr["c"] = G.lex(node.gen_arg_as_c())
    except Exception as ex:
        tr["c"] = ["<raise>", type(ex).__name__]
    try:
        r = node.gen_decl()
        tr["render"] = r
        o2, n2 = lib.parse(r)
        tr["reparse"] = {"outcome": o2, "proj": G.proj(n2) if n2 is not None else EMPTY}
    except Exception as ex:
        tr["reparse"] = {"outcome": "render-raise %s" % type(ex).__name__, "proj": EMPTY}
    return tr


EMPTY = {"const": False, "volatile": False, "storage": [], "spec": [], "tmpl": [], "hasdecl": False, "ptrs": [],
         "name": "", "func": {"has": False, "ptrs": [], "name": ""}, "hasparams": False, "params": [],
         "fconst": False, "array": [], "attrs": [], "init": {"has": False, "v": ""}}


def is_same_batch(c, items, d):
    """items: (key, original text without attributes, shroud rendering)."""
    src = ["#include <type_traits>", "#include <string>", "#include <vector>", "#include <cstddef>",
           "struct Cls {}; namespace ns { struct Inner {}; }", "static const int name = 1;"]
    for i, (key, orig, rend) in enumerate(items):
        src.append("namespace o%d { extern %s; }" % (i, orig) if "(" not in orig or "(*" in orig and orig.count("(") == 2 and False
                   else "namespace o%d { extern %s; }" % (i, orig))
        src.append("namespace r%d { extern %s; }" % (i, rend))
    for i, (key, orig, rend) in enumerate(items):
        nm = items[i][3] if len(items[i]) > 3 else None
    src.append("int main(){return 0;}")
    return src


def gxx_check(c, traces, d, limit):
    cand = []
    for t in traces:
        if t["outcome"] != "ok" or "cxx_text" not in t:
            continue
        D = t["D"]
        if D["st"] or D["fc"] or D["ini"]["has"]:
            continue  # storage class / method const need a class context
        orig = G.text(G.tokens(G.strip_attrs(D)))
        nm = D["nm"]
        if D["kind"] == "abs" or any(p["base"].startswith("vec") for p in D["ps"]):
            continue   # template-instance parameters: rendering not compared (see Trace_DeclGrammar!TmplParam)
        cand.append((t, orig, t["cxx_text"], nm))
        if len(cand) >= limit:
            break
    src = ["#include <type_traits>", "#include <string>", "#include <vector>", "#include <cstddef>",
           "struct Cls {}; namespace ns { struct Inner {}; }", "static const int name = 1;"]
    for i, (t, orig, rend, nm) in enumerate(cand):
        # references / const objects need 'extern' to be declared without initialiser
        src.append("namespace o%d { extern %s; }" % (i, orig))
        src.append("namespace r%d { extern %s; }" % (i, rend))
        src.append("static_assert(std::is_same<decltype(o%d::%s), decltype(r%d::%s)>::value, \"DIFF %d\");"
                   % (i, nm, i, nm, i))
    src.append("int main(){return 0;}")
    fn = os.path.join(d, "same.cpp")
    with open(fn, "w") as f:
        f.write("\n".join(src) + "\n")
    p = subprocess.run(["g++", "-std=c++11", "-fsyntax-only", "-fmax-errors=0", fn], stdout=subprocess.PIPE,
                       stderr=subprocess.STDOUT, text=True)
    bad = set()
    other = []
    for line in p.stdout.split("\n"):
        if "DIFF " in line and "static assertion failed" in line:
            bad.add(int(line.split("DIFF ")[1].split('"')[0].split()[0]))
        elif "error" in line:
            other.append(line)
    return cand, bad, other, p.returncode


def run(tier):
    with Check("C09", tier) as c:
        rng = random.Random(common.seed())
        thorough = tier == "thorough"
        c.assumptions += ["derivations cover the documented grammar rows listed in harness/declgen.py; the harness "
                          "renders tokens to text and lexes renderings back with a plain C lexer",
                          "attribute and default values are single tokens whose str() form is their spelling"]
        cfg = "MC_DeclGrammar_thorough" if thorough else "MC_DeclGrammar_quick"
        r, bad = model_check("MC_DeclGrammar", cfg, require_actions=("PSpec", "PDeclarator", "PParams", "PInit"),
                             timeout=3400)
        c.add_tlc(r, cfg)
        if bad:
            c.violation("model:" + bad, "grammar-level invariant %s violated" % bad, {"tlc_tail": r.out[-4000:]})
        # which declaration a (qualified) type name denotes: specs/Symtab.tla (C++ lookup rule for the documented
        # subset), the real symbol tables, and g++ for the rule itself
        r2, bad2 = model_check("MC_Symtab", "MC_Symtab", timeout=900)
        c.add_tlc(r2, "MC_Symtab")
        if bad2:
            c.violation("model:Symtab:" + bad2, "name-resolution invariant %s violated" % bad2, {"tlc_tail": r2.out[-3000:]})
        import symtab
        symtab.run(c, tier)
        lib = G.Lib()
        ds = list(G.variables())
        ds += list(G.functions(rng, 20000 if thorough else 2500))
        ds += list(G.decorated_variables(rng, 20000 if thorough else 2500))
        traces = [observe(lib, d, rng if i % 2 else None) for i, d in enumerate(ds)]
        with common.scratch("c09-") as d:
            cand, bad, other, rc = gxx_check(c, traces, d, 20000 if thorough else 3000)
        if other and not bad and rc != 0:
            raise MachineryError("g++ could not process the is_same batch: " + "\n".join(other[:5]))
        for i in sorted(bad):
            t = cand[i][0]
            key = "is_same:volatile" if t["D"]["cq"]["v"] else "is_same:" + cand[i][1]
            c.violation(key, "g++: Shroud's C++ rendering %r is not the type of %r" % (cand[i][2], cand[i][1]),
                        {"original": cand[i][1], "rendering": cand[i][2]})
        c.part("gxx_is_same", pairs=len(cand), differing=len(bad), other_errors=other[:3])
        # negative controls
        controls = []
        for t in traces:
            if t["outcome"] == "ok" and t["proj"]["ptrs"] and len(controls) < 4:
                k = json.loads(json.dumps(t))
                k["proj"]["ptrs"][0]["c"] = not k["proj"]["ptrs"][0]["c"]
                controls.append(k)
            elif t["outcome"] == "ok" and t["proj"]["params"] and len(controls) < 8:
                k = json.loads(json.dumps(t))
                k["proj"]["params"] = k["proj"]["params"][:-1]
                controls.append(k)
        keep = ("D", "toks", "outcome", "proj", "cxx", "c", "reparse")
        alltr = [{k: t[k] for k in keep} for t in traces + controls]
        verdicts, st = validate_traces("Trace_DeclGrammar", "Trace_DeclGrammar", alltr, shard=4000)
        c.add_stats(st, "trace_validation", len(traces))
        cnt = {}
        for i, t in enumerate(traces):
            v, detail = verdicts[i]
            cnt[v] = cnt.get(v, 0) + 1
            if v == "BADTREE":
                raise MachineryError("harness text is not the sentence of its derivation: %r" % t["text"])
            if v == "REJECT":
                if "volatile dropped" in detail:
                    key = "render:volatile"
                else:
                    key = "decl:" + t["text"]
                c.violation(key, "%r: %s" % (t["text"], detail),
                            {"text": t["text"], "detail": detail, "parsed": t["proj"], "cxx": t.get("cxx_text"),
                             "render": t.get("render"), "reparse": t["reparse"]["outcome"]})
            else:
                c.count(1, [t["text"]] if (t["D"]["lv"] or t["D"]["ps"]) else ())
        for i, k in enumerate(controls):
            v, detail = verdicts[len(traces) + i]
            if v != "REJECT":
                raise MachineryError("negative control %d not rejected: %s %s" % (i, v, detail))
        c.part("conformance", derivations=len(traces), verdicts=cnt, negative_controls_rejected=len(controls))
        c.cov["rule"] = ("all variable derivations over %d bases x 5 cv placements x 10 pointer chains; functions with "
                         "0..3 parameters from a pool of %d parameter shapes (function pointers, arrays, attributes, "
                         "defaults); decorated variables. non-trivial = accepted derivation with pointer levels or "
                         "parameters, distinct by text" % (len(G.BASES), len(G.param_pool())))
        for t in traces[7:9] + traces[len(traces) // 2:len(traces) // 2 + 2]:
            c.sample({"text": t["text"], "cxx": t.get("cxx_text"), "render": t.get("render")})
        c.finish()


if __name__ == "__main__":
    run(common.tier_from_argv())
