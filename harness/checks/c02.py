"""C02 -- the generated C API of a C++ library is call-equivalent to the C++ API.

1. TLC model-checks CallBridge: the contract is total and position-consistent
   for every small signature; a wrapper following it satisfies Delivered /
   HandedBack.
2. Conformance: a C++ subject library whose every function logs what it
   receives and produces (rt/vt.c) is described in YAML, wrapped by the real
   Shroud, compiled with g++; a generated C driver (compiled as C, including
   only the generated headers) calls every C entry point with boundary values
   and logs what it supplies and gets back; each call (CallerInvoke, LibEnter,
   LibExit, CallerReturn) is validated by TLC (Trace_CallBridge).
"""
import concurrent.futures as cf
import json
import os
import random
import sys

sys.path.insert(0, os.path.dirname(os.path.dirname(os.path.abspath(__file__))))
import common  # noqa: E402
from common import Check, model_check, validate_traces, MachineryError  # noqa: E402
from rt import cases as K, cgen, libgen  # noqa: E402


def run(tier):
    with Check("C02", tier) as c:
        thorough = tier == "thorough"
        c.assumptions += ["values are 32-bit integers, doubles that are multiples of 1/4, short ASCII strings",
                          "the subject library and the driver log through one flushed channel (rt/vt.c); nested "
                          "library-internal calls are not part of the wrapper protocol",
                          "C names are taken from the generated headers (their predictability is C08's subject)"]
        r, bad = model_check("MC_CallBridge", "MC_CallBridge", require_actions=("DoInvoke", "DoEnter", "DoExit", "DoReturn"),
                             timeout=900)
        c.add_tlc(r, "MC_CallBridge")
        if bad:
            c.violation("model:" + bad, "design-level invariant %s violated" % bad, {"tlc_tail": r.out[-3000:]})
        # the statement tables every conversion is selected from (specs/StmtTree.tla): design properties of the
        # build + lookup, then the real update_stmt_tree / lookup_stmts_tree on generated tables and on the real
        # fc_statements table
        r, bad = model_check("MC_StmtTree", "MC_StmtTree_" + tier, timeout=1800)
        c.add_tlc(r, "MC_StmtTree_" + tier)
        if bad:
            c.violation("model:StmtTree:" + bad, "statement-table invariant %s violated" % bad, {"tlc_tail": r.out[-3000:]})
        import stmttree
        stmttree.run(c, tier)
        configs = [("default", {}, [])]
        configs.append(("custom-prefix", {}, ["--option", "C_line_length=60"]))
        if thorough:
            configs.append(("debug-off", {"debug": True, "show_splicer_comments": False}, []))
        configs = [(n, o, a, K.base_cases(), True) for n, o, a in configs]
        # a derived class through the C API: its own entry points and the base class's on the same capsule
        configs.append(("derived", {}, [], K.base_cases()[:3], "derived"))
        # libraries out of the TLA+ grammar LibGen (specs/LibGen.tla): every pairing of rows TLC happens to draw
        libs, rl = libgen.sample_libraries(400 if thorough else 12, common.seed())
        c.add_tlc(rl, "LibGen/simulate")
        nlib = 0
        for lib in libs:
            if lib["language"] != "c++" or nlib >= (160 if thorough else 3):
                continue
            # rows the C driver can call (a std::vector argument has no plain C form)
            cs = libgen.cases_of(libgen.without_cfi_conflict(dict(lib, opts=dict(lib["opts"], F_CFI=False))), {k for k, r in K.ROWS.items() if "c_decl" in r},
                                 {k for k, r in K.RESULTS.items() if "c_decl" in r or r["ty"] == "none"})
            if not cs:
                continue
            opts = libgen.driver_options(lib)
            opts.pop("F_CFI")
            configs.append(("libgen%d" % nlib, opts, [], cs, lib["class"]))
            nlib += 1
        # the wide member of the domain (specs/LibGenPairs.tla): every pairing of two parameter rows, every result
        # row with every parameter row
        wide = libgen.wide_library()
        configs.append(("wide", {}, [], libgen.cases_of(wide, {k for k, r in K.ROWS.items() if "c_decl" in r},
                                                        {k for k, r in K.RESULTS.items() if "c_decl" in r or r["ty"] == "none"}), True))
        traces, labels = [], []
        with common.scratch("c02-") as base:
            def one(cfg):
                name, opts, argv, cs, wc = cfg
                return name, cgen.build_and_run_c(os.path.join(base, name), cs, wc,
                                                  6 if thorough else 3, opts, argv)
            with cf.ThreadPoolExecutor(max(4, common.NCPU // 2)) as ex:
                res = list(ex.map(one, configs))
        for name, rr in res:
            for kind, what in rr["problems"]:
                if kind == "no-c-name":
                    c.violation("no-c-name:%s:%s" % (what[0], what[2]),
                                "no single C entry point for %s (template %s, %d arguments): expected parameter types %s, header has %s"
                                % (what[0], what[1], what[2], what[3], what[4]), {"what": what})
                else:
                    c.violation("build:%s:%s" % (name, kind), "%s: %s" % (kind, str(what)[-600:]), {"config": name})
            for t in rr["traces"]:
                traces.append({"sig": t["sig"], "events": t["events"]})
                labels.append("%s: %s" % (name, t["label"]))
        if not traces:
            if c.viol:
                c.finish()      # nothing could be run because of what was already reported (build failures)
            raise MachineryError("no call traces recorded")
        controls = []
        for t in traces:
            if len(t["events"]) == 4 and t["events"][1]["vals"] and len(controls) < 3:
                k = json.loads(json.dumps(t))
                k["events"][1]["vals"][0]["v"] = k["events"][1]["vals"][0]["v"] + [1]
                controls.append(k)
            elif len(t["events"]) == 4 and t["events"][3]["vals"] and len(controls) < 6:
                k = json.loads(json.dumps(t))
                k["events"][3]["vals"] = k["events"][3]["vals"][:-1]
                controls.append(k)
        k = json.loads(json.dumps(traces[0]))
        k["events"][1]["target"] = "ns1::other()"
        controls.append(k)
        verdicts, st = validate_traces("Trace_CallBridge", "Trace_CallBridge", traces + controls, shard=2000)
        c.add_stats(st, "trace_validation", len(traces))
        cnt = {}
        for i, t in enumerate(traces):
            v, detail = verdicts[i]
            cnt[v] = cnt.get(v, 0) + 1
            if v == "REJECT":
                c.violation("call:" + labels[i].split(": ", 1)[1], "%s: %s" % (labels[i], detail),
                            {"call": labels[i], "events": t["events"], "detail": detail})
            else:
                c.count(1, [labels[i]])
        for i, k in enumerate(controls):
            v, detail = verdicts[len(traces) + i]
            if v != "REJECT":
                raise MachineryError("negative control %d not rejected: %s %s" % (i, v, detail))
        common.check_members(c, [(name, rr.get("members")) for name, rr in res])
        c.part("conformance", configurations=[n for n, _r in res], calls=len(traces), verdicts=cnt,
               negative_controls_rejected=len(controls))
        c.cov["rule"] = ("every C entry point of the subject library (18 free-function cases covering native scalars, "
                         "bool, enum, pointers in/out/inout, references, const char*, std::string in/inout/out, struct by "
                         "value/pointer/reference, arrays, default arguments (each arity), overloads, template "
                         "instantiations; a class with constructor, destructor, const/static/instance methods, object "
                         "arguments and functions returning instances) x boundary value tuples. non-trivial = distinct "
                         "accepted call (entry point and C name)")
        c.sample({"call": labels[0], "events": traces[0]["events"]})
        c.finish()


if __name__ == "__main__":
    run(common.tier_from_argv())
