"""C07 -- output is a pure, repeatable function of the inputs and command line.

1. TLC model-checks Registry: with every process-wide registry re-created at
   the start of a run, no run sees data of an earlier library (Pure) for all
   histories of <= 3 runs over 4 libraries.
2. Conformance "history": sequences of libraries (C and C++ mixed) are run in
   ONE Python process; the probe digests every registry when generation starts
   and the harness digests every output file; the same library in a fresh
   process is the reference.  TLC replays the history (Trace_Registry): a
   registry digest that differs from the fresh-process digest is foreign data.
3. Conformance "perturb": the same inputs under two PYTHONHASHSEED values, two
   working directories, two environments, empty vs populated output directory;
   outputs must be byte-identical; outputs are scanned for date, host name and
   paths outside the arguments.
"""
import concurrent.futures as cf
import hashlib
import itertools
import json
import os
import random
import re
import shutil
import socket
import sys
import time

sys.path.insert(0, os.path.dirname(os.path.dirname(os.path.abspath(__file__))))
import common  # noqa: E402
from common import Check, model_check, validate_traces, MachineryError  # noqa: E402
import corpus  # noqa: E402
import shroudrun  # noqa: E402

POOL = [("classes", "classes.yaml", []), ("clibrary", "clibrary.yaml", []), ("strings", "strings.yaml", []),
        ("templates", "templates.yaml", []), ("tutorial", "tutorial.yaml", []), ("struct-c", "struct.yaml", ["--language", "c"]),
        ("ownership", "ownership.yaml", []), ("vectors", "vectors.yaml", [])]


GENERATED = {
    # typedefs whose C and C++ headers coincide, several classes, helpers: many named entities of each kind,
    # so that any iteration over an unordered collection shows under another hash seed
    "gen_headers": """
library: hdrs
cxx_header: hdrs.hpp
declarations:
- decl: typedef int IndexType
  fields: {c_header: index_types.h, cxx_header: index_types.h}
- decl: typedef int ErrCode
  fields: {c_header: err_codes.h, cxx_header: err_codes.h}
- decl: typedef long Handle
  fields: {c_header: handles.h, cxx_header: handles.h}
- decl: typedef double Real
  fields: {c_header: reals.h, cxx_header: reals.h}
- decl: ErrCode lookup(IndexType idx, Handle h, MPI_Comm comm)
- decl: Real scale(Real x, IndexType n)
""",
    "gen_wide": """
library: wide
cxx_header: wide.hpp
options: {wrap_python: true, wrap_lua: true}
copyright:
- Copyright (c) the wide project
- all rights reserved
-
- "SPDX-License-Identifier: (BSD-3-Clause)"
setup:
  author: someone
  author_email: someone@example.org
  description: every optional key of the setup section
  long_description: a longer text
  license: BSD-3-Clause
  url: http://example.org/wide
  test_suite: test
patterns:
  C_invalid_name: |
      if (! isNameValid({cxx_var})) {{
          return SIDRE_InvalidID;
      }}
  free_text: "delete [] {cxx_var};"
splicer_code:
  c:
    CXX_definitions:
    - // text from the splicer_code section
    class:
      Alpha:
        CXX_definitions:
        - // for class Alpha
      Beta:
        CXX_definitions:
        - // for class Beta
  f:
    module_top:
    - "integer, parameter :: MAXNAME = 20"
    class:
      Gamma:
        component_part:
        - "integer :: extra = 0"
  py:
    C_definition:
    - // python definitions
declarations:
- decl: class Alpha
  declarations:
  - decl: Alpha()
  - decl: ~Alpha()
  - decl: const std::string & name() const
  - decl: void set(const std::string & s, int n = 1)
- decl: class Beta
  declarations:
  - decl: Beta()
  - decl: ~Beta()
  - decl: Alpha * partner() +owner(caller)
  - decl: void fill(std::vector<double> & v +intent(out))
- decl: class Gamma
  declarations:
  - decl: Gamma()
  - decl: int sum(const std::vector<int> & v)
- decl: enum Color { RED, GREEN, BLUE }
- decl: enum Shape { ROUND = 2, SQUARE }
- decl: void over(int a)
- decl: void over(double a)
- decl: void over(const std::string & a)
- decl: bool flag(bool b)
- decl: char * newstr() +owner(caller)
- decl: void names(char ** out +intent(in), int n)
- decl: void vfill(std::vector<int> & v +intent(out))
- decl: int * newarr(int n) +dimension(n)+deref(allocatable)
- decl: const std::string & label(int k)
- decl: size_t * counts(int n) +owner(caller)+dimension(n)
- decl: int64_t * bigs(int n) +owner(caller)+dimension(n)
- decl: std::vector<int> * mkvec() +owner(caller)
""",
}
# the same description under another name (other prefixes): what one library leaves behind must not show in the next
GENERATED["gen_other"] = GENERATED["gen_wide"].replace("library: wide", "library: other").replace("wide.hpp", "other.hpp")


def gen_lib(base, name):
    d = os.path.join(base, "gen")
    os.makedirs(d, exist_ok=True)
    yp = os.path.join(d, name + ".yaml")
    with open(yp, "w") as f:
        f.write(GENERATED[name])
    return (name, yp, [])


def digests(d):
    out = []
    for rel, data in sorted(shroudrun.read_tree(d).items()):
        if rel.endswith(".log") or rel.endswith(".json"):
            continue        # debugging artefacts of --logdir, not wrapper output
        out.append([rel, hashlib.sha1(data).hexdigest()[:16]])
    return out


def argv_for(lib, outdir):
    name, y, cmd = lib
    return ["--path", corpus.INPUT, "--logdir", outdir, "--outdir", outdir, "--nowrite-version"] + cmd + \
           [y if os.path.isabs(y) else os.path.join(corpus.INPUT, y)]


def run_history(base, idx, libs):
    """All libraries of the history in one process; each into the same directory string
    (moved aside between runs is impossible in-process, so each run gets its own directory whose
    *name* is the library's: the fresh-process reference uses the same path)."""
    d = os.path.join(base, "h%d" % idx)
    os.makedirs(d)
    groups = []
    outs = []
    for k, lib in enumerate(libs):
        out = os.path.join(d, "run%d" % k, lib[0])
        os.makedirs(out)
        outs.append(out)
        groups.append(argv_for(lib, out))
    tf = os.path.join(d, "t.ndjson")
    rc, so, se = shroudrun.run(groups, probes=["registry"], trace=tf, timeout=600)
    ev = shroudrun.read_events(tf)
    regs = [e for e in ev if e["e"] == "registries" and e["at"] == "after_init"]
    return rc, se, outs, regs


def fresh(base, lib, like_out):
    """The same library in a fresh process, with the identical outdir string (copied away afterwards)."""
    rc, so, se = shroudrun.run([argv_for(lib, like_out)], probes=["registry"], trace=like_out + ".ndjson", timeout=300)
    ev = shroudrun.read_events(like_out + ".ndjson")
    regs = [e for e in ev if e["e"] == "registries" and e["at"] == "after_init"]
    return rc, se, regs


def scan_outputs(c, d, label):
    host = socket.gethostname()
    year = time.strftime("%Y")
    pats = [re.compile(r"\b%s-\d\d-\d\d\b" % year), re.compile(r"\b\d\d:\d\d:\d\d\b")]
    for rel, data in shroudrun.read_tree(d).items():
        if rel.endswith(".log") or rel.endswith(".json"):
            continue
        txt = data.decode("utf-8", "replace")
        if host and len(host) > 3 and host in txt:
            c.violation("hostname:" + label, "host name appears in %s" % rel, {"file": rel})
        for p in pats:
            m = p.search(txt)
            if m:
                c.violation("clock:" + label, "date/time-like text %r in %s" % (m.group(0), rel), {"file": rel})
                break


_DECOY = []


def decoy_dir(base):
    """Copies of the non-YAML files of regression/input whose splicer blocks carry an extra line."""
    import threading
    with _LOCK:
        if _DECOY:
            return _DECOY[0]
        d = os.path.join(base, "decoy")
        os.makedirs(d, exist_ok=True)
        for fn in os.listdir(corpus.INPUT):
            if fn.endswith(".yaml") or not os.path.isfile(os.path.join(corpus.INPUT, fn)):
                continue
            mark = {"f": "! look-alike", "f90": "! look-alike", "py": "# look-alike", "lua": "-- look-alike"}.get(fn.rsplit(".", 1)[-1], "// look-alike")
            out = []
            for line in open(os.path.join(corpus.INPUT, fn), errors="replace"):
                out.append(line)
                if "splicer begin" in line:
                    out.append(mark + "\n")
            open(os.path.join(d, fn), "w").write("".join(out))
        _DECOY.append(d)
        return d


import threading
_LOCK = threading.Lock()


def run(tier):
    with Check("C07", tier) as c:
        rng = random.Random(common.seed())
        thorough = tier == "thorough"
        c.assumptions += ["a registry whose digest when generation starts equals the fresh-process digest holds no "
                          "foreign data (digest = canonical dump of plain data and public object fields)",
                          "setup.py embeds the --outdir string, so compared runs use the same outdir string"]
        r, bad = model_check("MC_Registry", "MC_Registry", require_actions=("Initialize", "Generate", "Emit"), timeout=600)
        c.add_tlc(r, "MC_Registry")
        if bad:
            c.violation("model:" + bad, "design-level invariant %s violated" % bad, {"tlc_tail": r.out[-3000:]})
        pool = POOL if thorough else POOL[:4]
        hists = [list(p) for p in itertools.permutations(pool, 2)]
        hists += [[a, a] for a in pool]
        tri = [list(p) for p in itertools.permutations(pool, 3)]
        rng.shuffle(tri)
        hists += tri[:(60 if thorough else 6)]
        traces = []
        with common.scratch("c07-") as base:
            gw, go, gh = gen_lib(base, "gen_wide"), gen_lib(base, "gen_other"), gen_lib(base, "gen_headers")
            hists += [[gw, go], [go, gw], [gh, gw, go], [pool[0], go], [gw, pool[1], go], [gw, gh], [go, pool[1]], [gw, pool[2]]]
            with cf.ThreadPoolExecutor(common.NCPU) as ex:
                hres = list(ex.map(lambda a: run_history(base, a[0], a[1]), enumerate(hists)))
            for (libs, (rc, se, outs, regs)) in zip(hists, hres):
                if rc != 0 or len(regs) != len(libs):
                    c.violation("history-fails:" + ">".join(l[0] for l in libs),
                                "in-process history fails (rc=%s): %s" % (rc, se[-400:]), {"history": [l[0] for l in libs]})
                    continue
                runs = []
                for k, lib in enumerate(libs):
                    files = digests(outs[k])
                    keep = outs[k] + ".hist"
                    os.rename(outs[k], keep)
                    os.makedirs(outs[k])
                    rc2, se2, fregs = fresh(base, lib, outs[k])
                    if rc2 != 0 or not fregs:
                        raise MachineryError("fresh run of %s failed: %s" % (lib[0], se2[-400:]))
                    ffiles = digests(outs[k])
                    runs.append({"lib": lib[0],
                                 "regs": sorted([k2, v] for k2, v in regs[k]["regs"].items()),
                                 "fresh_regs": sorted([k2, v] for k2, v in fregs[0]["regs"].items()),
                                 "files": files, "fresh_files": ffiles})
                    if k == 0:
                        scan_outputs(c, outs[k], lib[0])
                traces.append({"kind": "history", "runs": runs, "label": ">".join(l[0] for l in libs)})
            # perturbations (separate processes)
            plibs = POOL if thorough else POOL[:5]   # (tutorial, the fifth, reads a splicer file)

            def perturb(job):
                j, lib, dim = job
                d = os.path.join(base, "p%d" % j)
                out = os.path.join(d, "out")
                os.makedirs(out)
                res = []
                variants = {
                    "hash seed": [dict(env={"PYTHONHASHSEED": "1"}), dict(env={"PYTHONHASHSEED": "12345"})],
                    "hash seed (2)": [dict(env={"PYTHONHASHSEED": "2"}), dict(env={"PYTHONHASHSEED": "3"})],
                    "hash seed (3)": [dict(env={"PYTHONHASHSEED": "4"}), dict(env={"PYTHONHASHSEED": "77"})],
                    "working directory": [dict(cwd=d), dict(cwd="/")],
                    # a working directory that holds look-alikes of every auxiliary input file (splicer files of
                    # the same names with other code): with absolute paths on the command line they are not inputs
                    "working directory with look-alike files": [dict(cwd=d), dict(cwd=decoy_dir(base))],
                    "environment": [dict(env={"LANG": "C", "TZ": "UTC", "USER": "alice", "HOME": "/nonexistent"}),
                                    dict(env={"LANG": "en_US.UTF-8", "TZ": "Asia/Tokyo", "USER": "bob", "COLUMNS": "40"})],
                    "pre-existing output files": [dict(pre=False), dict(pre=True)],
                    "repetition": [dict(), dict()],
                }[dim]
                for v in variants:
                    if os.path.isdir(out):
                        shutil.rmtree(out)
                    os.makedirs(out)
                    if v.get("pre"):
                        # stale files: every file the library will write, with garbage, plus strangers
                        for fn in ("wrapold.cpp", "stale.f", "zzz.h"):
                            open(os.path.join(out, fn), "w").write("stale\n")
                        rc0, so0, se0 = shroudrun.run([argv_for(lib, out)])
                        for fn in os.listdir(out):
                            with open(os.path.join(out, fn), "a") as f:
                                f.write("\nGARBAGE APPENDED\n")
                    rc, so, se = shroudrun.run([argv_for(lib, out)], env=v.get("env"), cwd=v.get("cwd"))
                    if rc != 0:
                        return (lib[0], dim, None, se[-300:])
                    dg = [x for x in digests(out) if x[0] not in ("wrapold.cpp", "stale.f", "zzz.h")]
                    res.append(dg)
                return (lib[0], dim, res, "")

            jobs = []
            j = 0
            for name in GENERATED:
                for dim in ("hash seed", "hash seed (2)", "hash seed (3)", "repetition"):
                    jobs.append((j, gen_lib(base, name), dim))
                    j += 1
            for lib in plibs:
                for dim in ("hash seed", "working directory", "working directory with look-alike files", "environment",
                            "pre-existing output files", "repetition"):
                    jobs.append((j, lib, dim))
                    j += 1
            with cf.ThreadPoolExecutor(common.NCPU) as ex:
                pres = list(ex.map(perturb, jobs))
        for (name, dim, res, err) in pres:
            if res is None:
                c.violation("perturb-fails:%s:%s" % (name, dim), "run fails under perturbation: " + err)
                continue
            traces.append({"kind": "perturb", "dimension": dim, "a": res[0], "b": res[1], "label": "%s:%s" % (name, dim)})
        controls = []
        for t in traces:
            if t["kind"] == "history" and len(controls) < 2:
                k = json.loads(json.dumps(t))
                k["runs"][-1]["files"][0][1] = "tampered"
                controls.append(k)
            if t["kind"] == "perturb" and len(controls) < 4 and t["a"]:
                k = json.loads(json.dumps(t))
                k["a"][0][1] = "tampered"
                controls.append(k)
        alltr = [{kk: v for kk, v in t.items() if kk != "label"} for t in traces + controls]
        verdicts, st = validate_traces("Trace_Registry", "Trace_Registry", alltr, shard=400)
        c.add_stats(st, "trace_validation", len(traces))
        cnt = {}
        for i, t in enumerate(traces):
            v, detail = verdicts[i]
            cnt[t["kind"] + ":" + v] = cnt.get(t["kind"] + ":" + v, 0) + 1
            if v == "REJECT":
                if t["kind"] == "history":
                    libs = t["label"].split(">")
                    what = detail.split('"')[1]
                    # key: the kind of leak and the language transition that exposes it
                    c.violation("history:%s:%s" % (t["label"], what[:40]), "%s: %s" % (t["label"], detail),
                                {"history": libs, "detail": detail})
                else:
                    c.violation("perturb:" + t["label"], detail, {"label": t["label"], "detail": detail})
            else:
                c.count(1, [t["label"]])
        for i, k in enumerate(controls):
            v, detail = verdicts[len(traces) + i]
            if v != "REJECT":
                raise MachineryError("negative control %d not rejected: %s %s" % (i, v, detail))
        c.part("conformance", histories=len(hists), perturbations=len(pres), verdicts=cnt,
               negative_controls_rejected=len(controls))
        c.cov["rule"] = ("histories: every ordered pair, every repetition and sampled triples over %d corpus libraries "
                         "(C and C++) in one process vs fresh processes; perturbations: hash seed, cwd, environment, "
                         "populated output directory, plain repetition for %d libraries. non-trivial = accepted trace"
                         % (len(pool), len(plibs)))
        c.sample({"history": traces[0]["label"], "registries": [x[0] for x in traces[0]["runs"][0]["regs"]]})
        c.finish()


if __name__ == "__main__":
    run(common.tier_from_argv())
