"""C01 -- Fortran wrapper calls are equivalent to calling the library directly.

1. TLC model-checks CallBridge: the contract is total and position-consistent
   for every small signature; a wrapper following it satisfies Delivered /
   HandedBack.
2. Conformance: a C++ subject library whose every function logs what it
   receives and produces (rt/vt.c) is described in YAML, wrapped by the real
   Shroud (C and Fortran wrappers, with and without F_CFI), compiled with g++
   and gfortran; a generated Fortran program calls every documented Fortran
   name (generic names for overloads, default arguments and templates,
   type-bound procedures of the class) with boundary values and character
   lengths and logs what it supplies and gets back; each call (CallerInvoke,
   LibEnter, LibExit, CallerReturn) is validated by TLC (Trace_CallBridge).
   Besides the fixed library (rt/cases.py) the libraries are drawn from the
   TLA+ grammar LibGen by TLC -simulate.
"""
import concurrent.futures as cf
import json
import os
import random
import sys

sys.path.insert(0, os.path.dirname(os.path.dirname(os.path.abspath(__file__))))
import common  # noqa: E402
from common import Check, model_check, validate_traces, MachineryError  # noqa: E402
from rt import cases as K, cgen, fgen, libgen  # noqa: E402


def run(tier):
    with Check("C01", tier) as c:
        thorough = tier == "thorough"
        c.assumptions += ["values are 32-bit integers, doubles that are multiples of 1/4, short ASCII strings",
                          "the subject library and the driver log through one flushed channel (rt/vt.c); nested "
                          "library-internal calls are not part of the wrapper protocol",
                          "C names are taken from the generated headers (their predictability is C08's subject)"]
        r, bad = model_check("MC_CallBridge", "MC_CallBridge", require_actions=("DoInvoke", "DoEnter", "DoExit", "DoReturn"),
                             timeout=900)
        c.add_tlc(r, "MC_CallBridge")
        if bad:
            c.violation("model:" + bad, "design-level invariant %s violated" % bad, {"tlc_tail": r.out[-3000:]})
        configs = [("cxx", {}, []), ("cxx-cfi", {"F_CFI": True}, [])]
        if thorough:
            configs += [("cxx-nodebug", {"debug": False}, []), ("cxx-cfi-nodebug", {"F_CFI": True, "debug": False}, [])]
        # (F_CFI: the case that has a 'char **' beside another character argument is run on its own below -- recorded
        # finding: its API differs, a caller of the F_CFI-off API does not compile)
        def charpp_mixed(x):
            ks = [p_["kind"] for p_ in x["params"]]
            return "cstrv_in" in ks and any(k_ in ("cstr_in", "str_cref", "str_ref_inout", "str_ref_out", "tdstr_in") for k_ in ks)
        configs = [(n, o, a, [x for x in K.fortran_cases() if not (o.get("F_CFI") and charpp_mixed(x))], "derived") for n, o, a in configs]
        configs.append(("cfi-charpp", {"F_CFI": True}, [], [x for x in K.fortran_cases() if charpp_mixed(x)], False))
        # F_CFI is an option like any other: switched on for single functions (every second one) beside functions
        # that use the bufferify form; the Fortran API and its behaviour are the same
        mixed = []
        for k_, x_ in enumerate(K.fortran_cases()):
            x_ = dict(x_)
            if k_ % 2 == 0 and not charpp_mixed(x_):
                x_["yaml_extra"] = dict(x_.get("yaml_extra") or {}, options={"F_CFI": True})
            mixed.append(x_)
        configs.append(("cxx-mixed-cfi", {}, [], mixed, True))
        # libraries out of the TLA+ grammar LibGen (specs/LibGen.tla), restricted to the rows the Fortran driver knows
        libs, rl = libgen.sample_libraries(400 if thorough else 12, common.seed())
        c.add_tlc(rl, "LibGen/simulate")
        nlib = 0
        for lib in libs:
            if lib["language"] != "c++" or nlib >= (160 if thorough else 3):
                continue
            cs = libgen.cases_of(libgen.without_cfi_conflict(lib), set(K.FROWS), set(K.FRESULTS))
            if not cs:
                continue
            configs.append(("libgen%d" % nlib, libgen.driver_options(lib), [], cs, lib["class"]))
            nlib += 1
        # the wide member of the domain (specs/LibGenPairs.tla): every pairing of two parameter rows, every result
        # row with every parameter row -- with and without F_CFI
        wide = libgen.cases_of(libgen.wide_library(), set(K.FROWS), set(K.FRESULTS))
        configs.append(("wide", {}, [], wide, True))
        # (F_CFI: without the functions of the known finding C05 shroud:Error_with_template -- Shroud stops on them)
        wl = libgen.without_cfi_conflict(libgen.wide_library(F_CFI=True))
        configs.append(("wide-cfi", {"F_CFI": True}, [], libgen.cases_of(wl, set(K.FROWS), set(K.FRESULTS)), True))
        # the library declared as C (language: c): the rows a C library can have; same driver, same contract
        sets = libgen.cfg_sets()
        crows, cres = sets["CRows"] & set(K.FROWS), sets["CResults"] & set(K.FRESULTS)
        cwide = libgen.cases_of(libgen.wide_library(), crows, cres)
        configs.append(("wide-c", {}, [], cwide, "c"))
        configs.append(("wide-c-cfi", {"F_CFI": True}, [],
                        libgen.cases_of(libgen.without_cfi_conflict(libgen.wide_library(F_CFI=True)), crows, cres), "c"))
        traces, labels = [], []
        with common.scratch("c01-") as base:
            def one(cfg):
                name, opts, argv, cs, wc = cfg
                if wc == "c":
                    return name, fgen.build_and_run_f(os.path.join(base, name), cs, False, 6 if thorough else 4, opts, argv, language="c")
                return name, fgen.build_and_run_f(os.path.join(base, name), cs, wc,
                                                  6 if thorough else 4, opts, argv)
            with cf.ThreadPoolExecutor(max(4, common.NCPU // 2)) as ex:
                res = list(ex.map(one, configs))
        for name, rr in res:
            for kind, what in rr["problems"]:
                if kind == "no-c-name":
                    c.violation("no-c-name:%s:%s" % (what[0], what[2]),
                                "no single C entry point for %s (template %s, %d arguments): expected parameter types %s, header has %s"
                                % (what[0], what[1], what[2], what[3], what[4]), {"what": what})
                else:
                    c.violation("build:%s:%s" % (name, kind), "%s: %s" % (kind, str(what)[-600:]), {"config": name})
            for t in rr["traces"]:
                traces.append({"sig": t["sig"], "events": t["events"]})
                labels.append("%s: %s" % (name, t["label"]))
        if not traces:
            if c.viol:
                c.finish()      # nothing could be run because of what was already reported (build failures)
            raise MachineryError("no call traces recorded")
        controls = []
        for t in traces:
            if len(t["events"]) == 4 and t["events"][1]["vals"] and len(controls) < 3:
                k = json.loads(json.dumps(t))
                k["events"][1]["vals"][0]["v"] = k["events"][1]["vals"][0]["v"] + [1]
                controls.append(k)
            elif len(t["events"]) == 4 and t["events"][3]["vals"] and len(controls) < 6:
                k = json.loads(json.dumps(t))
                k["events"][3]["vals"] = k["events"][3]["vals"][:-1]
                controls.append(k)
        k = json.loads(json.dumps(traces[0]))
        k["events"][1]["target"] = "ns1::other()"
        controls.append(k)
        verdicts, st = validate_traces("Trace_CallBridge", "Trace_CallBridge", traces + controls, shard=2000)
        c.add_stats(st, "trace_validation", len(traces))
        cnt = {}
        for i, t in enumerate(traces):
            v, detail = verdicts[i]
            cnt[v] = cnt.get(v, 0) + 1
            if v == "REJECT":
                c.violation("call:" + labels[i].split(": ", 1)[1], "%s: %s" % (labels[i], detail),
                            {"call": labels[i], "events": t["events"], "detail": detail})
            else:
                c.count(1, [labels[i]])
        for i, k in enumerate(controls):
            v, detail = verdicts[len(traces) + i]
            if v != "REJECT":
                raise MachineryError("negative control %d not rejected: %s %s" % (i, v, detail))
        common.check_members(c, [(name, rr.get("members")) for name, rr in res])
        c.part("conformance", configurations=[n for n, _r in res], calls=len(traces), verdicts=cnt,
               negative_controls_rejected=len(controls))
        c.cov["rule"] = ("every C entry point of the subject library (18 free-function cases covering native scalars, "
                         "bool, enum, pointers in/out/inout, references, const char*, std::string in/inout/out, struct by "
                         "value/pointer/reference, arrays, default arguments (each arity), overloads, template "
                         "instantiations; a class with constructor, destructor, const/static/instance methods, object "
                         "arguments and functions returning instances) x boundary value tuples. non-trivial = distinct "
                         "accepted call (entry point and C name)")
        c.sample({"call": labels[0], "events": traces[0]["events"]})
        c.finish()


if __name__ == "__main__":
    run(common.tier_from_argv())
