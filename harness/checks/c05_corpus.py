"""C05, upstream corpus: regenerate every configuration of regression/do-test.py
with the tree under test, then build what upstream builds from it -- the
library under regression/run/<name>, the generated C/C++/Fortran/Python files,
the upstream test programs (main.f with FRUIT, testc.c, maincpp.cpp) -- with
upstream's own Makefiles, pointed at the fresh output instead of
regression/reference.  Every generated header is also compiled on its own as
C and as C++.  A build failure is a violation; the test programs are then run
and their outcome recorded (information only: call-equivalence is C01/C02).
"""
import concurrent.futures as cf
import os
import re
import subprocess
import sys

sys.path.insert(0, os.path.dirname(os.path.dirname(os.path.abspath(__file__))))
import common  # noqa: E402
from common import MachineryError  # noqa: E402
import corpus  # noqa: E402
import shroudrun  # noqa: E402
from rt import libgen  # noqa: E402

RUN = os.path.join(common.REPO, "regression", "run")

FORTRAN = ["tutorial", "types", "classes", "forward", "enum-c", "namespace", "pointers-c", "pointers-cxx", "arrayclass",
           "struct-c", "struct-cxx", "vectors", "cdesc", "preprocess", "strings", "ccomplex", "clibrary", "cxxlibrary",
           "ownership", "generic", "statement", "templates", "generic-cfi", "strings-cfi"]
CTESTS = ["types", "classes", "enum-c", "namespace", "struct-cxx", "statement", "templates"]
CPPTESTS = ["tutorial", "templates", "scope"]
PYTHON = ["tutorial", "types", "classes", "enum-c", "namespace", "strings", "pointers-numpy-cxx", "pointers-list-cxx",
          "pointers-numpy-c", "pointers-list-c", "arrayclass", "struct-numpy-c", "struct-numpy-cxx", "struct-class-c",
          "struct-class-cxx", "structlist", "struct-py-c", "struct-py-cxx", "vectors-numpy", "vectors-list", "ccomplex",
          "clibrary", "cxxlibrary", "ownership", "templates"]
QUICK = {"fortran": ["tutorial", "strings", "classes", "clibrary", "struct-c", "templates", "generic-cfi", "vectors"],
         "c": ["classes", "templates"], "cpp": ["scope"], "python": ["pointers-list-cxx", "struct-class-c"]}


def sh(cmd, cwd, timeout=600, env=None):
    p = subprocess.run(cmd, cwd=cwd, stdout=subprocess.PIPE, stderr=subprocess.STDOUT, text=True, timeout=timeout,
                       errors="replace", env=env)
    return p.returncode, p.stdout


def first_error(txt):
    m = re.search(r"^(.*(?:[Ee]rror|undefined reference|multiple definition)[^\n]*)", txt, re.M)
    return (m.group(1) if m else txt.strip()[-300:]).strip()


def key_of(kind, name, txt):
    e = first_error(txt)
    e = re.sub(r"/[^ :]*/", "", e)
    e = re.sub(r"[‘’`']", "'", e)
    e = re.sub(r":\d+(:\d+)?", "", e)
    return re.sub(r"\s+", "_", "corpus:%s:%s:%s" % (kind, name, e[:90]))


def run(c, tier):
    tests = {t.name: t for t in corpus.tests()}
    want = QUICK if tier == "quick" else {"fortran": FORTRAN, "c": CTESTS, "cpp": CPPTESTS, "python": PYTHON}
    names = sorted({n for v in want.values() for n in v if n in tests} | (set() if tier == "quick" else set(tests)))
    stats = {"configs_generated": 0, "headers_alone": 0, "targets_built": 0, "programs_run": 0, "programs_failed": [],
             "excluded_numpy": [], "no_run_dir": []}
    with common.scratch("c05c-") as base:
        top = os.path.join(base, "top")
        os.makedirs(os.path.join(top, "regression", "reference"))
        os.symlink(RUN, os.path.join(top, "regression", "run"))

        def gen(n):
            t = tests[n]
            out = os.path.join(top, "regression", "reference", n)
            os.makedirs(out)
            rc, so, se = shroudrun.run(corpus.base_args(out) + t.cmdline + [os.path.join(corpus.INPUT, t.yaml)])
            return n, rc, se
        with cf.ThreadPoolExecutor(common.NCPU) as ex:
            for n, rc, se in ex.map(gen, names):
                stats["configs_generated"] += 1
                if rc != 0:
                    c.violation("corpus:shroud:%s" % n, "Shroud fails on the upstream input %s: %s" % (n, se[-300:]),
                                {"config": n, "stderr": se[-2000:]})

        # every generated header on its own, as C and as C++
        def headers(n):
            out = os.path.join(top, "regression", "reference", n)
            probs = []
            cnt = 0
            rd = os.path.join(RUN, n)
            inc = ["-I", out, "-I", libgen.PYINC]
            mk = os.path.join(rd, "Makefile")
            for m in re.finditer(r"-I\$\(top\)/(regression/run/[\w./-]+)", open(mk).read() if os.path.exists(mk) else ""):
                inc += ["-I", os.path.join(common.REPO, m.group(1))]
            lang_c = False
            t = tests[n]
            ytxt = open(os.path.join(corpus.INPUT, t.yaml), errors="replace").read()
            lang_c = bool(re.search(r"^language:\s*c\s*$", ytxt, re.M)) or "language=c" in " ".join(t.cmdline)
            for fn in sorted(os.listdir(out)):
                if not (fn.endswith(".h") or fn.endswith(".hpp")):
                    continue
                if fn.startswith("py") or fn.startswith("lua"):
                    continue        # need numpy / Lua headers: covered where the module itself is compiled
                p = os.path.join(out, fn)
                for lang, cc, std in (("c", "gcc", "-std=c99"), ("c++", "g++", "-std=c++11")):
                    if fn.endswith(".hpp") and lang == "c":
                        continue
                    cnt += 1
                    rc, txt = sh([cc, std, "-fsyntax-only", "-x", lang, p] + inc, out)
                    if rc != 0:
                        probs.append((fn, lang, txt))
            return n, cnt, probs
        with cf.ThreadPoolExecutor(common.NCPU) as ex:
            for n, cnt, probs in ex.map(headers, [n for n in names if os.path.isdir(os.path.join(RUN, n))]):
                stats["headers_alone"] += cnt
                for fn, lang, txt in probs:
                    c.violation(key_of("header-as-" + lang, n + "/" + fn, txt),
                                "generated header %s of upstream config %s does not compile on its own as %s: %s" % (fn, n, lang, first_error(txt)),
                                {"config": n, "file": fn, "as": lang, "diagnostic": txt[-2000:]})

        # upstream build targets
        jobs = []
        for kind, lst in want.items():
            for n in lst:
                if n not in tests:
                    continue
                if not os.path.isdir(os.path.join(RUN, n)):
                    stats["no_run_dir"].append(n)
                    continue
                jobs.append((kind, n))

        def build(job):
            kind, n = job
            bd = os.path.join(base, "build", kind, n)
            os.makedirs(bd)
            env = dict(os.environ)
            if kind == "python":
                mk = os.path.join(top, "regression", "run", n, "python", "Makefile")
                if not os.path.exists(mk):
                    return job, "nomake", "", None
                # the module only; `simple` embeds an interpreter and needs libpython's link line
                tgt = None
                for line in open(mk):
                    m = re.match(r"^(\w[\w.-]*\.so)\s*:", line)
                    if m:
                        tgt = m.group(1)
                        break
                cmd = ["make", "-f", mk, "top=" + top, "PYTHON=" + common.PY, tgt or "all"]
            else:
                mk = os.path.join(top, "regression", "run", n, "Makefile")
                tgt = {"fortran": n, "c": "testc", "cpp": "maincpp"}[kind]
                cmd = ["make", "-f", mk, "top=" + top, tgt]
            rc, txt = sh(cmd, bd, env=env)
            if rc != 0:
                return job, "build-failed", txt, None
            if kind == "python":
                return job, "built", txt, None
            exe = os.path.join(bd, tgt)
            try:
                rc2, out2 = sh([exe], bd, timeout=120)
            except subprocess.TimeoutExpired:
                rc2, out2 = 124, "timeout"
            mf = re.search(r"Failed\s*:\s*(\d+)", out2)
            ok = rc2 == 0 and not (mf and int(mf.group(1)) > 0) and "FAILED" not in out2
            return job, "built", txt, (ok, rc2, out2[-600:])
        with cf.ThreadPoolExecutor(common.NCPU) as ex:
            for (kind, n), status, txt, ran in ex.map(build, jobs):
                c.count()
                if status == "nomake":
                    continue
                if status == "build-failed":
                    if "numpy/arrayobject.h" in txt or "numpy" in first_error(txt):
                        stats["excluded_numpy"].append(n)
                        continue
                    gen_dir = os.path.join(top, "regression", "reference")
                    errs = [l for l in txt.splitlines() if re.search(r"(error|undefined reference|multiple definition)", l)]
                    if errs and not any(gen_dir in l or re.search(r"\b(wrap|util|types|py|lua)\w*\.(h|hpp|c|cpp|f)\b", l) for l in errs + txt.splitlines()[:0]):
                        # the failing file is upstream's own test source (e.g. a stale maincpp.cpp), not a generated one
                        stats.setdefault("upstream_source_failures", []).append({"config": n, "kind": kind, "error": first_error(txt)[:200]})
                        continue
                    c.violation(key_of(kind, n, txt), "upstream %s build of %s fails with freshly generated wrappers: %s" % (kind, n, first_error(txt)),
                                {"config": n, "kind": kind, "make_output": txt[-4000:]})
                    continue
                stats["targets_built"] += 1
                if ran is not None:
                    stats["programs_run"] += 1
                    if not ran[0]:
                        stats["programs_failed"].append({"config": n, "kind": kind, "rc": ran[1], "tail": ran[2][-300:]})
    if stats["targets_built"] < 3:
        raise MachineryError("corpus: almost nothing was built: %r" % stats)
    c.part("corpus", **stats)
