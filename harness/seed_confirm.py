"""Confirm a seeded change delivered by a sub-agent and file it under
/verif/seeded/<name>/.

usage: seed_confirm.py <PROP> <worktree> <outdir> [--name NAME] [--check "PROP tier"]... [--keep]

Confirms: (1) the 91 pinned tests still pass in the worktree, (2) the demo
exits 0 on /repo and non-zero on the worktree, (3) runs the listed checks
with VERIF_REPO=<worktree> and records whether they report a violation.
Removes the worktree afterwards unless --keep.
"""
import json
import os
import shutil
import subprocess
import sys
import time

VERIF = os.path.dirname(os.path.dirname(os.path.abspath(__file__)))
TESTS = ["tests/test_ast.py", "tests/test_declast.py", "tests/test_generate.py",
         "tests/test_statements.py", "tests/test_util.py", "tests/test_wrapp.py", "tests/test_wrapf.py"]


def sh(cmd, cwd=None, env=None, timeout=3600):
    e = dict(os.environ)
    if env:
        e.update(env)
    p = subprocess.run(cmd, shell=True, cwd=cwd, env=e, stdout=subprocess.PIPE, stderr=subprocess.STDOUT,
                       text=True, timeout=timeout, errors="replace")
    return p.returncode, p.stdout


def main():
    a = sys.argv[1:]
    prop, wt, out = a[0], a[1], a[2]
    name = prop
    checks = []
    keep = False
    i = 3
    while i < len(a):
        if a[i] == "--name":
            name = a[i + 1]
            i += 2
        elif a[i] == "--check":
            checks.append(a[i + 1])
            i += 2
        elif a[i] == "--keep":
            keep = True
            i += 1
        else:
            raise SystemExit("bad arg " + a[i])
    if not checks:
        checks = [prop + " quick"]
    meta = {"property": prop, "name": name, "confirmed_at": time.strftime("%Y-%m-%d %H:%M:%S")}
    ran = []
    # (0) patch applies to /repo HEAD == what is in the worktree
    dest = os.path.join(VERIF, "seeded", name)
    os.makedirs(dest, exist_ok=True)
    if os.path.isdir(wt):
        rc, diff = sh("git -C %s diff" % wt)
        with open(os.path.join(dest, "patch.diff"), "w") as f:
            f.write(diff)
        if not keep:
            sh("git -C /repo worktree remove --force %s" % wt)
            shutil.rmtree(wt, ignore_errors=True)
    # everything below runs in a fresh worktree of /repo's current HEAD + the patch
    wt = "/tmp/seedrun_%s_%d" % (name, os.getpid())
    sh("git -C /repo worktree prune")
    rc, o = sh("git -C /repo worktree add -f %s HEAD" % wt)
    rc, o = sh("git -C %s apply %s" % (wt, os.path.join(dest, "patch.diff")))
    meta["applies_to_repo_head"] = rc == 0
    meta["repo_head"] = sh("git -C /repo rev-parse --short HEAD")[1].strip()
    ran.append("fresh worktree of /repo HEAD %s + git apply patch.diff -> rc %d" % (meta["repo_head"], rc))
    if rc != 0:
        print("PATCH DOES NOT APPLY:", o)
    # (1) pinned tests
    present = [t for t in TESTS if os.path.exists(os.path.join(wt, t))]
    cmd = "/venv/bin/python -m pytest -q -p no:cacheprovider " + " ".join(present)
    rc, o = sh(cmd, cwd=wt)
    tail = o.strip().splitlines()[-1] if o.strip() else ""
    meta["tests_tail"] = tail
    meta["tests_pass"] = rc == 0 and "91 passed" in tail
    ran.append("cd <worktree> && %s -> %s" % (cmd, tail))
    # (2) demo
    demo = None
    for cand in ("demo.py", "demo.sh"):
        if os.path.exists(os.path.join(out, cand)):
            demo = cand
    if demo:
        shutil.copy(os.path.join(out, demo), os.path.join(dest, demo))
        runner = "/venv/bin/python" if demo.endswith(".py") else "sh"
        rc0, o0 = sh("%s %s /repo" % (runner, os.path.join(dest, demo)), cwd=dest)
        rc1, o1 = sh("%s %s %s" % (runner, os.path.join(dest, demo), wt), cwd=dest)
        meta["demo_on_repo_rc"] = rc0
        meta["demo_on_seeded_rc"] = rc1
        meta["demo_seeded_output_tail"] = o1[-1500:]
        ran.append("%s %s /repo -> rc %d ; on seeded tree -> rc %d" % (runner, demo, rc0, rc1))
    if os.path.exists(os.path.join(out, "notes.md")):
        shutil.copy(os.path.join(out, "notes.md"), os.path.join(dest, "notes.md"))
        meta["needs_to_manifest"] = open(os.path.join(out, "notes.md")).read()[:3000]
    # (3) our checks
    res = {}
    for ck in checks:
        pid, tier = ck.split()
        t0 = time.time()
        rc, o = sh("./check %s %s" % (pid, tier), cwd=VERIF, env={"VERIF_REPO": wt})
        vio = [l for l in o.splitlines() if l.startswith("VIOLATION")]
        res[ck] = {"rc": rc, "violations": len(vio), "first": vio[:3], "wall_s": round(time.time() - t0, 1),
                   "tail": o.strip().splitlines()[-1:] }
        ran.append("VERIF_REPO=<worktree> ./check %s %s -> rc %d, %d VIOLATION lines" % (pid, tier, rc, len(vio)))
    meta["checks"] = res
    meta["detected"] = any(v["rc"] == 1 and v["violations"] > 0 for v in res.values())
    meta["what_i_ran"] = ran
    with open(os.path.join(dest, "meta.json"), "w") as f:
        json.dump(meta, f, indent=1)
    print(json.dumps({k: meta[k] for k in meta if k not in ("needs_to_manifest", "demo_seeded_output_tail")}, indent=1))
    sh("git -C /repo worktree remove --force %s" % wt)
    shutil.rmtree(wt, ignore_errors=True)
    sh("git -C /repo worktree prune")
    if not keep:
        shutil.rmtree(out, ignore_errors=True)


main()
