"""Observation layer.  Imported only by the verification harness (child.py or
a check), never by the repository.  Every probe wraps a function of the
*current* working tree, calls the real function, and logs arguments, result
and cheap projected state.  Active only when SHROUD_VERIF=1.
"""
import io
import os
import sys

import common


def _guard():
    if os.environ.get(common.GUARD) != "1":
        raise RuntimeError("probes need %s=1" % common.GUARD)


class _Tee(object):
    """File proxy that records what is written while passing it through."""

    def __init__(self, fp):
        self.fp = fp
        self.buf = io.StringIO()

    def write(self, s):
        self.buf.write(s)
        return self.fp.write(s)

    def __getattr__(self, name):
        return getattr(self.fp, name)


def probe_linewrap(events):
    """Top-level write_lines / write_continue calls of every emitter."""
    from shroud import util

    M = util.WrapperMixin
    orig_lines = M.write_lines
    orig_cont = M.write_continue
    depth = [0]

    def physical(text):
        ls = text.split("\n")
        if ls and ls[-1] == "":
            ls.pop()
        return ls

    def items_of(lines):
        out = []
        for x in lines:
            if isinstance(x, bool):
                out.append({"t": "int", "v": int(x)})
            elif isinstance(x, int):
                out.append({"t": "int", "v": x})
            else:
                out.append({"t": "str", "s": x})
        return out

    def write_lines(self, fp, lines, spaces="    "):
        if depth[0]:
            return orig_lines(self, fp, lines, spaces)
        depth[0] += 1
        tee = _Tee(fp)
        ind0 = self.indent
        lines = list(lines)
        err = None
        try:
            return orig_lines(self, tee, lines, spaces)
        except Exception as ex:  # logged on the error path too
            err = "%s: %s" % (type(ex).__name__, ex)
            raise
        finally:
            depth[0] -= 1
            events.append({"e": "write_lines", "cls": type(self).__name__,
                           "file": getattr(fp, "name", ""),
                           "linelen": self.linelen, "cont": self.cont, "spaces": spaces,
                           "indent": ind0, "indent_end": self.indent,
                           "items": items_of(lines), "obs": physical(tee.buf.getvalue()),
                           "err": err})

    def write_continue(self, fp, line, spaces="    "):
        if depth[0]:
            return orig_cont(self, fp, line, spaces)
        depth[0] += 1
        tee = _Tee(fp)
        err = None
        try:
            return orig_cont(self, tee, line, spaces)
        except Exception as ex:
            err = "%s: %s" % (type(ex).__name__, ex)
            raise
        finally:
            depth[0] -= 1
            events.append({"e": "write_lines", "cls": type(self).__name__,
                           "file": getattr(fp, "name", ""),
                           "linelen": self.linelen, "cont": self.cont, "spaces": spaces,
                           "indent": self.indent, "indent_end": self.indent,
                           "items": [{"t": "str", "s": "@" + line}],
                           "obs": physical(tee.buf.getvalue()), "err": err})

    M.write_lines = write_lines
    M.write_continue = write_continue


PROBES = {
    "linewrap": probe_linewrap,
}


def install(names, events):
    _guard()
    common.import_shroud()
    for n in names:
        PROBES[n](events)
