"""Observation layer.  Imported only by the verification harness (child.py or
a check), never by the repository.  Every probe wraps a function of the
*current* working tree, calls the real function, and logs arguments, result
and cheap projected state.  Active only when SHROUD_VERIF=1.
"""
import io
import os
import sys

import common


def _guard():
    if os.environ.get(common.GUARD) != "1":
        raise RuntimeError("probes need %s=1" % common.GUARD)


class _Tee(object):
    """File proxy that records what is written while passing it through."""

    def __init__(self, fp):
        self.fp = fp
        self.buf = io.StringIO()

    def write(self, s):
        self.buf.write(s)
        return self.fp.write(s)

    def __getattr__(self, name):
        return getattr(self.fp, name)


def probe_linewrap(events):
    """Top-level write_lines / write_continue calls of every emitter."""
    from shroud import util

    M = util.WrapperMixin
    orig_lines = M.write_lines
    orig_cont = M.write_continue
    depth = [0]

    def physical(text):
        ls = text.split("\n")
        if ls and ls[-1] == "":
            ls.pop()
        return ls

    def items_of(lines):
        out = []
        for x in lines:
            if isinstance(x, bool):
                out.append({"t": "int", "v": int(x)})
            elif isinstance(x, int):
                out.append({"t": "int", "v": x})
            else:
                out.append({"t": "str", "s": x})
        return out

    def write_lines(self, fp, lines, spaces="    "):
        if depth[0]:
            return orig_lines(self, fp, lines, spaces)
        depth[0] += 1
        tee = _Tee(fp)
        ind0 = self.indent
        lines = list(lines)
        err = None
        try:
            return orig_lines(self, tee, lines, spaces)
        except Exception as ex:  # logged on the error path too
            err = "%s: %s" % (type(ex).__name__, ex)
            raise
        finally:
            depth[0] -= 1
            events.append({"e": "write_lines", "cls": type(self).__name__,
                           "file": getattr(fp, "name", ""),
                           "linelen": self.linelen, "cont": self.cont, "spaces": spaces,
                           "indent": ind0, "indent_end": self.indent,
                           "items": items_of(lines), "obs": physical(tee.buf.getvalue()),
                           "err": err})

    def write_continue(self, fp, line, spaces="    "):
        if depth[0]:
            return orig_cont(self, fp, line, spaces)
        depth[0] += 1
        tee = _Tee(fp)
        err = None
        try:
            return orig_cont(self, tee, line, spaces)
        except Exception as ex:
            err = "%s: %s" % (type(ex).__name__, ex)
            raise
        finally:
            depth[0] -= 1
            events.append({"e": "write_lines", "cls": type(self).__name__,
                           "file": getattr(fp, "name", ""),
                           "linelen": self.linelen, "cont": self.cont, "spaces": spaces,
                           "indent": self.indent, "indent_end": self.indent,
                           "items": [{"t": "str", "s": "@" + line}],
                           "obs": physical(tee.buf.getvalue()), "err": err})

    M.write_lines = write_lines
    M.write_continue = write_continue


def _flatten_store(d, prefix=()):
    out = []
    if isinstance(d, dict):
        for k in d:
            if k == "__line__":
                continue
            out += _flatten_store(d[k], prefix + (str(k),))
    elif isinstance(d, list):
        out.append({"p": list(prefix), "b": [x if isinstance(x, str) else repr(x) for x in d]})
    return out


def probe_splicer(events):
    """Emitter side of the splicer machinery: one 'emit' trace per wrapper
    instance (user store at _init_splicer, then push/pop/top/create calls)."""
    from shroud import util

    M = util.WrapperMixin
    o_init, o_push, o_pop, o_top, o_create = (M._init_splicer, M._push_splicer, M._pop_splicer,
                                              M._update_splicer_top, M._create_splicer)
    o_wof = M.write_output_file

    def lines(x):
        if x is None:
            return {"has": False, "b": []}
        return {"has": True, "b": [v if isinstance(v, str) else repr(v) for v in x]}

    def _init_splicer(self, splicers):
        events.append({"e": "sp_init", "inst": id(self), "cls": type(self).__name__,
                       "user": _flatten_store(splicers)})
        return o_init(self, splicers)

    def _push_splicer(self, name):
        r = o_push(self, name)
        events.append({"e": "sp_op", "inst": id(self), "op": "push", "n": str(name),
                       "path_after": self.splicer_path})
        return r

    def _pop_splicer(self, name):
        r = o_pop(self, name)
        events.append({"e": "sp_op", "inst": id(self), "op": "pop", "n": str(name),
                       "path_after": self.splicer_path})
        return r

    def _update_splicer_top(self, name):
        r = o_top(self, name)
        events.append({"e": "sp_op", "inst": id(self), "op": "top", "n": str(name),
                       "path_after": self.splicer_path})
        return r

    def _create_splicer(self, name, out, default=None, force=None):
        n0 = len(out)
        show = bool(self.newlibrary.options.show_splicer_comments)
        d, f = lines(default), lines(force)
        r = o_create(self, name, out, default, force)
        new = out[n0:]
        path = None
        if show and len(new) >= 2:
            first = new[0]
            k = first.find("splicer begin ")
            path = first[k + len("splicer begin "):].strip() if k >= 0 else None
            new = new[1:-1]
        events.append({"e": "sp_op", "inst": id(self), "op": "create", "n": str(name), "def": d, "force": f,
                       "show": show, "path": path, "stack_path": self.splicer_path + str(name),
                       "body": [v if isinstance(v, str) else repr(v) for v in new], "added": bool(r)})
        return r

    def write_output_file(self, fname, directory, output, spaces="    "):
        events.append({"e": "write_file", "cls": type(self).__name__, "fname": fname, "dir": directory})
        return o_wof(self, fname, directory, output, spaces)

    M._init_splicer = _init_splicer
    M._push_splicer = _push_splicer
    M._pop_splicer = _pop_splicer
    M._update_splicer_top = _update_splicer_top
    M._create_splicer = _create_splicer
    M.write_output_file = write_output_file


def probe_files(events):
    """Every file an emitter writes (write_output_file), and the lists/flags at the end of main."""
    from shroud import util, main

    M = util.WrapperMixin
    o_wof = M.write_output_file

    def write_output_file(self, fname, directory, output, spaces="    "):
        events.append({"e": "write_file", "cls": type(self).__name__, "fname": fname, "dir": directory})
        return o_wof(self, fname, directory, output, spaces)

    M.write_output_file = write_output_file
    o_main = main.main_with_args

    def main_with_args(args):
        cfg = o_main(args)
        events.append({"e": "main_end", "cfiles": list(cfg.cfiles), "ffiles": list(cfg.ffiles)})
        return cfg

    main.main_with_args = main_with_args


def _canon(x, depth=0):
    """Canonical, order-insensitive-for-dicts text of plain data; objects by class name and public vars."""
    if depth > 12:
        return "<deep>"
    if isinstance(x, dict):
        return "{" + ",".join("%s:%s" % (_canon(k, depth + 1), _canon(v, depth + 1))
                              for k, v in sorted(x.items(), key=lambda kv: str(kv[0]))) + "}"
    if isinstance(x, (list, tuple)):
        return "[" + ",".join(_canon(v, depth + 1) for v in x) + "]"
    if isinstance(x, (str, int, float, bool)) or x is None:
        return repr(x)
    if isinstance(x, (set, frozenset)):
        return "{" + ",".join(sorted(_canon(v, depth + 1) for v in x)) + "}"
    d = getattr(x, "__dict__", None)
    if d is not None and depth < 4:
        return type(x).__name__ + _canon({k: v for k, v in d.items() if not k.startswith("_")}, depth + 1)
    return "<%s>" % type(x).__name__


def registry_digests():
    """Digest of every process-wide registry the emitters read."""
    import hashlib
    from shroud import typemap, statements, whelpers, wrapc, wrapp, wrapl

    regs = {}

    def put(name, obj):
        regs[name] = hashlib.sha1(_canon(obj).encode("utf-8", "replace")).hexdigest()[:16]

    for mod, name in ((typemap, "shared_typedict"), (statements, "fc_statements"), (statements, "cf_tree"),
                      (statements, "fc_dict"), (wrapp, "py_statements"), (wrapp, "py_tree"), (wrapl, "lua_statements"),
                      (wrapl, "lua_tree"), (whelpers, "CHelpers"), (whelpers, "FHelpers"), (whelpers, "PyHelpers")):
        if hasattr(mod, name):
            put("%s.%s" % (mod.__name__.split(".")[-1], name), getattr(mod, name))
    for name in ("capsule_code", "capsule_order", "capsule_include"):
        if name in vars(wrapc.Wrapc):
            put("Wrapc." + name, vars(wrapc.Wrapc)[name])
    return regs


def probe_registry(events):
    """Registry digests when generation starts (after the per-run initialisation) and when a run ends."""
    from shroud import generate, main

    o_gen = generate.generate_functions

    def generate_functions(library, config):
        events.append({"e": "registries", "at": "after_init", "lib": library.library, "regs": registry_digests()})
        return o_gen(library, config)

    generate.generate_functions = generate_functions
    main.generate.generate_functions = generate_functions
    o_main = main.main_with_args

    def main_with_args(args):
        try:
            return o_main(args)
        finally:
            events.append({"e": "registries", "at": "run_end", "regs": registry_digests()})

    main.main_with_args = main_with_args


PROBES = {
    "registry": probe_registry,
    "files": probe_files,
    "linewrap": probe_linewrap,
    "splicer": probe_splicer,
}


def install(names, events):
    _guard()
    common.import_shroud()
    for n in names:
        PROBES[n](events)
