"""Materialise a subject library + YAML + C driver from rt/cases.py, run Shroud
from the tree under test, build with g++/gcc, execute, and cut the recorded
event stream into per-call traces for Trace_CallBridge (C front: C02).
"""
import json
import os
import re
import subprocess
import sys

HERE = os.path.dirname(os.path.abspath(__file__))
sys.path.insert(0, os.path.dirname(HERE))
import common  # noqa: E402
import shroudrun  # noqa: E402
from rt import cases as K  # noqa: E402

CLS_YAML = [
    {"decl": "class Cls", "declarations": [
        {"decl": "Cls(int v)"}, {"decl": "~Cls()"}, {"decl": "int get() const"}, {"decl": "void set(int v)"},
        {"decl": "bool positive(bool strict) const"},
        {"decl": "static int count()"}, {"decl": "Cls * clone() +owner(caller)"},
        {"decl": "int add(const Cls & other, Cls * third)"},
        # objects returned by value, plain and const qualified (docs/classes.rst, classes.yaml getClassCopy)
        {"decl": "Cls dup() const"}, {"decl": "const Cls cdup() const"},
        # a const method whose arguments are not const (built, not driven)
        {"decl": "int blend(Cls * other, std::string & tag) const"},
        # member variables (docs/classes.rst "Member Variables"): getter and setter, read-only, renamed
        {"decl": "int value"}, {"decl": "int ro +readonly"}, {"decl": "double other +name(alt)"},
        {"decl": "Color tint"}]},
    {"decl": "Cls * make(int v) +owner(caller)"},
    {"decl": "const Cls fresh(int v)"},
]

CLS_HPP = """
class Cls {
public:
    int value;
    int ro;
    double other;
    Color tint;
    explicit Cls(int v);
    ~Cls();
    int get() const;
    void set(int v);
    bool positive(bool strict) const;
    static int count();
    Cls *clone();
    int add(const Cls &other, Cls *third);
    Cls();
    Cls(int v, bool quiet);          // base part of a Derived: the derived class logs
    bool quiet_;
    Cls dup() const;
    const Cls cdup() const;
    Cls &operator=(const Cls &o);    // an object assigned to stops being quiet (the wrapper's copy of a by-value result)
    int blend(Cls *other, std::string &tag) const;
};
Cls *make(int v);
const Cls fresh(int v);
"""

CLS_CPP = """
static int ncls_ = 0;
Cls::Cls(int v, bool quiet) : value(v), ro(2 * v), other(v + 0.5), tint(RED), quiet_(quiet) { ncls_++; vt_live(1); }
Cls::Cls(int v) : value(v), ro(2 * v), other(v + 0.5), tint(RED), quiet_(false) { ncls_++; vt_live(1);
    vt_begin("LibEnter", "Cls::Cls"); vt_target("ns1::Cls::Cls(int)"); vt_int(v); vt_end();
    vt_begin("LibExit", "Cls::Cls"); vt_target("ns1::Cls::Cls(int)"); vt_obj(this); vt_end(); }
Cls::~Cls() { ncls_--; vt_live(-1); if (quiet_) return;
    vt_begin("LibEnter", "Cls::~Cls"); vt_target("ns1::Cls::~Cls()"); vt_obj(this); vt_end();
    vt_begin("LibExit", "Cls::~Cls"); vt_target("ns1::Cls::~Cls()"); vt_end(); }
int Cls::get() const {
    vt_begin("LibEnter", "Cls::get"); vt_target("ns1::Cls::get()"); vt_obj(this); vt_end();
    int rv = value;
    vt_begin("LibExit", "Cls::get"); vt_target("ns1::Cls::get()"); vt_int(rv); vt_end(); return rv; }
void Cls::set(int v) {
    vt_begin("LibEnter", "Cls::set"); vt_target("ns1::Cls::set(int)"); vt_obj(this); vt_int(v); vt_end();
    value = v;
    vt_begin("LibExit", "Cls::set"); vt_target("ns1::Cls::set(int)"); vt_end(); }
bool Cls::positive(bool strict) const {
    vt_begin("LibEnter", "Cls::positive"); vt_target("ns1::Cls::positive(bool)"); vt_obj(this); vt_bool(strict); vt_end();
    bool rv = strict ? value > 0 : value >= 0;
    vt_begin("LibExit", "Cls::positive"); vt_target("ns1::Cls::positive(bool)"); vt_bool(rv); vt_end(); return rv; }
int Cls::count() {
    vt_begin("LibEnter", "Cls::count"); vt_target("ns1::Cls::count()"); vt_end();
    int rv = ncls_;
    vt_begin("LibExit", "Cls::count"); vt_target("ns1::Cls::count()"); vt_int(rv); vt_end(); return rv; }
Cls *Cls::clone() {
    vt_begin("LibEnter", "Cls::clone"); vt_target("ns1::Cls::clone()"); vt_obj(this); vt_end();
    Cls *rv = new Cls(value + 1000);
    vt_begin("LibExit", "Cls::clone"); vt_target("ns1::Cls::clone()"); vt_obj(rv); vt_end(); return rv; }
int Cls::add(const Cls &other, Cls *third) {
    vt_begin("LibEnter", "Cls::add"); vt_target("ns1::Cls::add(const Cls&,Cls*)"); vt_obj(this); vt_obj(&other); vt_obj(third); vt_end();
    int rv = value + 10 * other.value + 100 * third->value;
    vt_begin("LibExit", "Cls::add"); vt_target("ns1::Cls::add(const Cls&,Cls*)"); vt_int(rv); vt_end(); return rv; }
Cls::Cls() : value(0), ro(0), other(0.0), tint(RED), quiet_(true) { ncls_++; vt_live(1); }
Cls &Cls::operator=(const Cls &o) { value = o.value; ro = o.ro; other = o.other; tint = o.tint; quiet_ = false; return *this; }
Cls Cls::dup() const {
    vt_begin("LibEnter", "Cls::dup"); vt_target("ns1::Cls::dup()"); vt_obj(this); vt_end();
    Cls rv; rv.value = value + 2000; rv.ro = 7;
    vt_begin("LibExit", "Cls::dup"); vt_target("ns1::Cls::dup()"); vt_int(rv.value); vt_end(); return rv; }
const Cls Cls::cdup() const {
    vt_begin("LibEnter", "Cls::cdup"); vt_target("ns1::Cls::cdup()"); vt_obj(this); vt_end();
    Cls rv; rv.value = value + 3000;
    vt_begin("LibExit", "Cls::cdup"); vt_target("ns1::Cls::cdup()"); vt_int(rv.value); vt_end(); return rv; }
int Cls::blend(Cls *other, std::string &tag) const { other->value += 1; tag += "!"; return value + other->value; }
const Cls fresh(int v) {
    vt_begin("LibEnter", "fresh"); vt_target("ns1::fresh(int)"); vt_int(v); vt_end();
    Cls rv; rv.value = v;
    vt_begin("LibExit", "fresh"); vt_target("ns1::fresh(int)"); vt_int(rv.value); vt_end(); return rv; }
Cls *make(int v) {
    vt_begin("LibEnter", "make"); vt_target("ns1::make(int)"); vt_int(v); vt_end();
    Cls *rv = new Cls(v);
    vt_begin("LibExit", "make"); vt_target("ns1::make(int)"); vt_obj(rv); vt_end(); return rv; }
"""


def row(p, ttype=None):
    k = p["kind"]
    if k == "T_v":
        k = {"int": "int_v", "double": "double_v"}[ttype]
    return K.ROWS[k]


def res_row(name, ttype=None):
    if name == "T":
        name = ttype
    return K.RESULTS[name]


def px(p):
    """Cross references of a parameter to other parameters of its function: size argument(s), array argument."""
    return {k: p.get(k, "") for k in ("m", "a", "m1", "m2")}


def fmt(s, **kw):
    for k, v in kw.items():
        s = s.replace("{" + k + "}", str(v))
    return s.replace("{{", "{").replace("}}", "}")


def sigid(c, ptypes):
    return "ns1::%s(%s)" % (c["name"], ",".join(ptypes))


def cxx_ptype(p, ttype=None):
    r = row(p, ttype)
    t = fmt(r["cxx"], n="").strip()
    return re.sub(r"\s+", " ", t).replace(" *", "*").replace(" &", "&")


def variants(c):
    """Callable signatures of a case: (template type or None, number of supplied params)."""
    n = len(c["params"])
    ndef = sum(1 for p in c["params"] if "default" in p)
    for tt in (c.get("template") or [None]):
        for k in range(n - ndef, n + 1):
            yield tt, k


def yaml_decl(c):
    ps = []
    for p in c["params"]:
        if p["kind"] == "T_v":
            s = "T " + p["name"]
        else:
            s = fmt(row(p)["yaml"], n=p["name"], **px(p))
        if "default" in p:
            s += " = " + p["default"]
        ps.append(s)
    r = "T" if c["result"] == "T" else K.RESULTS[c["result"]]["yaml"]
    d = {"decl": "%s %s(%s)%s" % (r, c["name"], ", ".join(ps), "" if c["result"] == "T" else K.RESULTS[c["result"]].get("attrs", ""))}
    d.update(c.get("yaml_extra") or {})
    if c.get("template"):
        d["decl"] = "template<typename T> " + d["decl"]
        d["cxx_template"] = [{"instantiation": "<%s>" % t} for t in c["template"]]
    return d


DERIVED_YAML = [
    {"decl": "class Derived : public Cls", "declarations": [
        {"decl": "Derived(int v, int w)"}, {"decl": "~Derived()"}, {"decl": "int extra() const"}]},
]
DERIVED_HPP = """
class Derived : public Cls {
public:
    int more;
    Derived(int v, int w);
    ~Derived();
    int extra() const;
};
"""
DERIVED_CPP = """
Derived::Derived(int v, int w) : Cls(v, true), more(w) {
    vt_begin("LibEnter", "Derived::Derived"); vt_target("ns1::Derived::Derived(int,int)"); vt_int(v); vt_int(w); vt_end();
    vt_begin("LibExit", "Derived::Derived"); vt_target("ns1::Derived::Derived(int,int)"); vt_obj(this); vt_end(); }
Derived::~Derived() {
    vt_begin("LibEnter", "Derived::~Derived"); vt_target("ns1::Derived::~Derived()"); vt_obj(this); vt_end();
    vt_begin("LibExit", "Derived::~Derived"); vt_target("ns1::Derived::~Derived()"); vt_end(); }
int Derived::extra() const {
    vt_begin("LibEnter", "Derived::extra"); vt_target("ns1::Derived::extra()"); vt_obj(this); vt_end();
    int rv = more + value;
    vt_begin("LibExit", "Derived::extra"); vt_target("ns1::Derived::extra()"); vt_int(rv); vt_end(); return rv; }
"""


def gen_library(cases, with_class, extra_options=None, language="c++", ns="ns1", derived=False):
    decls = [{"decl": "enum Color { RED = 1, BLUE = 5 }"}, {"decl": "struct Pt { int x; double y; }"},
             {"decl": "typedef int TypeID"}, {"decl": "typedef char Name"}]
    decls += [yaml_decl(c) for c in cases]
    if with_class:
        decls += CLS_YAML
        if derived:
            decls += DERIVED_YAML
    y = {"library": "sub", "cxx_header": "sub.hpp",
         "options": dict({"debug": True, "wrap_fortran": False, "wrap_python": False, "wrap_lua": False}, **(extra_options or {})),
         "declarations": [{"decl": "namespace ns1", "declarations": decls}] if ns else decls}
    hpp = ["#ifndef SUB_HPP", "#define SUB_HPP", "#include <stdint.h>", "#include <stddef.h>", "#include <string>", "#include <vector>", "namespace ns1 {" if ns else "",
           "enum Color { RED = 1, BLUE = 5 };", "struct Pt { int x; double y; };", "typedef int TypeID;", "typedef char Name;"]
    cpp = ['#include "sub.hpp"', '#include "vt.h"', "#include <cstring>", "#include <cstdio>", "namespace ns1 {" if ns else ""]
    for ci, c in enumerate(cases):
        for tt in (c.get("template") or [None]):
            ptxt, ptypes = [], []
            for p in c["params"]:
                r = row(p, tt)
                s = fmt(r["cxx"], n=p["name"])
                ptypes.append(cxx_ptype(p, tt))
                ptxt.append(s)
            rr = res_row(c["result"], tt)
            sid = sigid(c, ptypes)
            # header: defaults appear in the declaration
            hp = []
            for p, s in zip(c["params"], ptxt):
                hp.append(s + (" = " + p["default"] if "default" in p else ""))
            if tt is None:
                hpp.append("%s %s(%s);" % (rr["cxx"], c["name"], ", ".join(hp)))
                head = "%s %s(%s)" % (rr["cxx"], c["name"], ", ".join(ptxt))
            else:
                if tt == c["template"][0]:
                    gen = ", ".join((("T " + p["name"]) if p["kind"] == "T_v" else fmt(row(p)["cxx"], n=p["name"])) +
                                    (" = " + p["default"] if "default" in p else "") for p in c["params"])
                    hpp.append("template<typename T> %s %s(%s);" % ("T" if c["result"] == "T" else rr["cxx"], c["name"], gen))
                head = "template<> %s %s<%s>(%s)" % (rr["cxx"], c["name"], tt, ", ".join(ptxt))
            body = ["    long acc = %d;" % (7 * ci + 3)]
            body.append('    vt_begin("LibEnter", "%s"); vt_target("%s");' % (c["name"], sid))
            for w, p in enumerate(c["params"], 1):
                r = row(p, tt)
                if "lib_in" in r:
                    body.append("    " + fmt(r["lib_in"], n=p["name"], **px(p)))
            body.append("    vt_end();")
            for w, p in enumerate(c["params"], 1):
                r = row(p, tt)
                if "acc" in r:
                    body.append("    " + fmt(r["acc"], n=p["name"], w=w, **px(p)))
            body.append("    if (acc < 0) acc = -acc;")
            for w, p in enumerate(c["params"], 1):
                r = row(p, tt)
                if "lib_set" in r:
                    body.append("    " + fmt(r["lib_set"], n=p["name"], w=w, **px(p)))
            if "lib_make" in rr:
                body.append("    " + rr["lib_make"])
            body.append('    vt_begin("LibExit", "%s"); vt_target("%s");' % (c["name"], sid))
            if "lib_out" in rr:
                body.append("    " + rr["lib_out"])
            for p in c["params"]:
                r = row(p, tt)
                if "lib_out" in r:
                    body.append("    " + fmt(r["lib_out"], n=p["name"], **px(p)))
            body.append("    vt_end();")
            if rr["ty"] != "none" or rr.get("returns"):
                body.append("    return rv;")
            cpp.append(head + "\n{\n" + "\n".join(body) + "\n}")
    if with_class:
        hpp.append(CLS_HPP)
        cpp.append(CLS_CPP)
        if derived:
            hpp.append(DERIVED_HPP)
            cpp.append(DERIVED_CPP)
    hpp += ["}" if ns else "", "#endif"]
    cpp += ["}" if ns else "/*end*/"]
    return y, "\n".join(hpp) + "\n", "\n".join(cpp) + "\n"


def tla_sig(c, tt, nsup, front="c"):
    params = []
    for p in c["params"]:
        r = row(p, tt)
        api = "arg"
        ref = 0
        if front == "f" and r.get("api"):
            api = r["api"]
            ref = ([q["name"] for q in c["params"]].index(p["a"]) + 1) if "a" in p else 0
        d = {"has": False, "v": {"t": "i", "v": [0]}}
        if "default" in p:
            d = {"has": True, "v": default_value(p, r)}
        params.append({"ty": r["ty"], "intent": r["intent"], "api": api,
                       "conv": (r.get("conv", "id") if front == "f" else "id"), "ref": ref, "def": d, "back": "id"})
    return {"params": params, "nsup": nsup, "self": False, "result": res_row(c["result"], tt)["ty"], "resback": "id"}


def default_value(p, r):
    v = p["default"]
    if r["ty"] == "int":
        return {"t": "i", "v": [int(v)]}
    if r["ty"] == "dbl":
        return {"t": "d", "v": [int(float(v) * 4)]}
    if r["ty"] == "bool":
        return {"t": "b", "v": [1 if v in ("true", "1") else 0]}
    raise ValueError(v)


def read_cnames(outdir):
    """(cxx name, C parameter type list) -> C name, from the debug comments of the generated sources."""
    sys.path.insert(0, os.path.join(os.path.dirname(HERE), "checks"))
    import c08

    crows, _f, _g, _p, _l = c08.read_tables(outdir, "sub")
    return crows


def norm_ctype(t):
    return re.sub(r"\s+", "", t)


def c_expected_types(c, tt, nsup):
    out = []
    for p in c["params"][:nsup]:
        r = row(p, tt)
        k = p["kind"] if p["kind"] != "T_v" else {"int": "int_v", "double": "double_v"}[tt]
        if "ctype" in r:
            out.append(r["ctype"].replace(" ", ""))
            continue
        ct = {"int_phidden": "int*", "tdint_v": "int", "tdstr_in": "constchar*", "int_v": "int", "long_v": "long", "double_v": "double", "bool_v": "bool", "enum_v": "int",
              "int_pin": "constint*", "int_pout": "int*", "int_pinout": "int*", "int_ref": "int*", "dbl_cref": "constdouble*",
              "dbl_pout": "double*", "bool_pinout": "bool*", "cstr_in": "constchar*", "str_cref": "constchar*", "str_v": "char*",
              "str_ref_inout": "char*", "str_ref_out": "char*", "pt_v": "SUB_pt", "pt_pinout": "SUB_pt*",
              "pt_cref": "constSUB_pt*", "arr_in": "constdouble*", "arr_n": "int", "arr_out": "double*", "out_n": "int"}[k]
        out.append(ct)
    return out


def gen_c_driver(cases, crows, nvals, with_class):
    """C source of the driver; returns (text, calls) where calls[i] = (case, tt, nsup, cname)."""
    by = {}
    for r in crows:
        by.setdefault(r["name"], []).append(r)
    lines = ['#include <stdio.h>', '#include <stdbool.h>', '#include <string.h>', '#include "vt.h"',
             '#include "wrapsub_ns1.h"']
    if with_class:
        lines.append('#include "wrapns1_Cls.h"')
    if with_class == "derived":
        lines.append('#include "wrapns1_Derived.h"')
    lines.append("int main(void)\n{")
    calls = []
    missing = []
    for c in cases:
        for tt, nsup in variants(c):
            want = c_expected_types(c, tt, nsup)
            cand = [r for r in by.get(c["name"], []) if [norm_ctype(t) for t in r["params"]] == want]
            if len(cand) != 1:
                missing.append((c["name"], tt, nsup, want, [r["params"] for r in by.get(c["name"], [])]))
                continue
            cname = cand[0]["cname"]
            ptypes = [cxx_ptype(p, tt) for p in c["params"]]
            sid = sigid(c, ptypes)
            for vi in range(nvals):
                blk = ["  {"]
                for j, p in enumerate(c["params"][:nsup]):
                    r = row(p, tt)
                    v = r["vals"][(vi + j) % len(r["vals"])]
                    if r.get("size_of") or p["kind"] in ("arr_n", "out_n"):
                        v = r["vals"][vi % len(r["vals"])]
                    blk.append("    " + fmt(r["c_decl"], n=p["name"], v=v, PT="SUB_pt"))
                rr = res_row(c["result"], tt)
                if "c_decl" in rr:
                    blk.append("    " + fmt(rr["c_decl"], PT="SUB_pt"))
                blk.append('    vt_begin("CallerInvoke", "%s"); vt_target("%s");' % (cname, sid))
                for p in c["params"][:nsup]:
                    r = row(p, tt)
                    if "c_in" in r:
                        blk.append("    " + fmt(r["c_in"], n=p["name"], **px(p)))
                blk.append("    vt_end();")
                args = ", ".join(fmt(row(p, tt)["c_arg"], n=p["name"]) for p in c["params"][:nsup])
                call = "%s(%s);" % (cname, args)
                blk.append("    " + ("rv = " if rr["ty"] != "none" else "") + call)
                blk.append('    vt_begin("CallerReturn", "%s"); vt_target("%s");' % (cname, sid))
                if "c_out" in rr:
                    blk.append("    " + rr["c_out"])
                for p in c["params"][:nsup]:
                    r = row(p, tt)
                    if "c_out" in r:
                        blk.append("    " + fmt(r["c_out"], n=p["name"], **px(p)))
                blk.append("    vt_end();")
                blk.append("  }")
                lines += blk
                calls.append((c, tt, nsup, cname))
    if with_class:
        lines.append(CLS_DRIVER)
    if with_class == "derived":
        lines.append(DERIVED_CDRIVER)
    lines.append("  return 0;\n}")
    return "\n".join(lines) + "\n", calls, missing


CLS_DRIVER = r"""
  {
    SUB_ns1_Cls a, b, c, d, e; int rv;
    #define INV(f, t) vt_begin("CallerInvoke", f); vt_target(t)
    #define RET(f, t) vt_begin("CallerReturn", f); vt_target(t)
    INV("SUB_ns1_Cls_ctor", "ns1::Cls::Cls(int)"); vt_int(5); vt_end();
    SUB_ns1_Cls_ctor(5, &a);
    RET("SUB_ns1_Cls_ctor", "ns1::Cls::Cls(int)"); vt_obj(a.addr); vt_end();
    INV("SUB_ns1_Cls_ctor", "ns1::Cls::Cls(int)"); vt_int(-2); vt_end();
    SUB_ns1_Cls_ctor(-2, &b);
    RET("SUB_ns1_Cls_ctor", "ns1::Cls::Cls(int)"); vt_obj(b.addr); vt_end();
    INV("SUB_ns1_make", "ns1::make(int)"); vt_int(9); vt_end();
    SUB_ns1_make(9, &c);
    RET("SUB_ns1_make", "ns1::make(int)"); vt_obj(c.addr); vt_end();
    INV("SUB_ns1_Cls_get", "ns1::Cls::get()"); vt_obj(b.addr); vt_end();
    rv = SUB_ns1_Cls_get(&b);
    RET("SUB_ns1_Cls_get", "ns1::Cls::get()"); vt_int(rv); vt_end();
    INV("SUB_ns1_Cls_set", "ns1::Cls::set(int)"); vt_obj(a.addr); vt_int(77); vt_end();
    SUB_ns1_Cls_set(&a, 77);
    RET("SUB_ns1_Cls_set", "ns1::Cls::set(int)"); vt_end();
    INV("SUB_ns1_Cls_get", "ns1::Cls::get()"); vt_obj(a.addr); vt_end();
    rv = SUB_ns1_Cls_get(&a);
    RET("SUB_ns1_Cls_get", "ns1::Cls::get()"); vt_int(rv); vt_end();
    INV("SUB_ns1_Cls_count", "ns1::Cls::count()"); vt_end();
    rv = SUB_ns1_Cls_count();
    RET("SUB_ns1_Cls_count", "ns1::Cls::count()"); vt_int(rv); vt_end();
    INV("SUB_ns1_Cls_add", "ns1::Cls::add(const Cls&,Cls*)"); vt_obj(a.addr); vt_obj(b.addr); vt_obj(c.addr); vt_end();
    rv = SUB_ns1_Cls_add(&a, &b, &c);
    RET("SUB_ns1_Cls_add", "ns1::Cls::add(const Cls&,Cls*)"); vt_int(rv); vt_end();
    INV("SUB_ns1_Cls_add", "ns1::Cls::add(const Cls&,Cls*)"); vt_obj(c.addr); vt_obj(a.addr); vt_obj(b.addr); vt_end();
    rv = SUB_ns1_Cls_add(&c, &a, &b);
    RET("SUB_ns1_Cls_add", "ns1::Cls::add(const Cls&,Cls*)"); vt_int(rv); vt_end();
    INV("SUB_ns1_Cls_clone", "ns1::Cls::clone()"); vt_obj(b.addr); vt_end();
    SUB_ns1_Cls_clone(&b, &d);
    RET("SUB_ns1_Cls_clone", "ns1::Cls::clone()"); vt_obj(d.addr); vt_end();
    INV("SUB_ns1_Cls_get", "ns1::Cls::get()"); vt_obj(d.addr); vt_end();
    rv = SUB_ns1_Cls_get(&d);
    RET("SUB_ns1_Cls_get", "ns1::Cls::get()"); vt_int(rv); vt_end();
    INV("SUB_ns1_Cls_dtor", "ns1::Cls::~Cls()"); vt_obj(a.addr); vt_end();
    SUB_ns1_Cls_dtor(&a);
    RET("SUB_ns1_Cls_dtor", "ns1::Cls::~Cls()"); vt_end();
    INV("SUB_ns1_Cls_count", "ns1::Cls::count()"); vt_end();
    rv = SUB_ns1_Cls_count();
    RET("SUB_ns1_Cls_count", "ns1::Cls::count()"); vt_int(rv); vt_end();
    /* member accessors (specs/Members.tla): wrapper-side events; the library's get()/set() give its own view */
    #define MSET_I(m, h, v) vt_begin("MemberSet", m); vt_obj((h).addr); vt_int(v); vt_end()
    #define MGET_I(m, h, v) vt_begin("MemberGet", m); vt_obj((h).addr); vt_int(v); vt_end()
    #define MSET_D(m, h, v) vt_begin("MemberSet", m); vt_obj((h).addr); vt_dbl(v); vt_end()
    #define MGET_D(m, h, v) vt_begin("MemberGet", m); vt_obj((h).addr); vt_dbl(v); vt_end()
    { int g; double x;
      g = SUB_ns1_Cls_get_value(&b); MGET_I("value", b, g);
      g = SUB_ns1_Cls_get_ro(&b); MGET_I("ro", b, g);
      x = SUB_ns1_Cls_get_alt(&b); MGET_D("alt", b, x);
      MSET_I("value", b, 31); SUB_ns1_Cls_set_value(&b, 31);
      INV("SUB_ns1_Cls_get", "ns1::Cls::get()"); vt_obj(b.addr); vt_end();
      rv = SUB_ns1_Cls_get(&b);
      RET("SUB_ns1_Cls_get", "ns1::Cls::get()"); vt_int(rv); vt_end();
      g = SUB_ns1_Cls_get_value(&b); MGET_I("value", b, g);
      g = SUB_ns1_Cls_get_value(&c); MGET_I("value", c, g);
      g = SUB_ns1_Cls_get_ro(&b); MGET_I("ro", b, g);
      INV("SUB_ns1_Cls_set", "ns1::Cls::set(int)"); vt_obj(c.addr); vt_int(-6); vt_end();
      SUB_ns1_Cls_set(&c, -6);
      RET("SUB_ns1_Cls_set", "ns1::Cls::set(int)"); vt_end();
      g = SUB_ns1_Cls_get_value(&c); MGET_I("value", c, g);
      MSET_D("alt", c, 2.25); SUB_ns1_Cls_set_alt(&c, 2.25);
      x = SUB_ns1_Cls_get_alt(&c); MGET_D("alt", c, x);
      x = SUB_ns1_Cls_get_alt(&d); MGET_D("alt", d, x);
      g = SUB_ns1_Cls_get_value(&d); MGET_I("value", d, g);
      g = SUB_ns1_Cls_get_ro(&d); MGET_I("ro", d, g);
      g = (int)SUB_ns1_Cls_get_tint(&c); MGET_I("tint", c, g);
      MSET_I("tint", c, 5); SUB_ns1_Cls_set_tint(&c, 5);
      g = (int)SUB_ns1_Cls_get_tint(&c); MGET_I("tint", c, g);
      g = (int)SUB_ns1_Cls_get_tint(&d); MGET_I("tint", d, g);
    }
    /* objects returned by value: e, then the same handle after it was released, a const result, a free function */
    INV("SUB_ns1_Cls_dup", "ns1::Cls::dup()"); vt_obj(b.addr); vt_end();
    SUB_ns1_Cls_dup(&b, &e);
    RET("SUB_ns1_Cls_dup", "ns1::Cls::dup()"); vt_int(SUB_ns1_Cls_get_value(&e)); vt_end();
    INV("SUB_ns1_Cls_get", "ns1::Cls::get()"); vt_obj(e.addr); vt_end();
    rv = SUB_ns1_Cls_get(&e);
    RET("SUB_ns1_Cls_get", "ns1::Cls::get()"); vt_int(rv); vt_end();
    INV("SUB_ns1_Cls_set", "ns1::Cls::set(int)"); vt_obj(e.addr); vt_int(-40); vt_end();
    SUB_ns1_Cls_set(&e, -40);
    RET("SUB_ns1_Cls_set", "ns1::Cls::set(int)"); vt_end();
    INV("SUB_ns1_Cls_get", "ns1::Cls::get()"); vt_obj(b.addr); vt_end();
    rv = SUB_ns1_Cls_get(&b);
    RET("SUB_ns1_Cls_get", "ns1::Cls::get()"); vt_int(rv); vt_end();
    INV("SUB_ns1_Cls_dtor", "ns1::Cls::~Cls()"); vt_obj(e.addr); vt_end();
    SUB_ns1_Cls_dtor(&e);
    RET("SUB_ns1_Cls_dtor", "ns1::Cls::~Cls()"); vt_end();
    INV("SUB_ns1_Cls_cdup", "ns1::Cls::cdup()"); vt_obj(c.addr); vt_end();
    SUB_ns1_Cls_cdup(&c, &e);
    RET("SUB_ns1_Cls_cdup", "ns1::Cls::cdup()"); vt_int(SUB_ns1_Cls_get_value(&e)); vt_end();
    INV("SUB_ns1_Cls_dtor", "ns1::Cls::~Cls()"); vt_obj(e.addr); vt_end();
    SUB_ns1_Cls_dtor(&e);
    RET("SUB_ns1_Cls_dtor", "ns1::Cls::~Cls()"); vt_end();
    INV("SUB_ns1_fresh", "ns1::fresh(int)"); vt_int(64); vt_end();
    SUB_ns1_fresh(64, &e);
    RET("SUB_ns1_fresh", "ns1::fresh(int)"); vt_int(SUB_ns1_Cls_get_value(&e)); vt_end();
    INV("SUB_ns1_Cls_get", "ns1::Cls::get()"); vt_obj(e.addr); vt_end();
    rv = SUB_ns1_Cls_get(&e);
    RET("SUB_ns1_Cls_get", "ns1::Cls::get()"); vt_int(rv); vt_end();
    INV("SUB_ns1_Cls_dtor", "ns1::Cls::~Cls()"); vt_obj(e.addr); vt_end();
    SUB_ns1_Cls_dtor(&e);
    RET("SUB_ns1_Cls_dtor", "ns1::Cls::~Cls()"); vt_end();
    INV("SUB_ns1_Cls_count", "ns1::Cls::count()"); vt_end();
    rv = SUB_ns1_Cls_count();
    RET("SUB_ns1_Cls_count", "ns1::Cls::count()"); vt_int(rv); vt_end();
  }
"""


# a derived object through the C API: its own entry points, and the base class's entry points on the same capsule
# (both capsule structs are {addr, idtor}; this is what the generated Fortran type EXTENDS relies on)
DERIVED_CDRIVER = r"""
  {
    SUB_ns1_Derived e, f; int rv;
    INV("SUB_ns1_Derived_ctor", "ns1::Derived::Derived(int,int)"); vt_int(4); vt_int(6); vt_end();
    SUB_ns1_Derived_ctor(4, 6, &e);
    RET("SUB_ns1_Derived_ctor", "ns1::Derived::Derived(int,int)"); vt_obj(e.addr); vt_end();
    INV("SUB_ns1_Derived_ctor", "ns1::Derived::Derived(int,int)"); vt_int(-3); vt_int(0); vt_end();
    SUB_ns1_Derived_ctor(-3, 0, &f);
    RET("SUB_ns1_Derived_ctor", "ns1::Derived::Derived(int,int)"); vt_obj(f.addr); vt_end();
    INV("SUB_ns1_Derived_extra", "ns1::Derived::extra()"); vt_obj(e.addr); vt_end();
    rv = SUB_ns1_Derived_extra(&e);
    RET("SUB_ns1_Derived_extra", "ns1::Derived::extra()"); vt_int(rv); vt_end();
    INV("SUB_ns1_Cls_get", "ns1::Cls::get()"); vt_obj(e.addr); vt_end();
    rv = SUB_ns1_Cls_get((SUB_ns1_Cls *) &e);
    RET("SUB_ns1_Cls_get", "ns1::Cls::get()"); vt_int(rv); vt_end();
    INV("SUB_ns1_Cls_set", "ns1::Cls::set(int)"); vt_obj(f.addr); vt_int(12); vt_end();
    SUB_ns1_Cls_set((SUB_ns1_Cls *) &f, 12);
    RET("SUB_ns1_Cls_set", "ns1::Cls::set(int)"); vt_end();
    INV("SUB_ns1_Derived_extra", "ns1::Derived::extra()"); vt_obj(f.addr); vt_end();
    rv = SUB_ns1_Derived_extra(&f);
    RET("SUB_ns1_Derived_extra", "ns1::Derived::extra()"); vt_int(rv); vt_end();
    INV("SUB_ns1_Cls_get", "ns1::Cls::get()"); vt_obj(f.addr); vt_end();
    rv = SUB_ns1_Cls_get((SUB_ns1_Cls *) &f);
    RET("SUB_ns1_Cls_get", "ns1::Cls::get()"); vt_int(rv); vt_end();
    { int g;
      g = SUB_ns1_Cls_get_value((SUB_ns1_Cls *) &f); MGET_I("value", f, g);
      MSET_I("value", e, 8); SUB_ns1_Cls_set_value((SUB_ns1_Cls *) &e, 8);
      INV("SUB_ns1_Derived_extra", "ns1::Derived::extra()"); vt_obj(e.addr); vt_end();
      rv = SUB_ns1_Derived_extra(&e);
      RET("SUB_ns1_Derived_extra", "ns1::Derived::extra()"); vt_int(rv); vt_end();
      g = SUB_ns1_Cls_get_value((SUB_ns1_Cls *) &e); MGET_I("value", e, g);
    }
    INV("SUB_ns1_Derived_dtor", "ns1::Derived::~Derived()"); vt_obj(e.addr); vt_end();
    SUB_ns1_Derived_dtor(&e);
    RET("SUB_ns1_Derived_dtor", "ns1::Derived::~Derived()"); vt_end();
    INV("SUB_ns1_Cls_count", "ns1::Cls::count()"); vt_end();
    rv = SUB_ns1_Cls_count();
    RET("SUB_ns1_Cls_count", "ns1::Cls::count()"); vt_int(rv); vt_end();
    INV("SUB_ns1_Derived_dtor", "ns1::Derived::~Derived()"); vt_obj(f.addr); vt_end();
    SUB_ns1_Derived_dtor(&f);
    RET("SUB_ns1_Derived_dtor", "ns1::Derived::~Derived()"); vt_end();
  }
"""


# members of further types that only the Python class declares (constructor values; reals in quarters)
EXTRA_INIT = {"us": 7, "u8": 3, "ll": 100, "fl": 6, "flag": 1, "tint": 1}


def member_trace(events, cls="Cls", out=None):
    """The log of a run as a sequence of specs/Members.tla actions: constructor / destructor / get() / set() events of
    the instrumented library, MemberSet / MemberGet events of the driver.  Objects are numbered in order of appearance."""
    outdir = out
    ids = {}

    nid = [0]

    def oid(x):
        if x not in ids:
            nid[0] += 1
            ids[x] = nid[0]
        return ids[x]

    def num(x):
        return int(x["v"])     # vt_dbl logs quarters
    out = []
    pend = {}
    alive = set()       # addresses announced by a logged constructor and not yet destroyed
    for e in events:
        vals = [x for x in e.get("vals", []) if x["t"] != "target"]
        ev, f = e["ev"], e["f"]
        if ev == "LibEnter" and f == cls + "::" + cls:
            pend["ctor"] = num(vals[0])
        elif ev == "LibExit" and f == cls + "::" + cls and "ctor" in pend:
            v = pend.pop("ctor")
            ids.pop(vals[0]["v"], None)
            alive.add(vals[0]["v"])
            out.append({"op": "New", "o": oid(vals[0]["v"]), "m": "", "v": 0, "init": dict({"value": v, "ro": 2 * v, "alt": 4 * v + 2}, **EXTRA_INIT)})
        elif ev == "LibEnter" and f == "Derived::Derived":
            pend["dctor"] = num(vals[0])
        elif ev == "LibExit" and f == "Derived::Derived" and "dctor" in pend:
            v = pend.pop("dctor")
            ids.pop(vals[0]["v"], None)
            alive.add(vals[0]["v"])
            out.append({"op": "New", "o": oid(vals[0]["v"]), "m": "", "v": 0, "init": dict({"value": v, "ro": 2 * v, "alt": 4 * v + 2}, **EXTRA_INIT)})
        elif ev == "LibEnter" and f in (cls + "::~" + cls, "Derived::~Derived", cls + "::set", cls + "::get") and vals[0]["v"] not in alive:
            # an object no logged constructor announced (the wrapper's copy of a by-value result, possibly at the
            # address of an object that is gone): its state is the call contract's business (CLS_SIGS), not Members'
            pend.pop("get", None)
        elif ev == "LibEnter" and f in (cls + "::~" + cls, "Derived::~Derived"):
            alive.discard(vals[0]["v"])
            out.append({"op": "Delete", "o": oid(vals[0]["v"]), "m": "", "v": 0})
        elif ev == "LibEnter" and f == cls + "::set":
            out.append({"op": "LSet", "o": oid(vals[0]["v"]), "m": "value", "v": num(vals[1])})
        elif ev == "LibEnter" and f == cls + "::get":
            pend["get"] = oid(vals[0]["v"])
        elif ev == "LibExit" and f == cls + "::get" and "get" in pend:
            out.append({"op": "LGet", "o": pend.pop("get"), "m": "value", "v": num(vals[0])})
        elif ev == "MemberBad":
            out.append({"op": "WBad", "o": oid(vals[0]["v"]), "m": f, "v": num(vals[1])})
        elif ev in ("MemberSet", "MemberGet"):
            out.append({"op": "WSet" if ev == "MemberSet" else "WGet", "o": oid(vals[0]["v"]), "m": f, "v": num(vals[1])})
    if outdir and os.path.isdir(outdir):
        # a setter the wrappers offer for the read-only member is a way to write it, called or not
        for fn in sorted(os.listdir(outdir)):
            if fn.endswith((".h", ".hpp", ".f", ".f90")) and re.search(r"\bset_ro\b|_set_ro\b", open(os.path.join(outdir, fn), errors="replace").read()):
                alive = [e["o"] for e in out if e["op"] == "New" and not any(x["op"] == "Delete" and x["o"] == e["o"] for x in out)]
                out.append({"op": "WSet", "o": alive[-1] if alive else 1, "m": "ro", "v": 0})
                break
    return out

CLS_SIGS = {
    "ns1::Cls::Cls(int)": {"params": [("int", "in")], "self": False, "result": "obj"},
    "ns1::make(int)": {"params": [("int", "in")], "self": False, "result": "obj"},
    "ns1::Cls::get()": {"params": [], "self": True, "result": "int"},
    "ns1::Cls::set(int)": {"params": [("int", "in")], "self": True, "result": "none"},
    "ns1::Cls::count()": {"params": [], "self": False, "result": "int"},
    "ns1::Cls::add(const Cls&,Cls*)": {"params": [("obj", "in"), ("obj", "in")], "self": True, "result": "int"},
    "ns1::Cls::clone()": {"params": [], "self": True, "result": "obj"},
    "ns1::Cls::~Cls()": {"params": [], "self": True, "result": "none"},
    # objects returned by value: the result is a new object the caller owns; what is compared is its state (member
    # `value` read through the generated getter), the object itself goes on through get() and the destructor
    "ns1::Cls::dup()": {"params": [], "self": True, "result": "int"},
    "ns1::Cls::cdup()": {"params": [], "self": True, "result": "int"},
    "ns1::fresh(int)": {"params": [("int", "in")], "self": False, "result": "int"},
    # a class derived from Cls (single inheritance): its own members and the inherited ones on a derived object
    "ns1::Derived::Derived(int,int)": {"params": [("int", "in"), ("int", "in")], "self": False, "result": "obj"},
    "ns1::Derived::extra()": {"params": [], "self": True, "result": "int"},
    "ns1::Derived::~Derived()": {"params": [], "self": True, "result": "none"},
}


def cls_sig(target):
    s = CLS_SIGS[target]
    nodef = {"has": False, "v": {"t": "i", "v": [0]}}
    return {"params": [{"ty": t, "intent": i, "api": "arg", "conv": "id", "ref": 0, "def": nodef, "back": "id"} for t, i in s["params"]],
            "nsup": len(s["params"]), "self": s["self"], "result": s["result"], "resback": "id"}


_OBJ = {}


def norm_vals(vals):
    """Event values -> (target, [[t, [ints]]...]); object addresses become small ids in order of appearance"""
    target = ""
    out = []
    for x in vals:
        t, v = x["t"], x["v"]
        if t == "o":
            v = 0 if v == 0 else _OBJ.setdefault(v, len(_OBJ) + 1)
        if t == "target":
            target = v
            continue
        if t in ("i", "d", "o"):
            v = [v]
        elif t == "b":
            v = [1 if v else 0]
        elif t == "null":
            v = []
        elif t == "dx":
            v = [ord(ch) for ch in str(v)]
        out.append({"t": t, "v": v})
    return target, out


def cut_calls(events):
    """Per-call event lists.  Library events nested inside a library call (a
    constructor run by make()/clone()) belong to the library's own business and
    are not part of the wrapper protocol."""
    calls = []
    cur = None
    depth = 0
    _OBJ.clear()
    for e in events:
        if e["ev"] == "Note":
            continue
        tg, vals = norm_vals(e["vals"])
        ev = {"ev": e["ev"], "f": e["f"], "target": tg, "vals": vals}
        if e["ev"] == "CallerInvoke":
            if cur is not None:
                calls.append(cur)
            cur = [ev]
            depth = 0
        elif cur is not None:
            if e["ev"] == "LibEnter":
                depth += 1
                if depth > 1:
                    continue
            elif e["ev"] == "LibExit":
                depth -= 1
                if depth > 0:
                    continue
            cur.append(ev)
            if e["ev"] == "CallerReturn":
                calls.append(cur)
                cur = None
    if cur is not None:
        calls.append(cur)
    return calls


def sh(cmd, cwd):
    p = subprocess.run(cmd, cwd=cwd, stdout=subprocess.PIPE, stderr=subprocess.STDOUT, text=True)
    return p.returncode, p.stdout


def build_and_run_c(d, cases, with_class=True, nvals=4, options=None, extra_argv=()):
    """Everything for the C front in directory d. Returns dict(traces=[...], problems=[...])."""
    import yaml

    os.makedirs(d, exist_ok=True)
    y, hpp, cpp = gen_library(cases, bool(with_class), options, derived=(with_class == "derived"))
    with open(os.path.join(d, "sub.yaml"), "w") as f:
        yaml.safe_dump(y, f, default_flow_style=False, sort_keys=False)
    open(os.path.join(d, "sub.hpp"), "w").write(hpp)
    open(os.path.join(d, "sub.cpp"), "w").write(cpp)
    out = os.path.join(d, "gen")
    os.makedirs(out, exist_ok=True)
    rc, so, se = shroudrun.run(["--outdir", out, "--logdir", out] + list(extra_argv) + [os.path.join(d, "sub.yaml")])
    if rc != 0:
        return {"traces": [], "problems": [("shroud", se[-800:])]}
    crows = read_cnames(out)
    drv, calls, missing = gen_c_driver(cases, crows, nvals, with_class)
    open(os.path.join(d, "driver.c"), "w").write(drv)
    problems = [("no-c-name", m) for m in missing]
    inc = ["-I", d, "-I", out, "-I", HERE]
    srcs = [os.path.join(out, f) for f in sorted(os.listdir(out)) if f.endswith(".cpp")]
    objs = []
    for s in [os.path.join(d, "sub.cpp")] + srcs:
        o = s + ".o"
        rc, txt = sh(["g++", "-std=c++11", "-g", "-c", s, "-o", o] + inc, d)
        if rc != 0:
            return {"traces": [], "problems": problems + [("compile", txt[-1200:])]}
        objs.append(o)
    for s, cc in ((os.path.join(HERE, "vt.c"), "gcc"), (os.path.join(d, "driver.c"), "gcc")):
        o = os.path.join(d, os.path.basename(s) + ".o")
        rc, txt = sh([cc, "-std=c99", "-g", "-c", s, "-o", o] + inc, d)
        if rc != 0:
            return {"traces": [], "problems": problems + [("compile-driver", txt[-1500:])]}
        objs.append(o)
    exe = os.path.join(d, "driver")
    rc, txt = sh(["g++", "-o", exe] + objs, d)
    if rc != 0:
        return {"traces": [], "problems": problems + [("link", txt[-1200:])]}
    tf = os.path.join(d, "trace.ndjson")
    p = subprocess.run([exe], cwd=d, env=dict(os.environ, VT_TRACE=tf), stdout=subprocess.PIPE, stderr=subprocess.STDOUT,
                       text=True, timeout=120)
    if p.returncode != 0:
        problems.append(("driver-exit", "rc=%s %s" % (p.returncode, p.stdout[-500:])))
    events = [json.loads(l) for l in open(tf)] if os.path.exists(tf) else []
    cuts = cut_calls(events)
    traces = []
    gi = 0
    for k, ev in enumerate(cuts):
        tg = ev[0]["target"]
        if tg in CLS_SIGS:
            sig = cls_sig(tg)
            label = tg
        else:
            if gi >= len(calls):
                problems.append(("unmatched-call", tg))
                continue
            c, tt, nsup, cname = calls[gi]
            gi += 1
            sig = tla_sig(c, tt, nsup, "c")
            label = "%s [%s]" % (tg, cname)
        traces.append({"sig": sig, "events": ev, "label": label})
    return {"traces": traces, "problems": problems, "yaml": y, "members": member_trace(events, out=out) if with_class else []}
