"""Python front of the run-time checks (C03): extension build, call plan, driver."""
import json
import os
import re
import subprocess
import sys

HERE = os.path.dirname(os.path.abspath(__file__))
sys.path.insert(0, os.path.dirname(HERE))
import common  # noqa: E402
import shroudrun  # noqa: E402
from rt import cases as K, cgen  # noqa: E402

PYINC = "/root/.pyenv/versions/3.12.1/include/python3.12"
PY_ROWS = {"tdint_v", "tdstr_in", "int_v", "long_v", "double_v", "bool_v", "enum_v", "int_pin", "int_pout", "int_pinout", "int_ref", "dbl_cref", "dbl_pout",
           "bool_pinout", "cstr_in", "str_cref", "str_ref_inout", "str_ref_out",
           # list-mode arrays and vectors, structs as classes (PY_array_arg: list, PY_struct_arg: class)
           "arr_in", "arr_n", "arr_out", "out_n", "vec_in", "vec_out_alloc", "pt_v", "pt_pinout", "pt_cref",
           "arrx_out", "dim_n", "dim_m"}
PY_ROWS |= set(K.KIND_ROWS)
PY_RESULTS = set(K.KIND_RESULTS) | {"tdint", "void", "int", "double", "bool", "enum", "cstr", "str_cref", "pt"}
PT_Y = {"pt_v": 1.5, "pt_pinout": 2.5, "pt_cref": -0.5}
SIZES = [4, 0, 1, 3]

PCLS_YAML = [{"decl": "class Cls", "declarations": [
    {"decl": "Cls(int v)"}, {"decl": "Cls(const std::string & s)"}, {"decl": "~Cls()"}, {"decl": "int get() const"}, {"decl": "void set(int v)"},
    {"decl": "int add(const Cls & other, int k = 2)"},
    # member variables (docs/classes.rst "Member Variables"): descriptors of the Python type
    {"decl": "int value"}, {"decl": "int ro +readonly"}, {"decl": "double other +name(alt)"},
    {"decl": "unsigned short us"}, {"decl": "uint8_t u8"}, {"decl": "long long ll"}, {"decl": "float fl"}]},
    # (a bool member has no descriptor statements: Shroud writes an #error line for it, as documented in wrapp.py)
    # single inheritance (tp_base): the derived type has its own method and inherits the others
    {"decl": "class Derived : public Cls", "declarations": [
        {"decl": "Derived(int v, int w)"}, {"decl": "~Derived()"}, {"decl": "int extra() const"}]}]
PCLS_HPP = """
class Cls { public: int value; int ro; double other; unsigned short us; uint8_t u8; long long ll; float fl; bool flag;
    Cls(int v, bool quiet) : value(v), ro(2 * v), other(v + 0.5), us(7), u8(3), ll(100), fl(1.5f), flag(true) { (void)quiet; } explicit Cls(int v); explicit Cls(const std::string &s); ~Cls(); int get() const; void set(int v); int add(const Cls &other, int k = 2); };
"""
PCLS_HPP += """
class Derived : public Cls { public: int more; Derived(int v, int w); ~Derived(); int extra() const; };
"""
PCLS_CPP = """
Derived::Derived(int v, int w) : Cls(v, true), more(w) {
    vt_begin("LibEnter", "Derived::Derived"); vt_target("ns1::Derived::Derived(int,int)"); vt_int(v); vt_int(w); vt_end();
    vt_begin("LibExit", "Derived::Derived"); vt_target("ns1::Derived::Derived(int,int)"); vt_obj(this); vt_end(); }
Derived::~Derived() { }
int Derived::extra() const {
    vt_begin("LibEnter", "Derived::extra"); vt_target("ns1::Derived::extra()"); vt_obj(this); vt_end();
    int rv = more + value;
    vt_begin("LibExit", "Derived::extra"); vt_target("ns1::Derived::extra()"); vt_int(rv); vt_end(); return rv; }
"""
PCLS_CPP += """
Cls::Cls(int v) : value(v), ro(2 * v), other(v + 0.5), us(7), u8(3), ll(100), fl(1.5f), flag(true) {
    vt_begin("LibEnter", "Cls::Cls"); vt_target("ns1::Cls::Cls(int)"); vt_int(v); vt_end();
    vt_begin("LibExit", "Cls::Cls"); vt_target("ns1::Cls::Cls(int)"); vt_obj(this); vt_end(); }
Cls::Cls(const std::string &s) : value((int)s.size() + 50), ro(1), other(0.5), us(7), u8(3), ll(100), fl(1.5f) {
    vt_begin("LibEnter", "Cls::Cls"); vt_target("ns1::Cls::Cls(const std::string&)"); vt_str(s.c_str(), (long)s.size()); vt_end();
    vt_begin("LibExit", "Cls::Cls"); vt_target("ns1::Cls::Cls(const std::string&)"); vt_obj(this); vt_end(); }
Cls::~Cls() { }
int Cls::get() const {
    vt_begin("LibEnter", "Cls::get"); vt_target("ns1::Cls::get()"); vt_obj(this); vt_end();
    int rv = value;
    vt_begin("LibExit", "Cls::get"); vt_target("ns1::Cls::get()"); vt_int(rv); vt_end(); return rv; }
void Cls::set(int v) {
    vt_begin("LibEnter", "Cls::set"); vt_target("ns1::Cls::set(int)"); vt_obj(this); vt_int(v); vt_end();
    value = v;
    vt_begin("LibExit", "Cls::set"); vt_target("ns1::Cls::set(int)"); vt_end(); }
int Cls::add(const Cls &other, int k) {
    vt_begin("LibEnter", "Cls::add"); vt_target("ns1::Cls::add(const Cls&,int)"); vt_obj(this); vt_obj(&other); vt_int(k); vt_end();
    int rv = value + other.value * k;
    vt_begin("LibExit", "Cls::add"); vt_target("ns1::Cls::add(const Cls&,int)"); vt_int(rv); vt_end(); return rv; }
"""


def py_cases():
    out = []
    for c in K.base_cases():
        if c.get("template"):
            continue
        if all(p["kind"] in PY_ROWS for p in c["params"]) and c["result"] in PY_RESULTS:
            out.append(c)
    # a rank-2 output array whose extents are expressions (list mode: returned flat)
    out.append(K.F("q5", "int", [K.P("arrx_out", "grid", m="n", m2="m"), K.P("dim_n", "n"), K.P("dim_m", "m")]))
    # an intent(out) parameter in front of a defaulted one, and a defaulted string
    out.append(K.F("q1", "int", [K.P("int_v", "a"), K.P("int_pout", "rem"), K.P("int_v", "b", default="2")]))
    out.append(K.F("q2", "double", [K.P("double_v", "x"), K.P("dbl_pout", "y"), K.P("int_v", "n", default="5"),
                                    K.P("bool_v", "flag", default="true")]))
    # an overload set in which one candidate has a default on every argument (callable with none)
    out.append(K.F("q6", "int", [K.P("int_v", "a", default="3"), K.P("int_v", "b", default="4")], overload=0))
    out.append(K.F("q6", "int", [K.P("str_cref", "s")], overload=1))
    out.append(K.F("q6", "int", [K.P("double_v", "x"), K.P("bool_v", "f"), K.P("int_v", "k", default="1")], overload=2))
    return out


def pyval(row, text, kind=None, vi=0):
    """C literal of a row value -> (python value as JSON, tagged value)"""
    ty = row["ty"]
    t = text.strip()
    if ty == "int":
        v = int(eval(t.rstrip("L").replace("L", ""), {}))
        return v, {"t": "i", "v": [v]}
    if ty == "dbl":
        v = float(t)
        return v, {"t": "d", "v": [int(v * 4)]}
    if ty == "bool":
        v = t in ("1", "true")
        return v, {"t": "b", "v": [1 if v else 0]}
    if ty == "str":
        v = t[1:-1]
        return v, {"t": "s", "v": [ord(ch) for ch in v]}
    n = SIZES[vi % 4]
    if ty == "arrd":
        v = [1.0, float(t), -2.25, 8.0][:n]
        return v, {"t": "ad", "v": [int(x * 4) for x in v]}
    if ty == "arri":
        v = [1, int(t), -2, 8][:n]
        return v, {"t": "ai", "v": v}
    if ty == "pt":
        x, y = int(t), PT_Y[kind]
        return {"__pt__": [x, y]}, {"t": "ai", "v": [x, int(y * 4)]}
    raise ValueError(ty)


def is_input(p):
    r = cgen.row(p)
    return r["intent"] in ("in", "inout") and not r.get("api")


def tla_sig(c):
    s = cgen.tla_sig(c, None, len(c["params"]), "f")     # implied arguments are computed, as in Fortran ...
    for d in s["params"]:
        d["conv"] = "id"                                  # ... but Python strings are passed as they are
    return s


def in_names(c):
    return [p["name"] for p in c["params"] if is_input(p)]


def out_tags(c):
    """Expected tags of what the call returns (result first, then out/inout parameters): lets the driver tag an
    empty list, whose element type Python cannot tell."""
    tags = []
    TAG = {"int": "i", "dbl": "d", "bool": "b", "str": "s", "arri": "ai", "arrd": "ad", "pt": "ai"}
    rr = cgen.res_row(c["result"])
    if rr["ty"] != "none":
        tags.append(TAG.get(rr["ty"], "?"))
    for p in c["params"]:
        r = cgen.row(p)
        if r["intent"] in ("out", "inout"):
            tags.append(TAG.get(r["ty"], "?"))
    return tags


def cand(c):
    ptypes = [cgen.cxx_ptype(p) for p in c["params"]]
    return {"target": cgen.sigid(c, ptypes), "sig": tla_sig(c), "names": in_names(c)}


WRONG = {"int": ("x", {"t": "s", "v": [120]}), "dbl": ("x", {"t": "s", "v": [120]}), "bool": None,
         "str": (12, {"t": "i", "v": [12]}), "obj": (3, {"t": "i", "v": [3]})}


def make_plan(cases, nvals, rng):
    """-> list of plan entries {call: python-side description, tla: {cands, pos, kw, self}}"""
    plan = []
    byname = {}
    for c in cases:
        byname.setdefault(c["name"], []).append(c)
    for c in cases:
        cands = [cand(x) for x in byname[c["name"]]]
        ins = [p for p in c["params"] if is_input(p)]
        nreq = len([p for p in ins if "default" not in p])
        rt = out_tags(c)
        for k in range(nreq, len(ins) + 1):
            for vi in range(nvals):
                vals = []
                for j, p in enumerate(ins[:k]):
                    r = cgen.row(p)
                    vals.append(pyval(r, r["vals"][(vi + j) % len(r["vals"])], p["kind"], vi))
                splits = range(0, k + 1) if vi == 0 else (k, 0)
                for psplit in sorted(set(splits)):
                    pos = vals[:psplit]
                    kws = list(zip([p["name"] for p in ins[psplit:k]], vals[psplit:]))
                    if vi == 0 and len(kws) > 1 and psplit == 0:
                        kws = list(reversed(kws))          # keyword order is immaterial
                    plan.append({"call": {"kind": "func", "name": c["name"], "pos": [v[0] for v in pos],
                                          "kw": {n: v[0] for n, v in kws}, "rt": rt},
                                 "tla": {"cands": cands, "pos": [v[1] for v in pos],
                                         "kw": [{"n": n, "v": v[1]} for n, v in kws], "self": {"t": "o", "v": [0]}},
                                 "label": "%s(%s)" % (c["name"], ", ".join([repr(v[0]) for v in pos] + ["%s=%r" % (n, v[0]) for n, v in kws]))})
        # calls that match no signature
        full = [pyval(cgen.row(p), cgen.row(p)["vals"][1], p["kind"], 0) for p in ins]
        errs = []
        errs.append(([v for v in full] + [(1, {"t": "i", "v": [1]})], []))                      # too many
        errs.append(([v for v in full], [("zz", (1, {"t": "i", "v": [1]}))]))                  # unknown keyword
        if nreq > 0:
            errs.append(([v for v in full[:nreq - 1]], []))                                     # a required one missing
        for j, p in enumerate(ins):
            w = WRONG.get(cgen.row(p)["ty"])
            if w:
                bad = list(full)
                bad[j] = w
                errs.append((bad, []))
        if ins:
            errs.append(([v for v in full], [(ins[0]["name"], full[0])]))                       # given twice
        for pos, kws in errs:
            plan.append({"call": {"kind": "func", "name": c["name"], "pos": [v[0] for v in pos], "kw": {n: v[0] for n, v in kws}, "rt": rt},
                         "tla": {"cands": cands, "pos": [v[1] for v in pos], "kw": [{"n": n, "v": v[1]} for n, v in kws],
                                 "self": {"t": "o", "v": [0]}},
                         "label": "%s(%s) [no match expected?]" % (c["name"], ", ".join([repr(v[0]) for v in pos] + ["%s=%r" % (n, v[0]) for n, v in kws]))})
    return plan


NODEF = {"has": False, "v": {"t": "i", "v": [0]}}


def pm(ty, intent="in", d=None):
    return {"ty": ty, "intent": intent, "api": "arg", "conv": "id", "ref": 0, "def": d or NODEF, "back": "id"}


def class_plan():
    def sig(params, self, result):
        return {"params": params, "nsup": len(params), "self": self, "result": result, "resback": "id"}
    I = lambda v: {"t": "i", "v": [v]}   # noqa: E731
    O = lambda k: {"t": "o", "v": [k]}   # noqa: E731
    ctor = [{"target": "ns1::Cls::Cls(int)", "sig": sig([pm("int")], False, "obj"), "names": ["v"]},
            {"target": "ns1::Cls::Cls(const std::string&)", "sig": sig([pm("str")], False, "obj"), "names": ["s"]}]
    get = [{"target": "ns1::Cls::get()", "sig": sig([], True, "int"), "names": []}]
    setc = [{"target": "ns1::Cls::set(int)", "sig": sig([pm("int")], True, "none"), "names": ["v"]}]
    add = [{"target": "ns1::Cls::add(const Cls&,int)",
            "sig": sig([pm("obj"), pm("int", d={"has": True, "v": I(2)})], True, "int"), "names": ["other", "k"]}]
    P = []

    def call(kind, label, cands, pos, kw, pypos, pykw, **extra):
        d = {"call": dict({"kind": kind, "pos": pypos, "kw": pykw}, **extra),
             "tla": {"cands": cands, "pos": pos, "kw": [{"n": n, "v": v} for n, v in kw], "self": O(extra.get("selfid", 0))},
             "label": label}
        P.append(d)
    call("ctor", "a = Cls(5)", ctor, [I(5)], [], [5], {}, store="a")
    call("ctor", "b = Cls(v=-2)", ctor, [], [("v", I(-2))], [], {"v": -2}, store="b")
    call("method", "a.get()", get, [], [], [], {}, obj="a", name="get", selfid=1)
    call("method", "a.set(77)", setc, [I(77)], [], [77], {}, obj="a", name="set", selfid=1)
    call("method", "a.get()", get, [], [], [], {}, obj="a", name="get", selfid=1)
    call("method", "a.add(b)", add, [O(2)], [], ["@b"], {}, obj="a", name="add", selfid=1)
    call("method", "a.add(b, 3)", add, [O(2), I(3)], [], ["@b", 3], {}, obj="a", name="add", selfid=1)
    call("method", "b.add(other=a, k=4)", add, [], [("other", O(1)), ("k", I(4))], [], {"other": "@a", "k": 4}, obj="b", name="add", selfid=2)
    call("method", "a.add(b, k=3)", add, [O(2)], [("k", I(3))], ["@b"], {"k": 3}, obj="a", name="add", selfid=1)
    call("method", "a.add() [no match]", add, [], [], [], {}, obj="a", name="add", selfid=1)
    call("method", "a.add(1) [no match]", add, [I(1)], [], [1], {}, obj="a", name="add", selfid=1)
    call("method", "a.get(1) [no match]", get, [I(1)], [], [1], {}, obj="a", name="get", selfid=1)
    # a derived object: its own constructor and method, the inherited methods, and as an argument where the base is expected
    dctor = [{"target": "ns1::Derived::Derived(int,int)", "sig": sig([pm("int"), pm("int")], False, "obj"), "names": ["v", "w"]}]
    extra = [{"target": "ns1::Derived::extra()", "sig": sig([], True, "int"), "names": []}]
    call("ctor", "e = Derived(4, 6)", dctor, [I(4), I(6)], [], [4, 6], {}, store="e", cls="Derived")
    call("method", "e.get()", get, [], [], [], {}, obj="e", name="get", selfid=3)
    call("method", "e.extra()", extra, [], [], [], {}, obj="e", name="extra", selfid=3)
    call("method", "e.set(55)", setc, [I(55)], [], [55], {}, obj="e", name="set", selfid=3)
    call("method", "e.extra()", extra, [], [], [], {}, obj="e", name="extra", selfid=3)
    call("method", "a.add(e, 3)", add, [O(3), I(3)], [], ["@e", 3], {}, obj="a", name="add", selfid=1)
    call("method", "e.add(other=a)", add, [], [("other", O(1))], [], {"other": "@a"}, obj="e", name="add", selfid=3)
    # the second constructor (overloaded tp_init): by position and by keyword
    S = lambda t: {"t": "s", "v": [ord(ch) for ch in t]}   # noqa: E731
    call("ctor", "g = Cls('abc')", ctor, [S("abc")], [], ["abc"], {}, store="g")
    call("method", "g.get()", get, [], [], [], {}, obj="g", name="get", selfid=4)
    call("ctor", "h = Cls(s='')", ctor, [], [("s", S(""))], [], {"s": ""}, store="h")
    call("method", "h.get()", get, [], [], [], {}, obj="h", name="get", selfid=5)
    call("ctor", "Derived(4) [no match]", dctor, [I(4)], [], [4], {}, store="f", cls="Derived")
    call("ctor", "Cls([1]) [no match]", ctor, [{"t": "ai", "v": [1]}], [], [[1]], {}, store="c")
    call("ctor", "Cls(v=1, s='x') [no match]", ctor, [], [("v", I(1)), ("s", S("x"))], [], {"v": 1, "s": "x"}, store="c")
    return P


DRIVER = r'''
import json, sys
plan = json.load(open(sys.argv[1]))
start = int(sys.argv[3])
sys.path.insert(0, sys.argv[4])
out = open(sys.argv[2], "a")
import psub
IMMORTAL = 1 << 30
objs = {}
order = {}
def enc(v, hint=None):
    if isinstance(v, bool): return {"t": "b", "v": [1 if v else 0]}
    if isinstance(v, int): return {"t": "i", "v": [v]} if abs(v) < 2**31 + 1 else {"t": "big", "v": [0]}
    if isinstance(v, float):
        q = v * 4
        return {"t": "d", "v": [int(q)]} if q == int(q) and abs(q) < 1e9 else {"t": "dx", "v": [ord(c) for c in repr(v)]}
    if isinstance(v, str): return {"t": "s", "v": [ord(c) for c in v]}
    if isinstance(v, bytes): return {"t": "s", "v": list(v)}
    if isinstance(v, list):
        if not v: return {"t": hint if hint in ("ai", "ad") else "a?", "v": []}
        if all(isinstance(x, int) and not isinstance(x, bool) for x in v): return {"t": "ai", "v": v}
        if all(isinstance(x, float) and x * 4 == int(x * 4) for x in v): return {"t": "ad", "v": [int(x * 4) for x in v]}
        return {"t": "a?", "v": [ord(c) for c in repr(v)]}
    if type(v).__name__ == "Pt": return {"t": "ai", "v": [v.x, int(v.y * 4)]}
    if id(v) in order: return {"t": "o", "v": [order[id(v)]]}
    return {"t": "other", "v": [ord(c) for c in type(v).__name__]}
def deref(x):
    if isinstance(x, dict) and "__pt__" in x: return psub.Pt(*x["__pt__"])
    return objs[x[1:]] if isinstance(x, str) and x.startswith("@") else x
def counts(objs_):
    return [sys.getrefcount(o_) for o_ in objs_]       # the same overhead whenever it is called
CALIB = counts([object()])[0]                          # an object referenced by the measured list only
def run_one(c):
    exc, ret = "", []
    refs = {"args": [], "res": []}
    pos = [deref(x) for x in c["pos"]]
    kw = {n: deref(v) for n, v in c["kw"].items()}
    uniq = []
    for cand in pos + list(kw.values()):
        if sys.getrefcount(cand) < IMMORTAL and not any(cand is u for u in uniq): uniq.append(cand)
    cand = None
    before = counts(uniq)
    r = None
    try:
        if c["kind"] == "func":
            r = getattr(psub, c["name"])(*pos, **kw)
        elif c["kind"] == "ctor":
            r = getattr(psub, c.get("cls", "Cls"))(*pos, **kw)
            objs[c["store"]] = r
            order[id(r)] = len(order) + 1
        else:
            r = getattr(objs[c["obj"]], c["name"])(*pos, **kw)
        after = counts(uniq)
        n = len(r) if isinstance(r, tuple) else (0 if r is None else 1)
        elem = (lambda q: r[q]) if isinstance(r, tuple) else (lambda q: r)
        for q, u in enumerate(uniq):
            held = sum(1 for z in range(n) if elem(z) is u)
            refs["args"].append(after[q] - before[q] - held)
        stored = 1 if c["kind"] == "ctor" else 0
        if isinstance(r, tuple) and sys.getrefcount(r) < IMMORTAL:
            refs["res"].append(counts([r])[0] - CALIB - 1)        # held by the variable r only
        parts = list(r) if isinstance(r, tuple) else ([] if r is None else [r])
        pc = counts(parts)
        for q in range(len(parts)):
            if pc[q] >= IMMORTAL or any(parts[q] is u for u in uniq): continue
            same = sum(1 for z in range(len(parts)) if parts[z] is parts[q])
            # references from `parts` (same), from r (the tuple: same; or the variable r: 1), from objs when stored
            expect = CALIB - 1 + same + (same if isinstance(r, tuple) else 1) + stored
            refs["res"].append(pc[q] - expect)
        rt = c.get("rt") or []
        if r is None: ret = []
        elif isinstance(r, tuple): ret = [enc(x, rt[i] if i < len(rt) else None) for i, x in enumerate(r)]
        else: ret = [enc(r, rt[0] if rt else None)]
    except BaseException as ex:
        exc = type(ex).__name__
        ex = None
        refs = {"args": [a - b for a, b in zip(counts(uniq), before)], "res": []}
    return exc, ret, refs
for k in range(start, len(plan)):
    c = plan[k]["call"]
    out.write(json.dumps({"ev": "PyCall", "k": k}) + "\n"); out.flush()
    exc, ret, refs = run_one(c)
    out.write(json.dumps({"ev": "PyReturn", "k": k, "exc": exc, "ret": ret, "refs": refs}) + "\n"); out.flush()
'''


MEMBER_DRIVER = r'''
import json, sys
sys.path.insert(0, sys.argv[2])
out = open(sys.argv[1], "a")
import psub
objs = []
def log(ev, m, o, v):
    if isinstance(v, bool): val = {"t": "i", "v": 1 if v else 0}
    elif isinstance(v, float): val = {"t": "d", "v": int(v * 4)}
    elif isinstance(v, int): val = {"t": "i", "v": v}
    else: val = None
    out.write(json.dumps({"ev": ev if val else "MemberErr", "f": m, "vals": [{"t": "pyobj", "v": o}] + ([val] if val else [])}) + "\n"); out.flush()
def new(v):
    objs.append(psub.Cls(v)); return len(objs) - 1
def get(o, m):
    try: log("MemberGet", m, o, getattr(objs[o], m))
    except BaseException as ex: log("MemberErr", m, o, None)
def put(o, m, v):
    log("MemberSet", m, o, v)
    try: setattr(objs[o], m, v)
    except BaseException as ex: log("MemberErr", m, o, None)
a = new(5); b = new(-2); c = new(9)
get(b, "value"); get(b, "ro"); get(b, "alt")
put(b, "value", 31); objs[b].get(); get(b, "value"); get(c, "value"); get(b, "ro")
objs[c].set(-6); get(c, "value")
put(c, "alt", 2.25); get(c, "alt"); get(a, "alt"); get(a, "value"); get(a, "ro")
# a read-only member has no setter: assignment must fail and leave the member alone
ok = False
try:
    objs[a].ro = 99
except BaseException:
    ok = True
if not ok:
    out.write(json.dumps({"ev": "MemberSet", "f": "ro", "vals": [{"t": "pyobj", "v": a}, {"t": "i", "v": 99}]}) + "\n"); out.flush()
get(a, "ro")
# members of other types: read, write, read; a value of the wrong type is refused and changes nothing
def bad(o, m, v):
    raised = 0
    try: setattr(objs[o], m, v)
    except BaseException: raised = 1
    log("MemberBad", m, o, raised)
for m, v in (("us", 40000), ("u8", 200), ("ll", -5), ("fl", 2.25), ("value", 11)):
    get(c, m); put(c, m, v); get(c, m)
    for wrong in ("x", None, [1]):
        bad(c, m, wrong); get(c, m)
    objs[c].get()                           # a pending exception would surface here
    get(b, m)
'''


def run_members(d):
    """Drive the member descriptors of the built extension in directory d; -> specs/Members.tla event list."""
    drv = os.path.join(d, "mdriver.py")
    open(drv, "w").write(MEMBER_DRIVER)
    tf = os.path.join(d, "mtrace.ndjson")
    if os.path.exists(tf):
        os.remove(tf)
    p = subprocess.run([common.PY, drv, tf, d], cwd=d, env=dict(os.environ, VT_TRACE=tf, MALLOC_CHECK_="3"),
                       stdout=subprocess.PIPE, stderr=subprocess.PIPE, text=True, timeout=300)
    events = []
    for line in open(tf) if os.path.exists(tf) else []:
        try:
            events.append(json.loads(line))
        except ValueError:
            pass
    # objects the Python side names by creation order are the objects of the library's constructor events, in order
    addr = [e["vals"][-1]["v"] for e in events if e["ev"] == "LibExit" and e["f"] == "Cls::Cls"]
    for e in events:
        for x in e.get("vals", []):
            if x["t"] == "pyobj":
                x["t"], x["v"] = "o", (addr[x["v"]] if x["v"] < len(addr) else -1 - x["v"])
    tr = cgen.member_trace(events)
    for e in events:
        if e["ev"] == "MemberErr":
            tr.append({"op": "WErr", "o": 1, "m": e["f"], "v": 0})
    if p.returncode != 0:
        tr.append({"op": "WErr", "o": 1, "m": "driver exit %d: %s" % (p.returncode, p.stderr.strip().split("\n")[-1][:120]), "v": 0})
    return tr


def build_ext(d, cases, options=None, language="c++"):
    import yaml

    os.makedirs(d, exist_ok=True)
    opts = dict({"wrap_python": True, "wrap_c": False, "wrap_fortran": False, "PY_array_arg": "list", "PY_struct_arg": "class"}, **(options or {}))
    y, hpp, cpp = cgen.gen_library(cases, False, opts, ns=None)
    y["library"] = "psub"
    if language == "c":
        # the same library written in C (rows without references, std::string, classes)
        from rt import libgen

        def fix(n):
            if isinstance(n, dict):
                return {k: fix(v) for k, v in n.items()}
            if isinstance(n, list):
                return [fix(v) for v in n]
            return libgen.to_c(n) if isinstance(n, str) else n
        y["language"] = "c"
        y["cxx_header"] = "psub.h"
        y["declarations"] = fix(y["declarations"])
        hpp = libgen.to_c(hpp).replace("#include <string>", "#include <stdbool.h>").replace("#include <vector>", "")
        hpp = hpp.replace("struct Pt { int x; double y; };", "struct Pt { int x; double y; };\ntypedef struct Pt Pt;").replace("SUB_HPP", "PSUB_H")
        cpp = libgen.to_c(cpp).replace('#include "sub.hpp"', '#include "psub.h"').replace("#include <cstring>", "#include <string.h>")
        cpp = cpp.replace("#include <cstdio>", "#include <stdio.h>")
        hname, sname = "psub.h", "psub.c"
    else:
        y["cxx_header"] = "psub.hpp"
        y["declarations"] += PCLS_YAML
        hpp = hpp.replace("SUB_HPP", "PSUB_HPP").replace("\n#endif", PCLS_HPP + "\n#endif")
        cpp = cpp.replace('#include "sub.hpp"', '#include "psub.hpp"').replace("/*end*/", PCLS_CPP)
        hname, sname = "psub.hpp", "psub.cpp"
    with open(os.path.join(d, "psub.yaml"), "w") as f:
        yaml.safe_dump(y, f, default_flow_style=False, sort_keys=False)
    open(os.path.join(d, hname), "w").write(hpp)
    open(os.path.join(d, sname), "w").write(cpp)
    out = os.path.join(d, "gen")
    os.makedirs(out, exist_ok=True)
    rc, so, se = shroudrun.run(["--outdir", out, "--logdir", out, os.path.join(d, "psub.yaml")])
    if rc != 0:
        return None, "shroud: " + se[-800:]
    srcs = [os.path.join(d, sname), os.path.join(HERE, "vt.c")] + \
           [os.path.join(out, f) for f in sorted(os.listdir(out)) if f.endswith(".cpp") or f.endswith(".c")]
    objs = []
    for s in srcs:
        o = os.path.join(d, os.path.basename(s) + ".o")
        cc = ["gcc", "-std=c99"] if s.endswith(".c") else ["g++", "-std=c++11"]
        rc, txt = cgen.sh(cc + ["-g", "-fPIC", "-c", s, "-o", o, "-I", d, "-I", out, "-I", HERE, "-I", PYINC], d)
        if rc != 0:
            open(os.path.join(d, "compile.log"), "w").write(txt)
            return None, "compile %s: %s" % (os.path.basename(s), txt[:1500])
        objs.append(o)
    so_ = os.path.join(d, "psub.so")
    rc, txt = cgen.sh(["g++", "-shared", "-o", so_] + objs, d)
    if rc != 0:
        return None, "link: " + txt[-1000:]
    return d, ""


def run_plan(d, plan):
    """Run the plan in a Python subprocess; restart after a crash.  -> list aligned with plan of
    {exc, ret, events:[lib events], crashed}"""
    pj = os.path.join(d, "plan.json")
    json.dump([{"call": p["call"]} for p in plan], open(pj, "w"))
    drv = os.path.join(d, "driver.py")
    open(drv, "w").write(DRIVER)
    tf = os.path.join(d, "trace.ndjson")
    if os.path.exists(tf):
        os.remove(tf)
    start = 0
    crashes = {}
    while start < len(plan):
        p = subprocess.run([common.PY, drv, pj, tf, str(start), d], cwd=d, env=dict(os.environ, VT_TRACE=tf, MALLOC_CHECK_="3"),
                           stdout=subprocess.PIPE, stderr=subprocess.PIPE, text=True, timeout=600)
        if p.returncode == 0:
            break
        # find the call that was running
        last = -1
        for line in open(tf):
            try:
                e = json.loads(line)
            except ValueError:
                continue
            if e.get("ev") == "PyCall":
                last = e["k"]
            elif e.get("ev") == "PyReturn" and e["k"] == last:
                last = -1
        if last < 0:
            # the interpreter died between two calls (typically glibc detecting a corrupted heap): the damage was
            # done by a call that had already returned -- charge the last one that returned since the restart
            done = -1
            for line in open(tf):
                try:
                    e = json.loads(line)
                except ValueError:
                    continue
                if e.get("ev") == "PyReturn":
                    done = e["k"]
            if done < start:
                raise common.MachineryError("python driver failed outside a call: " + p.stderr[-500:])
            crashes[done] = "interpreter died after this call had returned (exit %d): %s" % (
                p.returncode, p.stderr.strip().split("\n")[-1][:200])
            start = done + 1
            continue
        crashes[last] = "exit %d: %s" % (p.returncode, p.stderr.strip().split("\n")[-1][:200])
        start = last + 1
    res = [None] * len(plan)
    cur = None
    objmap = {}
    for line in open(tf):
        try:
            e = json.loads(line)
        except ValueError:
            continue
        if e["ev"] == "PyCall":
            cur = {"k": e["k"], "events": [], "exc": "crash", "ret": [], "crashed": crashes.get(e["k"], ""), "refs": {"args": [], "res": []}}
            res[e["k"]] = cur
        elif e["ev"] == "PyReturn":
            cur["exc"], cur["ret"] = e["exc"], e["ret"]
            cur["refs"] = e.get("refs") or {"args": [], "res": []}
        elif e["ev"] in ("LibEnter", "LibExit") and cur is not None:
            tg, vals = "", []
            for x in e["vals"]:
                t, v = x["t"], x["v"]
                if t == "target":
                    tg = v
                    continue
                if t == "o":
                    v = [0 if v == 0 else objmap.setdefault(v, len(objmap) + 1)]
                elif t in ("i", "d"):
                    v = [v]
                elif t == "b":
                    v = [1 if v else 0]
                elif t == "null":
                    v = []
                elif t == "dx":
                    v = [ord(ch) for ch in str(v)]
                vals.append({"t": t, "v": v})
            cur["events"].append({"ev": e["ev"], "target": tg, "vals": vals})
    return res
