"""Library descriptions for the run-time checks (C01, C02, ...).

A *case* is one C++ function (or method) of the subject library; its
parameters and result are *shape rows*: documented declaration patterns with
the snippets needed to (a) declare them in YAML and C++, (b) log what the
library received / produced, (c) drive them from C (and Fortran) and log what
the caller supplied / got back.  The declarative part of a row (ty, intent,
conv, api) is what the TLA+ contract (CallBridge.tla) reads.
"""

INT_VALS = ["0", "1", "-1", "2147483647", "(-2147483647-1)", "42"]
DBL_VALS = ["0.0", "2.5", "-0.25", "1048576.75", "-3.0", "0.5"]
BOOL_VALS = ["1", "0", "1", "0", "1", "0"]
LONG_VALS = ["0L", "7L", "-9L", "2147483647L", "-5L", "100000L"]
STR_VALS = ['""', '"a"', '"ab  "', '"hello world"', '"  x"', '"Z"']
ENUM_VALS = ["1", "5", "1", "5", "5", "1"]       # Color RED = 1, BLUE = 5
VEC_VALS = ["3", "-4", "0", "7", "99", "1"]


def P(kind, name, **kw):
    d = {"kind": kind, "name": name}
    d.update(kw)
    return d


# row: yaml decl, C++ parameter, descriptor for TLA, snippets
ROWS = {
    "int_v": dict(yaml="int {n}", cxx="int {n}", ty="int", intent="in",
                  lib_in="vt_int({n});", acc="acc += {w} * (long)({n} % 1000);",
                  c_decl="int {n} = {v};", c_arg="{n}", c_in="vt_int({n});", vals=INT_VALS),
    "long_v": dict(yaml="long {n}", cxx="long {n}", ty="int", intent="in",
                   lib_in="vt_int({n});", acc="acc += {w} * ({n} % 1000);",
                   c_decl="long {n} = {v};", c_arg="{n}", c_in="vt_int({n});", vals=LONG_VALS),
    "double_v": dict(yaml="double {n}", cxx="double {n}", ty="dbl", intent="in",
                     lib_in="vt_dbl({n});", acc="acc += {w} * ((long)({n} * 4.0) % 1000);",
                     c_decl="double {n} = {v};", c_arg="{n}", c_in="vt_dbl({n});", vals=DBL_VALS),
    "bool_v": dict(yaml="bool {n}", cxx="bool {n}", ty="bool", intent="in",
                   lib_in="vt_bool({n});", acc="acc += {n} ? 17 * {w} : 0;",
                   c_decl="bool {n} = {v};", c_arg="{n}", c_in="vt_bool({n});", vals=BOOL_VALS),
    "enum_v": dict(yaml="Color {n}", cxx="Color {n}", ty="int", intent="in",
                   lib_in="vt_int((long){n});", acc="acc += {w} * (long){n};",
                   c_decl="int {n} = {v};", c_arg="{n}", c_in="vt_int({n});", vals=ENUM_VALS),
    "int_pin": dict(yaml="const int *{n}", cxx="const int *{n}", ty="int", intent="in",
                    lib_in="vt_int(*{n});", acc="acc += {w} * (long)(*{n} % 1000);",
                    c_decl="int {n} = {v};", c_arg="&{n}", c_in="vt_int({n});", vals=INT_VALS),
    "int_pout": dict(yaml="int *{n} +intent(out)", cxx="int *{n}", ty="int", intent="out",
                     lib_set="*{n} = (int)(acc % 1000) + 10 * {w};", lib_out="vt_int(*{n});",
                     c_decl="int {n} = -77;", c_arg="&{n}", c_out="vt_int({n});", vals=INT_VALS),
    "int_pinout": dict(yaml="int *{n} +intent(inout)", cxx="int *{n}", ty="int", intent="inout",
                       lib_in="vt_int(*{n});", acc="acc += {w} * (long)(*{n} % 1000);",
                       lib_set="*{n} = (int)(*{n} % 1000) * 2 + {w};", lib_out="vt_int(*{n});",
                       c_decl="int {n} = {v};", c_arg="&{n}", c_in="vt_int({n});", c_out="vt_int({n});", vals=INT_VALS),
    "int_ref": dict(yaml="int &{n}", cxx="int &{n}", ty="int", intent="inout",
                    lib_in="vt_int({n});", acc="acc += {w} * (long)({n} % 1000);",
                    lib_set="{n} = ({n} % 1000) * 3 + {w};", lib_out="vt_int({n});",
                    c_decl="int {n} = {v};", c_arg="&{n}", c_in="vt_int({n});", c_out="vt_int({n});", vals=INT_VALS),
    "dbl_cref": dict(yaml="const double &{n}", cxx="const double &{n}", ty="dbl", intent="in",
                     lib_in="vt_dbl({n});", acc="acc += {w} * ((long)({n} * 4.0) % 1000);",
                     c_decl="double {n} = {v};", c_arg="&{n}", c_in="vt_dbl({n});", vals=DBL_VALS),
    "dbl_pout": dict(yaml="double *{n} +intent(out)", cxx="double *{n}", ty="dbl", intent="out",
                     lib_set="*{n} = (double)(acc % 1000) + 0.25 * {w};", lib_out="vt_dbl(*{n});",
                     c_decl="double {n} = -7.0;", c_arg="&{n}", c_out="vt_dbl({n});", vals=DBL_VALS),
    "bool_pinout": dict(yaml="bool *{n} +intent(inout)", cxx="bool *{n}", ty="bool", intent="inout",
                        lib_in="vt_bool(*{n});", acc="acc += *{n} ? 17 * {w} : 0;",
                        lib_set="*{n} = !*{n};", lib_out="vt_bool(*{n});",
                        c_decl="bool {n} = {v};", c_arg="&{n}", c_in="vt_bool({n});", c_out="vt_bool({n});", vals=BOOL_VALS),
    "cstr_in": dict(yaml="const char *{n}", cxx="const char *{n}", ty="str", intent="in", conv="rtrim",
                    lib_in="vt_str({n}, -1);", acc="acc += {w} * (long)strlen({n});",
                    c_decl="const char *{n} = {v};", c_arg="{n}", c_in="vt_str({n}, -1);", vals=STR_VALS),
    "str_cref": dict(yaml="const std::string &{n}", cxx="const std::string &{n}", ty="str", intent="in", conv="rtrim",
                     lib_in="vt_str({n}.c_str(), (long){n}.size());", acc="acc += {w} * (long){n}.size();",
                     c_decl="const char *{n} = {v};", c_arg="{n}", c_in="vt_str({n}, -1);", vals=STR_VALS),
    # std::string by value (strings.yaml acceptStringInstance): the same rules as const std::string &
    "str_v": dict(yaml="std::string {n}", cxx="std::string {n}", ty="str", intent="in", conv="rtrim",
                  lib_in="vt_str({n}.c_str(), (long){n}.size());", acc="acc += {w} * (long){n}.size();",
                  c_decl="char {n}[] = {v};", c_arg="{n}", c_in="vt_str({n}, -1);", vals=STR_VALS),
    "str_ref_inout": dict(yaml="std::string &{n}", cxx="std::string &{n}", ty="str", intent="inout", conv="rtrim",
                          lib_in="vt_str({n}.c_str(), (long){n}.size());", acc="acc += {w} * (long){n}.size();",
                          lib_set='{n} = {n} + "+" + (char)(\'a\' + (acc % 26));', lib_out="vt_str({n}.c_str(), (long){n}.size());",
                          c_decl="char {n}[80] = {v};", c_arg="{n}", c_in="vt_str({n}, -1);", c_out="vt_str({n}, -1);",
                          vals=STR_VALS),
    "str_ref_out": dict(yaml="std::string &{n} +intent(out)", cxx="std::string &{n}", ty="str", intent="out",
                        lib_set='{n} = std::string("out") + (char)(\'a\' + (acc % 26)) + std::string((size_t)(acc % 4), \'q\');',
                        lib_out="vt_str({n}.c_str(), (long){n}.size());",
                        c_decl='char {n}[80] = "junk";', c_arg="{n}", c_out="vt_str({n}, -1);", vals=STR_VALS),
    "pt_v": dict(yaml="Pt {n}", cxx="Pt {n}", ty="pt", intent="in",
                 lib_in="{{ int t_[2] = {{ {n}.x, (int)({n}.y * 4) }}; vt_arr_int(t_, 2); }}", acc="acc += {w} * (long)({n}.x % 100);",
                 c_decl="{PT} {n} = {{ {v}, 1.5 }};", c_arg="{n}", c_in="{{ int t_[2] = {{ {n}.x, (int)({n}.y * 4) }}; vt_arr_int(t_, 2); }}", vals=["3", "-4", "0", "7", "99", "1"]),
    "pt_pinout": dict(yaml="Pt *{n} +intent(inout)", cxx="Pt *{n}", ty="pt", intent="inout",
                      lib_in="{{ int t_[2] = {{ {n}->x, (int)({n}->y * 4) }}; vt_arr_int(t_, 2); }}", acc="acc += {w} * (long)({n}->x % 100);",
                      lib_set="{n}->x = {n}->x % 100 + {w}; {n}->y = {n}->y + 0.25;", lib_out="{{ int t_[2] = {{ {n}->x, (int)({n}->y * 4) }}; vt_arr_int(t_, 2); }}",
                      c_decl="{PT} {n} = {{ {v}, 2.5 }};", c_arg="&{n}", c_in="{{ int t_[2] = {{ {n}.x, (int)({n}.y * 4) }}; vt_arr_int(t_, 2); }}",
                      c_out="{{ int t_[2] = {{ {n}.x, (int)({n}.y * 4) }}; vt_arr_int(t_, 2); }}", vals=["3", "-4", "0", "7", "99", "1"]),
    "pt_cref": dict(yaml="const Pt &{n}", cxx="const Pt &{n}", ty="pt", intent="in",
                    lib_in="{{ int t_[2] = {{ {n}.x, (int)({n}.y * 4) }}; vt_arr_int(t_, 2); }}", acc="acc += {w} * (long)({n}.x % 100);",
                    c_decl="{PT} {n} = {{ {v}, -0.5 }};", c_arg="&{n}", c_in="{{ int t_[2] = {{ {n}.x, (int)({n}.y * 4) }}; vt_arr_int(t_, 2); }}", vals=["3", "-4", "0", "7", "99", "1"]),
    "arr_in": dict(yaml="const double *{n} +rank(1)", cxx="const double *{n}", ty="arrd", intent="in", size_of=True,
                   lib_in="vt_arr_dbl({n}, {m});", acc="for (int i_ = 0; i_ < {m}; i_++) acc += (long)({n}[i_] * 4.0) % 100;",
                   c_decl="double {n}[4] = {{ 1.0, {v}, -2.25, 8.0 }};", c_arg="{n}", c_in="vt_arr_dbl({n}, {m});", vals=DBL_VALS),
    "arr_n": dict(yaml="int {n} +implied(size({a}))", cxx="int {n}", ty="int", intent="in", api="implied_size",
                  lib_in="vt_int({n});", acc="acc += {n};",
                  c_decl="int {n} = {v};", c_arg="{n}", c_in="vt_int({n});", vals=["4", "0", "1", "3", "2", "4"]),
    "arr_out": dict(yaml="double *{n} +intent(out)+dimension({m})", cxx="double *{n}", ty="arrd", intent="out", size_of=True,
                    lib_set="for (int i_ = 0; i_ < {m}; i_++) {n}[i_] = (double)(acc % 100) + 0.5 * i_;", lib_out="vt_arr_dbl({n}, {m});",
                    c_decl="double {n}[4] = {{ -1.0, -1.0, -1.0, -1.0 }};", c_arg="{n}", c_out="vt_arr_dbl({n}, {m});", vals=DBL_VALS),
    "out_n": dict(yaml="int {n}", cxx="int {n}", ty="int", intent="in",
                  lib_in="vt_int({n});", acc="acc += {n};",
                  c_decl="int {n} = {v};", c_arg="{n}", c_in="vt_int({n});", vals=["4", "0", "1", "3", "2", "4"]),
    # std::vector (docs/types.rst "std::vector"): Fortran only -- the C API of a vector argument is its bufferify form
    "vec_in": dict(yaml="const std::vector<int> &{n}", cxx="const std::vector<int> &{n}", ty="arri", intent="in",
                   lib_in="vt_arr_int({n}.data(), (long){n}.size());",
                   acc="for (size_t i_ = 0; i_ < {n}.size(); i_++) acc += {w} * (long)({n}[i_] % 100);", vals=VEC_VALS),
    "vec_inout": dict(yaml="std::vector<int> &{n}", cxx="std::vector<int> &{n}", ty="arri", intent="inout",
                      lib_in="vt_arr_int({n}.data(), (long){n}.size());",
                      acc="for (size_t i_ = 0; i_ < {n}.size(); i_++) acc += {w} * (long)({n}[i_] % 100);",
                      lib_set="for (size_t i_ = 0; i_ < {n}.size(); i_++) {n}[i_] = ({n}[i_] % 100) * 2 + {w};",
                      lib_out="vt_arr_int({n}.data(), (long){n}.size());", vals=VEC_VALS),
    "vec_out_alloc": dict(yaml="std::vector<int> &{n} +intent(out)+deref(allocatable)", cxx="std::vector<int> &{n}", ty="arri",
                          intent="out",
                          lib_set="{n}.assign((size_t)(acc % 4), 0); for (size_t i_ = 0; i_ < {n}.size(); i_++) {n}[i_] = (int)(acc % 50) + (int)i_ + {w};",
                          lib_out="vt_arr_int({n}.data(), (long){n}.size());", vals=VEC_VALS),
    # rank 2 (docs/pointers.rst, +rank / +dimension with size(x,dim)): Fortran only.  Arrays are logged with their
    # two extents in front of the elements (Fortran element order).
    "arr2_in": dict(yaml="const int *{n} +rank(2)", cxx="const int *{n}", ty="arri", intent="in",
                    lib_in="{{ std::vector<int> t_; t_.push_back({m1}); t_.push_back({m2}); for (int i_ = 0; i_ < {m1} * {m2}; i_++) t_.push_back({n}[i_]); vt_arr_int(t_.data(), (long)t_.size()); }}",
                    acc="for (int i_ = 0; i_ < {m1} * {m2}; i_++) acc += {w} * (long)({n}[i_] % 100);", vals=VEC_VALS),
    "arr2_n1": dict(yaml="int {n}", cxx="int {n}", ty="int", intent="in",
                    lib_in="vt_int({n});", acc="acc += {n};", vals=VEC_VALS),
    "arr2_n2": dict(yaml="int {n}", cxx="int {n}", ty="int", intent="in",
                    lib_in="vt_int({n});", acc="acc += 3 * {n};", vals=VEC_VALS),
    # the transposed array: extents (size(in,2), size(in,1))
    "arr2_out": dict(yaml="int *{n} +intent(out)+deref(allocatable)+dimension(size({a},2),size({a},1))", cxx="int *{n}", ty="arri",
                     intent="out",
                     lib_set="for (int j_ = 0; j_ < {m1}; j_++) for (int i_ = 0; i_ < {m2}; i_++) {n}[j_ * {m2} + i_] = {a}[i_ * {m1} + j_] + (int)(acc % 7);",
                     lib_out="{{ std::vector<int> t_; t_.push_back({m2}); t_.push_back({m1}); for (int i_ = 0; i_ < {m1} * {m2}; i_++) t_.push_back({n}[i_]); vt_arr_int(t_.data(), (long)t_.size()); }}",
                     vals=VEC_VALS),
    "vec_inout_alloc": dict(yaml="std::vector<int> &{n} +intent(inout)+deref(allocatable)", cxx="std::vector<int> &{n}", ty="arri",
                            intent="inout", lib_in="vt_arr_int({n}.data(), (long){n}.size());",
                            acc="for (size_t i_ = 0; i_ < {n}.size(); i_++) acc += {w} * (long)({n}[i_] % 100);",
                            lib_set="for (size_t i_ = 0; i_ < {n}.size(); i_++) {n}[i_] = ({n}[i_] % 100) + {w}; {n}.push_back((int)(acc % 9));",
                            lib_out="vt_arr_int({n}.data(), (long){n}.size());", vals=VEC_VALS),
    # docs/cwrapper.rst (C_return_code example): a vector of strings filled by the library
    "vecstr_out": dict(yaml="std::vector< std::string > &{n} +intent(out)", cxx="std::vector<std::string> &{n}", ty="arrs", intent="out",
                       lib_set='{n}.clear(); {n}.push_back("dog"); {n}.push_back("bird");', lib_out="vt_int((long){n}.size());", vals=VEC_VALS),
    # an output array whose extents are expressions of other arguments (docs/pointers.rst +dimension): rank 2
    "arrx_out": dict(yaml="double *{n} +intent(out)+dimension({m}+1,{m2})", cxx="double *{n}", ty="arrd", intent="out",
                     lib_set="for (int i_ = 0; i_ < ({m} + 1) * {m2}; i_++) {n}[i_] = (double)(acc % 50) + 0.25 * i_;",
                     lib_out="vt_arr_dbl({n}, ({m} + 1) * {m2});", vals=VEC_VALS),
    "dim_n": dict(yaml="int {n}", cxx="int {n}", ty="int", intent="in", lib_in="vt_int({n});", acc="acc += {n};",
                  c_decl="int {n} = {v};", c_arg="{n}", c_in="vt_int({n});", vals=["2", "0", "1", "3", "2", "1"]),
    "dim_m": dict(yaml="int {n}", cxx="int {n}", ty="int", intent="in", lib_in="vt_int({n});", acc="acc += 5 * {n};",
                  c_decl="int {n} = {v};", c_arg="{n}", c_in="vt_int({n});", vals=["3", "2", "0", "1", "1", "4"]),
    "cls_p": dict(yaml="Cls *{n}", cxx="Cls *{n}", ty="obj", intent="in",
                  lib_in="vt_obj({n});", acc="acc += {w} * (long)({n}->value % 100);",
                  c_decl="", c_arg="&{obj}", c_in="vt_obj({obj}.addr);", vals=["1"] * 6, needs_obj=True),
    "cls_cref": dict(yaml="const Cls &{n}", cxx="const Cls &{n}", ty="obj", intent="in",
                     lib_in="vt_obj(&{n});", acc="acc += {w} * (long)({n}.value % 100);",
                     c_decl="", c_arg="&{obj}", c_in="vt_obj({obj}.addr);", vals=["1"] * 6, needs_obj=True),
}

# char ** (docs/declarations.rst "char **names +intent(in)"): an array of CHARACTER(len=*) becomes an array of NUL
# terminated strings, each without its trailing blanks.  The library sees the strings joined with '|'; the Fortran
# caller logs its elements trimmed and joined the same way (Fortran front only).
STRV_VALS = ['"dog", "cat", "monkey", "ox"', '"a b", "", "xyz  ", " q"', '" lead", "x", "y", "z"', '"one", "two", "three", "four"',
             '"", "", "", ""', '"abcdefghijkl", "m", "no", "p q r"']
ROWS["cstrv_in"] = dict(yaml="char **{n} +intent(in)", cxx="char **{n}", ty="str", intent="in", size_of=True,
                        lib_in='{{ char b_[200]; b_[0] = 0; for (int i_ = 0; i_ < {m}; i_++) {{ if (i_) strcat(b_, "|"); strcat(b_, {n}[i_]); }} vt_str(b_, -1); }}',
                        acc="for (int i_ = 0; i_ < {m}; i_++) acc += (long)strlen({n}[i_]);", vals=STRV_VALS)

# +hidden (docs/input.rst): the argument is not part of the Fortran API, the wrapper passes a local; C callers pass it
ROWS["int_phidden"] = dict(yaml="int *{n} +intent(out)+hidden", cxx="int *{n}", ty="int", intent="out", api="hidden",
                           lib_set="*{n} = (int)(acc % 50);", lib_out="vt_int(*{n});",
                           c_decl="int {n} = -77;", c_arg="&{n}", c_out="vt_int({n});", vals=INT_VALS)

# typedefs (docs/tutorial.rst "Typedef"): the library's header names a native type; the wrappers see through it
ROWS["tdint_v"] = dict(ROWS["int_v"], yaml="TypeID {n}", cxx="TypeID {n}")
ROWS["tdstr_in"] = dict(ROWS["cstr_in"], yaml="const Name *{n}", cxx="const Name *{n}")

# every other native scalar type by value and as a result (typemap.py gives each type its own f_kind / f_cast /
# PY_format / LUA fields; docs/types.rst): key, C type, value class, Fortran declaration, values
NATIVE_KINDS = [
    ("short", "short", "int", "integer(C_SHORT)", ["0", "1", "-1", "32767", "-32768", "42"]),
    ("ushort", "unsigned short", "int", "integer(C_SHORT)", ["0", "1", "7", "32767", "12", "42"]),
    ("uint", "unsigned int", "int", "integer(C_INT)", ["0", "1", "7", "2147483647", "12", "42"]),
    ("ulong", "unsigned long", "int", "integer(C_LONG)", ["0", "1", "7", "2147483647", "12", "42"]),
    ("llong", "long long", "int", "integer(C_LONG_LONG)", ["0", "1", "-1", "2147483647", "-2147483647", "42"]),
    ("float", "float", "dbl", "real(C_FLOAT)", ["0.0", "2.5", "-0.25", "1024.75", "-3.0", "0.5"]),
    ("size", "size_t", "int", "integer(C_SIZE_T)", ["0", "1", "7", "2147483647", "12", "42"]),
    ("i8", "int8_t", "int", "integer(C_INT8_T)", ["0", "1", "-1", "127", "-128", "42"]),
    ("i64", "int64_t", "int", "integer(C_INT64_T)", ["0", "1", "-1", "2147483647", "-2147483647", "42"]),
    ("u16", "uint16_t", "int", "integer(C_INT16_T)", ["0", "1", "7", "32767", "12", "42"]),
    ("u32", "uint32_t", "int", "integer(C_INT32_T)", ["0", "1", "7", "2147483647", "12", "42"]),
]
KIND_ROWS, KIND_RESULTS = [], []
for _k, _T, _ty, _fd, _vals in NATIVE_KINDS:
    _vt = "vt_dbl" if _ty == "dbl" else "vt_int"
    ROWS[_k + "_v"] = dict(yaml=_T + " {n}", cxx=_T + " {n}", ty=_ty, intent="in", lib_in=_vt + "({n});",
                           acc=("acc += {w} * ((long)({n} * 4.0) % 1000);" if _ty == "dbl" else "acc += {w} * (long)({n} % 100);"),
                           c_decl=_T + " {n} = {v};", c_arg="{n}", c_in=_vt + "({n});", vals=_vals, ctype=_T)
    KIND_ROWS.append(_k + "_v")

RESULTS = {
    "void": dict(yaml="void", cxx="void", ty="none"),
    "int": dict(yaml="int", cxx="int", ty="int", lib_make="int rv = (int)(acc % 100000) + 3;", lib_out="vt_int(rv);",
                c_decl="int rv;", c_out="vt_int(rv);"),
    "double": dict(yaml="double", cxx="double", ty="dbl", lib_make="double rv = (double)(acc % 1000) + 0.75;",
                   lib_out="vt_dbl(rv);", c_decl="double rv;", c_out="vt_dbl(rv);"),
    "bool": dict(yaml="bool", cxx="bool", ty="bool", lib_make="bool rv = (acc % 2) == 0;", lib_out="vt_bool(rv);",
                 c_decl="bool rv;", c_out="vt_bool(rv);"),
    "enum": dict(yaml="Color", cxx="Color", ty="int", lib_make="Color rv = (acc % 2) ? RED : BLUE;", lib_out="vt_int((long)rv);",
                 c_decl="int rv;", c_out="vt_int(rv);"),
    "cstr": dict(yaml="const char *", cxx="const char *", ty="str",
                 lib_make='static char buf_[32]; snprintf(buf_, sizeof buf_, "c%ld", acc % 1000); const char *rv = buf_;',
                 lib_out="vt_str(rv, -1);", c_decl="const char *rv;", c_out="vt_str(rv, -1);"),
    "str_cref": dict(yaml="const std::string &", cxx="const std::string &", ty="str",
                     lib_make='static std::string keep_; keep_ = "s" + std::to_string(acc % 1000); const std::string &rv = keep_;',
                     lib_out="vt_str(rv.c_str(), (long)rv.size());", c_decl="const char *rv;", c_out="vt_str(rv, -1);"),
    "pt": dict(yaml="Pt", cxx="Pt", ty="pt", lib_make="Pt rv; rv.x = (int)(acc % 1000); rv.y = 0.25 * (double)(acc % 7);",
               lib_out="{ int t_[2] = { rv.x, (int)(rv.y * 4) }; vt_arr_int(t_, 2); }", c_decl="{PT} rv;", c_out="{ int t_[2] = { rv.x, (int)(rv.y * 4) }; vt_arr_int(t_, 2); }"),
    # +deref(raw) (docs/pointers.rst): the Fortran result is the bare type(C_PTR); its value is not part of the
    # contract checked here (ty none), what matters is that the arguments still get their conversions
    "cptr_raw": dict(yaml="void *", attrs=" +deref(raw)", cxx="void *", ty="none", returns=True,
                     lib_make="static long cell_; cell_ = acc; void *rv = &cell_;", c_decl="", c_out=""),
    # the same attribute on a character result (only used by C05's documented-combinations library)
    "cstr_raw": dict(yaml="const char *", attrs=" +deref(raw)", cxx="const char *", ty="none", returns=True,
                     lib_make='static char raw_[8]; raw_[0] = (char)(65 + acc % 26); raw_[1] = 0; const char *rv = raw_;',
                     c_decl="", c_out=""),
    # rank-2 pointer result copied into an allocatable (docs/pointers.rst +deref(allocatable)): logged with its
    # two extents in front of the elements
    "iptr23": dict(yaml="int *", attrs=" +dimension(2,3)+deref(allocatable)", cxx="int *", ty="arri",
                   lib_make="static int a23_[6]; for (int i_ = 0; i_ < 6; i_++) a23_[i_] = (int)(acc % 50) + i_ * 7; int *rv = a23_;",
                   lib_out="{ int t_[8] = { 2, 3, rv[0], rv[1], rv[2], rv[3], rv[4], rv[5] }; vt_arr_int(t_, 8); }",
                   c_decl="int *rv;", c_out="{ int t_[8] = { 2, 3, rv[0], rv[1], rv[2], rv[3], rv[4], rv[5] }; vt_arr_int(t_, 8); }"),
    # pointer result with a declared extent (docs/pointers.rst): a Fortran pointer to the library's memory
    "iptr3": dict(yaml="int *", attrs=" +dimension(3)", cxx="int *", ty="arri",
                  lib_make="static int arr_[3]; arr_[0] = (int)(acc % 100); arr_[1] = arr_[0] + 1; arr_[2] = -arr_[0]; int *rv = arr_;",
                  lib_out="vt_arr_int(rv, 3);", c_decl="int *rv;", c_out="vt_arr_int(rv, 3);"),
}


RESULTS["tdint"] = dict(RESULTS["int"], yaml="TypeID", cxx="TypeID", lib_make="TypeID rv = (TypeID)(acc % 100000) + 3;")

# the three-word spelling, with values above the signed range: C fronts only (a Fortran caller has no such values)
ROWS["ushortint_v"] = dict(ROWS["ushort_v"], yaml="unsigned short int {n}", cxx="unsigned short int {n}",
                           c_decl="unsigned short int {n} = {v};", vals=["0", "1", "40000", "65535", "32768", "42"])
KIND_ROWS.append("ushortint_v")
for _k, _T, _ty, _fd, _vals in NATIVE_KINDS:
    _vt = "vt_dbl" if _ty == "dbl" else "vt_int"
    RESULTS[_k] = dict(yaml=_T, cxx=_T, ty=_ty, lib_make="%s rv = (%s)((acc %% 100) + 3)%s;" % (_T, _T, " + 0.75f" if _ty == "dbl" else ""),
                       lib_out=_vt + "(rv);", c_decl=_T + " rv;", c_out=_vt + "(rv);")
    KIND_RESULTS.append(_k)

# a single character returned by value (docs/types.rst "char"): Fortran sees character(len=1), or with +len(N) a longer
# result whose remaining characters are blank
RESULTS["char1"] = dict(yaml="char", cxx="char", ty="str", lib_make="char rv = (char)('A' + (acc % 26));",
                        lib_out="{ char b_[2] = { rv, 0 }; vt_str(b_, 1); }", c_decl="char rv;", c_out="{ char b_[2] = { rv, 0 }; vt_str(b_, 1); }")
RESULTS["char3"] = dict(RESULTS["char1"], attrs=" +len(3)")
KIND_RESULTS += ["char1", "char3"]
RESULTS["ushortint"] = dict(RESULTS["ushort"], yaml="unsigned short int", cxx="unsigned short int",
                            lib_make="unsigned short int rv = (unsigned short int)(40000 + (acc % 100));", c_decl="unsigned short int rv;")
KIND_RESULTS.append("ushortint")


def F(name, result, params, **kw):
    d = {"name": name, "result": result, "params": params, "kind": "func"}
    d.update(kw)
    return d


def base_cases():
    """Functions of namespace ns1 (free functions); classes are added by class_cases()."""
    c = []
    c.append(F("f1", "int", [P("int_v", "a"), P("double_v", "b"), P("bool_v", "c"), P("long_v", "d")]))
    c.append(F("f2", "void", [P("int_pout", "p"), P("int_pinout", "q"), P("int_pin", "r")]))
    c.append(F("f3", "double", [P("int_ref", "r"), P("dbl_cref", "cr"), P("dbl_pout", "po")]))
    c.append(F("f4", "int", [P("cstr_in", "s"), P("str_cref", "t")]))
    c.append(F("f4v", "int", [P("str_v", "s"), P("int_v", "a"), P("str_v", "t")]))
    c.append(F("f5", "void", [P("str_ref_inout", "io"), P("str_ref_out", "o"), P("int_v", "k")]))
    c.append(F("f6", "str_cref", [P("int_v", "a")]))
    c.append(F("f8", "cstr", [P("int_v", "a"), P("cstr_in", "s")]))
    c.append(F("f9", "enum", [P("enum_v", "c"), P("int_v", "a")]))
    c.append(F("f10", "pt", [P("pt_v", "a"), P("pt_pinout", "b"), P("pt_cref", "c")]))
    c.append(F("f11", "double", [P("arr_in", "arr", m="n"), P("arr_n", "n", a="arr")]))
    c.append(F("f12", "void", [P("arr_out", "arr", m="n"), P("out_n", "n")]))
    c.append(F("f13", "int", [P("int_v", "a", default="3"), P("int_v", "b", default="4")]))
    c.append(F("f14", "int", [P("int_v", "a")], overload=0))
    c.append(F("f14", "int", [P("double_v", "a")], overload=1))
    c.append(F("f14", "int", [P("int_v", "a"), P("cstr_in", "s")], overload=2))
    # a string overload beside a bool overload: a 'const char *' handed to C++ would prefer the bool one
    c.append(F("f26", "int", [P("str_cref", "s")], overload=0))
    c.append(F("f26", "int", [P("bool_v", "b")], overload=1))
    c.append(F("f15", "T", [P("T_v", "a")], template=["int", "double"]))
    c.append(F("f16", "bool", [P("bool_pinout", "flag"), P("bool_v", "g")]))
    # default_arg_suffix naming only the shortest form (docs/reference.rst): the other forms keep their numbers
    c.append(F("f22", "int", [P("int_v", "a"), P("int_v", "b", default="5"), P("double_v", "c", default="2.5")],
               yaml_extra={"default_arg_suffix": ["_short"]}))
    # a function template whose parameter list mixes the template parameter with ordinary parameters (docs/templates.rst)
    c.append(F("f20", "T", [P("T_v", "a"), P("int_v", "n"), P("dbl_pout", "o")], template=["int", "double"]))
    c.append(F("f21", "int", [P("int_v", "k"), P("T_v", "a")], template=["int", "double"]))
    c.append(F("f17", "int", [P("double_v", "x"), P("int_v", "a", default="7"), P("bool_v", "b", default="true")]))
    # a hidden argument on functions nothing else gives a Fortran wrapper to
    c.append(F("f28", "int", [P("int_v", "a"), P("int_phidden", "st")]))
    c.append(F("f29", "void", [P("int_phidden", "st"), P("double_v", "x")]))
    return c


# ---------------------------------------------------------------------------
# Fortran front (C01): how each row is declared, set, passed and logged by a Fortran caller.
# {n} variable name, {v} value, {L} declared character length, {m} size variable
def fval(kind, v):
    v = v.strip()
    if kind == "bool":
        return ".true." if v in ("1", "true") else ".false."
    if kind == "long":
        return v.rstrip("L") + "_C_LONG"
    if kind == "dbl":
        return v + "_C_DOUBLE"
    if kind == "flt":
        return v + "_C_FLOAT"
    if kind == "intL":
        return v.rstrip("L")
    return v


FPT = "call vt_arr_int([{n}%x, int({n}%y * 4, C_INT)], 2_C_LONG)"

F2D = ("call vt_arr_int([int(size({n}, 1), C_INT), int(size({n}, 2), C_INT), reshape({n}, [size({n})])], "
       "int(size({n}), C_LONG) + 2_C_LONG)")

FROWS = {
    "int_v": dict(decl="integer(C_INT) :: {n}", set="{n} = {v}", arg="{n}", fin="call vt_int(int({n}, C_LONG))", vk="int"),
    "long_v": dict(decl="integer(C_LONG) :: {n}", set="{n} = {v}", arg="{n}", fin="call vt_int({n})", vk="long"),
    "double_v": dict(decl="real(C_DOUBLE) :: {n}", set="{n} = {v}", arg="{n}", fin="call vt_dbl({n})", vk="dbl"),
    "bool_v": dict(decl="logical :: {n}", set="{n} = {v}", arg="{n}", fin="call vt_bool(merge(1_C_INT, 0_C_INT, {n}))", vk="bool"),
    "enum_v": dict(decl="integer(C_INT) :: {n}", set="{n} = {v}", arg="{n}", fin="call vt_int(int({n}, C_LONG))", vk="int"),
    "int_pin": dict(decl="integer(C_INT) :: {n}", set="{n} = {v}", arg="{n}", fin="call vt_int(int({n}, C_LONG))", vk="int"),
    "int_pout": dict(decl="integer(C_INT) :: {n}", set="{n} = -77", arg="{n}", fout="call vt_int(int({n}, C_LONG))", vk="int"),
    "int_pinout": dict(decl="integer(C_INT) :: {n}", set="{n} = {v}", arg="{n}", fin="call vt_int(int({n}, C_LONG))",
                       fout="call vt_int(int({n}, C_LONG))", vk="int"),
    "int_ref": dict(decl="integer(C_INT) :: {n}", set="{n} = {v}", arg="{n}", fin="call vt_int(int({n}, C_LONG))",
                    fout="call vt_int(int({n}, C_LONG))", vk="int"),
    "dbl_cref": dict(decl="real(C_DOUBLE) :: {n}", set="{n} = {v}", arg="{n}", fin="call vt_dbl({n})", vk="dbl"),
    "dbl_pout": dict(decl="real(C_DOUBLE) :: {n}", set="{n} = -7.0_C_DOUBLE", arg="{n}", fout="call vt_dbl({n})", vk="dbl"),
    "bool_pinout": dict(decl="logical :: {n}", set="{n} = {v}", arg="{n}", fin="call vt_bool(merge(1_C_INT, 0_C_INT, {n}))",
                        fout="call vt_bool(merge(1_C_INT, 0_C_INT, {n}))", vk="bool"),
    "cstr_in": dict(decl="character(len={L}) :: {n}", set="{n} = {v}", arg="{n}", fin="call vt_str({n}, len({n}, kind=C_LONG))", vk="str"),
    "str_cref": dict(decl="character(len={L}) :: {n}", set="{n} = {v}", arg="{n}", fin="call vt_str({n}, len({n}, kind=C_LONG))", vk="str"),
    "str_v": dict(decl="character(len={L}) :: {n}", set="{n} = {v}", arg="{n}", fin="call vt_str({n}, len({n}, kind=C_LONG))", vk="str"),
    "str_ref_inout": dict(decl="character(len={L}) :: {n}", set="{n} = {v}", arg="{n}", fin="call vt_str({n}, len({n}, kind=C_LONG))",
                          fout="call vt_str({n}, len({n}, kind=C_LONG))", vk="str", back="pad"),
    "str_ref_out": dict(decl="character(len={L}) :: {n}", set="{n} = 'junk'", arg="{n}",
                        fout="call vt_str({n}, len({n}, kind=C_LONG))", vk="str", back="pad"),
    "arr_in": dict(decl="real(C_DOUBLE) :: {n}(4)", set="{n} = [1.0_C_DOUBLE, {v}, -2.25_C_DOUBLE, 8.0_C_DOUBLE]", arg="{n}(1:{m})",
                   fin="call vt_arr_dbl({n}, int({m}, C_LONG))", vk="dbl"),
    "arr_n": dict(decl="integer(C_INT) :: {n}", set="{n} = {v}", arg=None, vk="int"),     # implied: not in the Fortran API
    "arr_out": dict(decl="real(C_DOUBLE) :: {n}(4)", set="{n} = -1.0_C_DOUBLE", arg="{n}",
                    fout="call vt_arr_dbl({n}, int({m}, C_LONG))", vk="dbl"),
    "out_n": dict(decl="integer(C_INT) :: {n}", set="{n} = {v}", arg="{n}", fin="call vt_int(int({n}, C_LONG))", vk="int"),
    # fortran_generic (docs/fortran.rst "Generic Functions"): the caller's variable has another kind than the C++
    # parameter; the generic interface converts it
    "float_for_double": dict(decl="real(C_FLOAT) :: {n}", set="{n} = {v}", arg="{n}", fin="call vt_dbl(real({n}, C_DOUBLE))", vk="flt"),
    "int_for_long": dict(decl="integer(C_INT) :: {n}", set="{n} = {v}", arg="{n}", fin="call vt_int(int({n}, C_LONG))", vk="intL"),
    # struct (docs/struct.rst): a bind(C) derived type passed by value, by pointer, by const reference
    "pt_v": dict(decl="type(pt) :: {n}", set="{n} = pt({v}, 1.5_C_DOUBLE)", arg="{n}", fin=FPT, vk="int"),
    "pt_pinout": dict(decl="type(pt) :: {n}", set="{n} = pt({v}, 2.5_C_DOUBLE)", arg="{n}", fin=FPT, fout=FPT, vk="int"),
    "pt_cref": dict(decl="type(pt) :: {n}", set="{n} = pt({v}, -0.5_C_DOUBLE)", arg="{n}", fin=FPT, vk="int"),
    # std::vector: {sz} is the extent the caller passes (4, 0, 1, 3 in turn)
    "vec_in": dict(decl="integer(C_INT) :: {n}(4)", set="{n} = [1, {v}, -2, 8]", arg="{n}(1:{sz})",
                   fin="call vt_arr_int({n}(1:{sz}), {sz}_C_LONG)", vk="int"),
    "vec_inout": dict(decl="integer(C_INT) :: {n}(4)", set="{n} = [1, {v}, -2, 8]", arg="{n}(1:{sz})",
                      fin="call vt_arr_int({n}(1:{sz}), {sz}_C_LONG)", fout="call vt_arr_int({n}(1:{sz}), {sz}_C_LONG)", vk="int"),
    "vec_out_alloc": dict(decl="integer(C_INT), allocatable :: {n}(:)", set="continue", arg="{n}",
                          fout="call vt_arr_int({n}, size({n}, kind=C_LONG))", vk="int"),
    "vec_inout_alloc": dict(decl="integer(C_INT), allocatable :: {n}(:)", set="{n} = [1, {v}, -2, 8]; {n} = {n}(1:{sz})", arg="{n}",
                            fin="call vt_arr_int({n}, size({n}, kind=C_LONG))", fout="call vt_arr_int({n}, size({n}, kind=C_LONG))", vk="int"),
    # rank 2: {r} x {c} is (3,2), (1,4), (2,2), (4,1) in turn
    "arr2_in": dict(decl="integer(C_INT) :: {n}({r},{c}), k_{n}", set="{n} = reshape([(k_{n} * 3 + ({v}), k_{n} = 1, {r} * {c})], [{r}, {c}])",
                    arg="{n}", fin=F2D, vk="int"),
    "arr2_n1": dict(decl="integer(C_INT) :: {n}", set="{n} = size({a}, 1)", arg="{n}", fin="call vt_int(int({n}, C_LONG))", vk="int"),
    "arr2_n2": dict(decl="integer(C_INT) :: {n}", set="{n} = size({a}, 2)", arg="{n}", fin="call vt_int(int({n}, C_LONG))", vk="int"),
    "arr2_out": dict(decl="integer(C_INT), allocatable :: {n}(:,:)", set="continue", arg="{n}", fout=F2D, vk="int"),
}

FROWS["tdint_v"] = dict(FROWS["int_v"])
FROWS["tdstr_in"] = dict(FROWS["cstr_in"])

for _k, _T, _ty, _fd, _vals in NATIVE_KINDS:
    if _ty == "dbl":
        FROWS[_k + "_v"] = dict(decl=_fd + " :: {n}", set="{n} = {v}", arg="{n}", fin="call vt_dbl(real({n}, C_DOUBLE))", vk="flt")
    else:
        FROWS[_k + "_v"] = dict(decl=_fd + " :: {n}", set="{n} = {v}", arg="{n}", fin="call vt_int(int({n}, C_LONG))", vk="int")

FROWS["int_phidden"] = dict(decl="integer(C_INT) :: {n}", set="{n} = -77", arg=None, vk="int")
FROWS["cstrv_in"] = dict(decl="character(len={L}) :: {n}(4)", set="{n} = [character(len={L}) :: {v}]", arg="{n}(1:{m})",
                         fin="call vt_strv({n}(1:{m}))", vk="strv")

FRESULTS = {
    "void": dict(),
    "int": dict(decl="integer(C_INT) :: rv", fout="call vt_int(int(rv, C_LONG))"),
    "double": dict(decl="real(C_DOUBLE) :: rv", fout="call vt_dbl(rv)"),
    "bool": dict(decl="logical :: rv", fout="call vt_bool(merge(1_C_INT, 0_C_INT, rv))"),
    "enum": dict(decl="integer(C_INT) :: rv", fout="call vt_int(int(rv, C_LONG))"),
    "cstr": dict(decl="character(len=:), allocatable :: rv", fout="call vt_str(rv, len(rv, kind=C_LONG))"),
    "str_cref": dict(decl="character(len=:), allocatable :: rv", fout="call vt_str(rv, len(rv, kind=C_LONG))"),
    "pt": dict(decl="type(pt) :: rv", fout="call vt_arr_int([rv%x, int(rv%y * 4, C_INT)], 2_C_LONG)"),
    "iptr3": dict(decl="integer(C_INT), pointer :: rv(:)", fout="call vt_arr_int(rv, size(rv, kind=C_LONG))", ptr=True),
    "cptr_raw": dict(decl="type(C_PTR) :: rv"),
    "iptr23": dict(decl="integer(C_INT), allocatable :: rv(:,:)",
                   fout="call vt_arr_int([int(size(rv, 1), C_INT), int(size(rv, 2), C_INT), reshape(rv, [size(rv)])], int(size(rv), C_LONG) + 2_C_LONG)"),
}


FRESULTS["tdint"] = dict(FRESULTS["int"])


for _k, _T, _ty, _fd, _vals in NATIVE_KINDS:
    FRESULTS[_k] = dict(decl=_fd + " :: rv", fout=("call vt_dbl(real(rv, C_DOUBLE))" if _ty == "dbl" else "call vt_int(int(rv, C_LONG))"))


FRESULTS["char1"] = dict(decl="character(len=1) :: rv", fout="call vt_str(rv, len(rv, kind=C_LONG))", back="pad")
FRESULTS["char3"] = dict(decl="character(len=3) :: rv", fout="call vt_str(rv, len(rv, kind=C_LONG))", back="pad")


def vector_cases():
    """Fortran-only cases: std::vector arguments and a pointer result with a declared extent."""
    return [F("v1", "int", [P("vec_in", "v"), P("int_v", "k")]),
            F("v2", "void", [P("vec_inout", "v")]),
            F("v3", "int", [P("int_v", "k"), P("vec_out_alloc", "v")]),
            F("v4", "iptr3", [P("int_v", "k")]),
            F("v11", "iptr23", [P("int_v", "k")]),
            F("v10", "cptr_raw", [P("str_cref", "s"), P("str_ref_inout", "t"), P("int_v", "k")]),
            F("v9", "int", [P("vec_inout_alloc", "v"), P("int_v", "k")]),
            F("v12", "int", [P("cstrv_in", "names", m="n"), P("out_n", "n")]),
            F("v13", "int", [P("int_v", "k"), P("cstrv_in", "names", m="n"), P("out_n", "n"), P("cstr_in", "s")]),
            F("v5", "double", [P("vec_in", "a"), P("vec_inout", "b"), P("vec_out_alloc", "c")]),
            # fortran_generic: one C++ function, a generic interface with one specific per listed declaration
            F("v7", "int", [P("double_v", "x"), P("int_v", "k")], fgeneric=[{}, {"x": "float_for_double"}],
              yaml_extra={"fortran_generic": [{"decl": "(float x)", "function_suffix": "_float"},
                                               {"decl": "(double x)", "function_suffix": "_double"}]}),
            F("v8", "double", [P("long_v", "n"), P("double_v", "x")],
              fgeneric=[{}, {"n": "int_for_long"}, {"x": "float_for_double"}, {"n": "int_for_long", "x": "float_for_double"}],
              yaml_extra={"fortran_generic": [{"decl": "(int n, float x)"}, {"decl": "(int n, double x)"},
                                               {"decl": "(long n, float x)"}, {"decl": "(long n, double x)"}]}),
            F("v6", "void", [P("arr2_in", "src", m1="nr", m2="nc"), P("arr2_n1", "nr", a="src"), P("arr2_n2", "nc", a="src"),
                             P("arr2_out", "dst", a="src", m1="nr", m2="nc")])]


def fortran_cases():
    """The cases whose every row has a documented Fortran form in FROWS."""
    out = []
    for c in base_cases() + vector_cases():
        ok = all((p["kind"] in FROWS or p["kind"] == "T_v") for p in c["params"]) and (c["result"] in FRESULTS or c["result"] == "T")
        if ok:
            out.append(c)
    return out
