"""Library descriptions out of the TLA+ grammar LibGen.tla, and the build of
everything Shroud generates for them (property C05).

  sample_libraries(n, seed)   TLC -simulate over LibGen: behaviours of the
                              description-building actions; the description
                              at Finish is one member of the admitted domain
  materialise(d, lib)         yaml + the wrapped library's own sources
  build(d, lib)               run the real Shroud, compile every written file
                              (headers alone as C and C++, sources, Fortran
                              modules in the order Shroud lists them, Python
                              and Lua modules against their headers), link,
                              and read the symbol tables back: returns the
                              compilers' diagnostics and the build trace for
                              Trace_EmitOrder.
"""
import json
import os
import re
import subprocess
import sys

HERE = os.path.dirname(os.path.abspath(__file__))
sys.path.insert(0, os.path.dirname(HERE))
import common  # noqa: E402
import shroudrun  # noqa: E402
from rt import cases as K  # noqa: E402
from rt import cgen  # noqa: E402

PYINC = "/root/.pyenv/versions/3.12.1/include/python3.12"
PYLIBDIR = "/root/.pyenv/versions/3.12.1/lib"
STUB = os.path.join(HERE, "luastub")


def sample_libraries(n, seed, depth=40, workers=4):
    """n behaviours of LibGen; returns the descriptions printed at Finish."""
    r = common.run_tlc("LibGen", "LibGen", simulate="num=%d" % max(1, n // workers + 1), depth=depth, workers=workers,
                       extra=["-seed", str(seed)], timeout=600)
    if r.error or r.invariant_violated:
        raise common.MachineryError("LibGen: %s\n%s" % (r.error or r.invariant_violated, r.out[-2000:]))
    libs = []
    for m in re.finditer(r'<<\s*"LIBGEN",\s*"((?:[^"\\]|\\.)*)"\s*>>', r.out, re.S):
        txt = m.group(1).replace("\n", "")
        txt = txt.encode().decode("unicode_escape")
        try:
            libs.append(json.loads(txt))
        except ValueError:
            raise common.MachineryError("cannot read LibGen output: %r" % txt[:300])
    if not libs:
        raise common.MachineryError("LibGen produced no description:\n" + r.out[-2000:])
    # deterministic order whatever the worker interleaving
    libs.sort(key=lambda l: json.dumps(l, sort_keys=True))
    return libs, r


def cases_of(lib, rows_ok=None, results_ok=None):
    """LibGen description -> rt/cases.py cases.  With rows_ok/results_ok only the functions a given driver can
    call are kept (an overload whose base function was dropped becomes a function of its own)."""
    out = []
    names = {}
    for i, f in enumerate(lib["funcs"], 1):
        if rows_ok is not None and not (all(r in rows_ok for r in f["params"]) and f["result"] in results_ok):
            continue
        if f["kind"] == "overload" and f["of"] in names:
            name = names[f["of"]]
        else:
            name = "g%d" % i
        names[i] = name
        ps = []
        rows = list(f["params"])
        if rows[:1] == ["arr_in"]:
            ps = [K.P("arr_in", "arr", m="n"), K.P("arr_n", "n", a="arr")]
        elif rows[:1] == ["cstrv_in"]:
            ps = [K.P("cstrv_in", "names", m="n"), K.P("out_n", "n")]
        elif rows[:1] == ["arr_out"]:
            ps = [K.P("arr_out", "arr", m="n"), K.P("out_n", "n")]
        else:
            for j, r in enumerate(rows):
                ps.append(K.P(r, "abcdefgh"[j]))
        nd = f.get("ndef", 0)
        for p in ps[len(ps) - nd:]:
            p["default"] = {"int_v": "3", "long_v": "4", "double_v": "2.5", "bool_v": "true"}[p["kind"]]
        kw = {}
        if f.get("gen"):
            # Genericize: the first parameter passed as double (or long) may be given as float (int) by the caller
            g = next(p for p in ps if p["kind"] in ("double_v", "long_v"))
            alt, own = ("float", "double") if g["kind"] == "double_v" else ("int", "long")
            kw["fgeneric"] = [{}, {g["name"]: "%s_for_%s" % (alt, own)}]
            kw["yaml_extra"] = {"fortran_generic": [{"decl": "(%s %s)" % (alt, g["name"])}, {"decl": "(%s %s)" % (own, g["name"])}]}
        if f.get("tmpl"):
            # Templatize: the first parameter passed as int becomes the template parameter
            t = next(p for p in ps if p["kind"] == "int_v")
            t["kind"] = "T_v"
            kw["template"] = ["int", "double"]
        out.append(K.F(name, f["result"], ps, **kw))
    return out


def to_c(text):
    """C++ flavoured snippets of the row table -> C."""
    text = re.sub(r"(?<!enum )\bColor\b(?! *\{)", "enum Color", text)
    return text


def materialise(d, lib):
    import yaml

    os.makedirs(d, exist_ok=True)
    if "custom" in lib:
        # a hand-written member of the domain (declarations the row table cannot express, e.g. cpp_if)
        cu = lib["custom"]
        open(os.path.join(d, "sub.yaml"), "w").write(cu["yaml"])
        open(os.path.join(d, "sub.hpp"), "w").write(cu["hpp"])
        open(os.path.join(d, "sub.cpp"), "w").write(cu["cpp"])
        return {"yaml": yaml.safe_load(cu["yaml"]), "header": "sub.hpp", "source": "sub.cpp", "cases": []}
    o = lib["opts"]
    opts = {"debug": o["debug"], "doxygen": o["doxygen"], "literalinclude": o["literalinclude"],
            "show_splicer_comments": o["show_splicer_comments"], "C_line_length": o["line"], "F_line_length": o["line"],
            "wrap_c": o.get("wrap_c", True), "wrap_fortran": o["wrap_fortran"], "wrap_python": o["wrap_python"],
            "wrap_lua": o["wrap_lua"], "F_CFI": o["F_CFI"],
            "PY_array_arg": "list", "PY_struct_arg": "class"}
    cases = cases_of(lib)
    y, hpp, cpp = cgen.gen_library(cases, lib["class"], opts, ns="ns1" if lib["ns"] else None, derived=lib.get("derived", False))
    if o["wrap_python"] and lib["class"]:
        # the corpus switches the Python (and Lua) wrapper off for a class instance returned by value
        # (classes.yaml getClassCopy): there is no py_shadow_scalar_result statement
        def prune_py(nodes):
            keep = []
            for n in nodes:
                dcl = n.get("decl", "")
                if any(w in dcl for w in ("dup()", "fresh(int v)")) or dcl == "Color tint":
                    continue        # (an enum-typed member: recorded finding C05, built on its own in c05.PYENUM)
                if "declarations" in n:
                    n = dict(n, declarations=prune_py(n["declarations"]))
                keep.append(n)
            return keep
        y["declarations"] = prune_py(y["declarations"])
    if o["wrap_lua"] and lib["class"]:
        # the Lua wrapper has no statements for class-typed arguments or results (docs/lua.rst): keep the
        # constructor, destructor and the methods on native values
        def prune(nodes):
            keep = []
            for n in nodes:
                dcl = n.get("decl", "")
                if any(w in dcl for w in ("clone()", "add(const Cls", "make(int v)", "dup()", "fresh(int v)", "blend(Cls")):
                    continue
                if "declarations" in n:
                    n = dict(n, declarations=prune(n["declarations"]))
                keep.append(n)
            return keep
        y["declarations"] = prune(y["declarations"])
    if lib["language"] == "c":
        y["language"] = "c"
        y["cxx_header"] = "sub.h"

        def fix(n):
            if isinstance(n, dict):
                return {k: fix(v) for k, v in n.items()}
            if isinstance(n, list):
                return [fix(v) for v in n]
            if isinstance(n, str):
                return to_c(n)
            return n
        y["declarations"] = fix(y["declarations"])
        hpp = to_c(hpp).replace("#include <string>", "#include <stdbool.h>").replace("#include <vector>", "")
        hpp = hpp.replace("struct Pt { int x; double y; };", "struct Pt { int x; double y; };\ntypedef struct Pt Pt;")
        cpp = to_c(cpp).replace('#include "sub.hpp"', '#include "sub.h"').replace("#include <cstring>", "#include <string.h>")
        cpp = cpp.replace("#include <cstdio>", "#include <stdio.h>")
        hname, sname = "sub.h", "sub.c"
    else:
        hname, sname = "sub.hpp", "sub.cpp"
    with open(os.path.join(d, "sub.yaml"), "w") as f:
        yaml.safe_dump(y, f, default_flow_style=False, sort_keys=False)
    open(os.path.join(d, hname), "w").write(hpp)
    open(os.path.join(d, sname), "w").write(cpp)
    return {"yaml": y, "header": hname, "source": sname, "cases": cases}


def sh(cmd, cwd, timeout=300):
    p = subprocess.run(cmd, cwd=cwd, stdout=subprocess.PIPE, stderr=subprocess.STDOUT, text=True, timeout=timeout, errors="replace")
    return p.returncode, p.stdout


_RUNTIME = None


def runtime_symbols():
    """Names the toolchain's own libraries define (libc, libm, libstdc++, libgfortran, libgcc, libpython)."""
    global _RUNTIME
    if _RUNTIME is None:
        s = set()
        libs = []
        for cc, names in (("gcc", ["libc.so.6", "libm.so.6", "libgcc_s.so.1"]), ("g++", ["libstdc++.so"]), ("gfortran", ["libgfortran.so"])):
            for n in names:
                p = subprocess.run([cc, "-print-file-name=" + n], stdout=subprocess.PIPE, text=True).stdout.strip()
                if os.path.isabs(p) and os.path.exists(p):
                    libs.append(os.path.realpath(p))
        libs.append(os.path.join(PYLIBDIR, "libpython3.12.so"))
        for l in libs:
            out = subprocess.run(["nm", "-D", "--defined-only", l], stdout=subprocess.PIPE, stderr=subprocess.DEVNULL, text=True).stdout
            for line in out.splitlines():
                parts = line.split()
                if len(parts) >= 3:
                    s.add(parts[2].split("@")[0])
        if len(s) < 3000:
            raise common.MachineryError("cannot read the runtime libraries' symbol tables (%d symbols)" % len(s))
        s.update(["_GLOBAL_OFFSET_TABLE_", "__dso_handle", "_ITM_deregisterTMCloneTable", "_ITM_registerTMCloneTable", "__gmon_start__"])
        _RUNTIME = s
    return _RUNTIME


def nm_object(path):
    """(strong defs, weak defs, undefs) of an object file, external symbols only."""
    out = subprocess.run(["nm", "-g", path], stdout=subprocess.PIPE, stderr=subprocess.STDOUT, text=True).stdout
    defs, weak, und = set(), set(), set()
    for line in out.splitlines():
        parts = line.split()
        if len(parts) == 2:
            t, n = parts
        elif len(parts) == 3:
            _, t, n = parts
        else:
            continue
        if t == "U":
            und.add(n)
        elif t in "WwVvu":
            if len(parts) == 3:
                weak.add(n)
            else:
                und.add(n) if t in "wv" else weak.add(n)   # undefined weak reference: may stay unresolved
        elif t in "TDBRSGC":
            defs.add(n)
    rt = runtime_symbols()
    und = {u for u in und if u not in rt}
    return sorted(defs), sorted(weak), sorted(und)


_USE = re.compile(r"^\s*use\s*(?:,\s*(intrinsic|non_intrinsic)\s*)?(?:::)?\s*(\w+)", re.I | re.M)
_MOD = re.compile(r"^\s*module\s+(?!procedure\b)(\w+)\s*$", re.I | re.M)
_GUARD = re.compile(r"^\s*#\s*ifndef\s+(\w+)\s*\n\s*#\s*define\s+(\w+)", re.M)
INTRINSIC_MODULES = ["iso_c_binding", "iso_fortran_env", "ieee_arithmetic", "ieee_exceptions", "ieee_features"]


def fortran_modules(text):
    text = re.sub(r"!.*", "", text)
    names = [m.group(1).lower() for m in _MOD.finditer(text)]
    uses = sorted({m.group(2).lower() for m in _USE.finditer(text)} - set(names and []))
    return names, uses


def header_guard(text):
    m = _GUARD.search(text)
    if m and m.group(1) == m.group(2):
        return m.group(1)
    return ""


class Build(object):
    """Accumulates diagnostics (problems) and the build trace (events)."""

    def __init__(self, d, out, language, inc=(), provided=()):
        self.d, self.out, self.language = d, out, language
        self.inc = []
        for i in [d, out, HERE] + list(inc):
            self.inc += ["-I", i]
        self.problems = []          # (stage, file, diagnostic)
        self.events = []
        self.objs = []
        self.provided = list(INTRINSIC_MODULES) + list(provided)
        self.counts = {}

    def note(self, stage):
        self.counts[stage] = self.counts.get(stage, 0) + 1

    def problem(self, stage, fn, txt):
        self.problems.append((stage, os.path.basename(fn), txt[:3000]))

    def header_alone(self, path, as_c=True, as_cxx=True, extra=()):
        text = open(path, errors="replace").read()
        self.events.append({"ev": "Header", "file": os.path.basename(path), "guard": header_guard(text)})
        for lang, cc, std, on in (("c", "gcc", "-std=c99", as_c), ("c++", "g++", "-std=c++11", as_cxx)):
            if not on:
                continue
            self.note("header-as-" + lang)
            rc, txt = sh([cc, std, "-fsyntax-only", "-x", lang, path] + self.inc + list(extra), self.d)
            if rc != 0:
                self.problem("header-alone-as-" + lang, path, txt)

    def compile_c(self, path, extra=(), record=True, werror=True):
        o = os.path.join(self.d, "obj_" + os.path.basename(path) + ".o")
        if path.endswith(".c"):
            cmd = ["gcc", "-std=c99"]
        else:
            cmd = ["g++", "-std=c++11"]
        if werror:
            cmd += ["-Werror=implicit-function-declaration"] if path.endswith(".c") else []
        self.note("compile-" + ("c" if path.endswith(".c") else "c++"))
        rc, txt = sh(cmd + ["-g", "-fPIC", "-c", path, "-o", o] + self.inc + list(extra), self.d)
        if rc != 0:
            self.problem("compile", path, txt)
            return None
        if record:
            self.add_object(o, os.path.basename(path))
        return o

    def add_object(self, o, name):
        defs, weak, und = nm_object(o)
        self.events.append({"ev": "Object", "file": name, "defs": defs, "weak": weak, "undefs": und})
        self.objs.append(o)

    def compile_f(self, path, fflags=()):
        text = open(path, errors="replace").read()
        names, uses = fortran_modules(text)
        self.events.append({"ev": "Module", "file": os.path.basename(path), "names": names,
                            "uses": [u for u in uses if u not in names]})
        o = os.path.join(self.d, "obj_" + os.path.basename(path) + ".o")
        self.note("compile-fortran")
        rc, txt = sh(["gfortran", "-cpp", "-ffree-form", "-g", "-fPIC", "-c", path, "-o", o,
                      "-J", self.d] + self.inc + list(fflags), self.d)
        if rc != 0:
            # gfortran does not say which procedure a line belongs to: add it (the classification of findings
            # goes by the function, not by the wording)
            lines = text.splitlines()
            procs = []
            for m in re.finditer(re.escape(os.path.basename(path)) + r":(\d+):", txt):
                k = min(int(m.group(1)), len(lines)) - 1
                mp = re.match(r"\s*module\s+procedure\s+(\w+)", lines[k], re.I) if k >= 0 else None
                if mp:
                    # a line of a generic interface block names its procedure itself
                    if mp.group(1) not in procs:
                        procs.append(mp.group(1))
                    continue
                while k >= 0:
                    if re.match(r"\s*end\s+(function|subroutine|interface)\b", lines[k], re.I) and k < min(int(m.group(1)), len(lines)) - 1:
                        break       # the line is not inside a procedure
                    mm = re.match(r"\s*(?:[\w()=, ]*\s)?(?:function|subroutine)\s+(\w+)", lines[k], re.I)
                    if mm and not lines[k].strip().lower().startswith("end"):
                        if mm.group(1) not in procs:
                            procs.append(mm.group(1))
                        break
                    k -= 1
            txt = "".join("[in procedure %s]\n" % p_ for p_ in procs) + txt
            self.problem("compile-fortran", path, txt)
            return None
        self.add_object(o, os.path.basename(path))
        return o

    def link(self, cmd, name):
        self.note("link")
        rc, txt = sh(cmd, self.d)
        if rc != 0:
            self.problem("link", name, txt)
        return rc == 0

    def trace(self, label):
        return {"kind": "build", "label": label, "provided": self.provided, "events": self.events + [{"ev": "Link"}]}


def generated_files(out):
    fs = sorted(os.listdir(out))
    return {
        "c_headers": [f for f in fs if f.endswith(".h")],
        "cxx_headers": [f for f in fs if f.endswith(".hpp")],
        "c": [f for f in fs if f.endswith(".c")],
        "cxx": [f for f in fs if f.endswith(".cpp")],
        "f": [f for f in fs if f.endswith(".f") or f.endswith(".f90")],
    }


def build(d, lib):
    """-> dict(shroud_rc, problems, trace, counts, files)."""
    m = materialise(d, lib)
    out = os.path.join(d, "gen")
    os.makedirs(out, exist_ok=True)
    ffl = os.path.join(d, "ffiles.txt")
    cfl = os.path.join(d, "cfiles.txt")
    rc, so, se = shroudrun.run(["--outdir", out, "--logdir", out, "--ffiles", ffl, "--cfiles", cfl, os.path.join(d, "sub.yaml")])
    if rc != 0:
        return {"shroud_rc": rc, "stderr": se[-1500:], "problems": [("shroud", "sub.yaml", se[-1500:])], "trace": None, "counts": {}, "files": []}
    o = lib["opts"]
    b = Build(d, out, lib["language"], inc=[PYINC, STUB])
    b.inc += list(lib.get("defines", []))        # preprocessor symbols the library is configured with
    g = generated_files(out)
    ffiles = open(ffl).read().split() if os.path.exists(ffl) else []
    cfiles = open(cfl).read().split() if os.path.exists(cfl) else []
    listed = {os.path.basename(f) for f in ffiles + cfiles}
    # the wrapped library and the trace channel it logs through
    lib_o = b.compile_c(os.path.join(d, m["source"]), werror=False)
    vt_o = b.compile_c(os.path.join(HERE, "vt.c"), werror=False)
    if lib_o is None or vt_o is None:
        raise common.MachineryError("the subject library does not compile: %r" % (b.problems,))
    b.problems = []
    # headers on their own
    for h in g["c_headers"]:
        pyh = h.startswith("py") or h.startswith("lua")
        b.header_alone(os.path.join(out, h), as_c=True, as_cxx=True)
    for h in g["cxx_headers"]:
        b.header_alone(os.path.join(out, h), as_c=False, as_cxx=True)
    # sources
    core, pyo, luao = [], [], []
    for s in g["c"] + g["cxx"]:
        if s.startswith("py"):
            oo = b.compile_c(os.path.join(out, s), record=False)
            if oo:
                pyo.append((oo, s))
        elif s.startswith("lua"):
            oo = b.compile_c(os.path.join(out, s), record=False)
            if oo:
                luao.append((oo, s))
        else:
            b.compile_c(os.path.join(out, s))
    # Fortran, in the order Shroud lists the files
    fnames = [os.path.basename(f) for f in ffiles]
    for f in g["f"]:
        if f not in fnames:
            b.problem("file-list", f, "Fortran file written but not listed in --ffiles")
    mods = []
    for f in fnames:
        p = os.path.join(out, f)
        if not os.path.exists(p):
            b.problem("file-list", f, "listed in --ffiles but not written")
            continue
        if b.compile_f(p):
            mods += fortran_modules(open(p).read())[0]
    core_objs = list(b.objs)
    # link the C/Fortran pieces with the library into a program (pointless after a failed compilation:
    # the missing object would only repeat the diagnostic as undefined references)
    compiled = not [p for p in b.problems if p[0].startswith("compile")]
    if not compiled:
        pass
    elif mods:
        main = os.path.join(d, "main_all.f90")
        open(main, "w").write("program main_all\n" + "".join("  use %s\n" % m_ for m_ in mods) + "  implicit none\nend program main_all\n")
        b.link(["gfortran", "-o", os.path.join(d, "prog_f"), main, "-I", d] + core_objs + ["-lstdc++"], "fortran program")
    else:
        main = os.path.join(d, "main_all.c")
        open(main, "w").write("int main(void) { return 0; }\n")
        b.link(["g++", "-o", os.path.join(d, "prog_c"), main] + core_objs, "C program")
    trace = b.trace("core") if compiled else None
    # Python module: shared object with every symbol resolved, then imported
    extra_traces = []
    py_ok = not [p for p in b.problems if p[0] == "compile" and p[1].startswith("py")]
    lua_ok = not [p for p in b.problems if p[0] == "compile" and p[1].startswith("lua")]
    if pyo and py_ok:
        ev0 = [e for e in b.events if e["ev"] == "Object" and e["file"] in (m["source"], "vt.c")]
        evs = list(ev0)
        for oo, s in pyo:
            dfs, wk, ud = nm_object(oo)
            evs.append({"ev": "Object", "file": s, "defs": dfs, "weak": wk, "undefs": ud})
        extra_traces.append({"kind": "build", "label": "python", "provided": [], "events": evs + [{"ev": "Link"}]})
        so_ = os.path.join(d, "sub.so")
        ok = b.link(["g++", "-shared", "-Wl,--no-undefined", "-o", so_] + [x for x, _ in pyo] + [lib_o, vt_o] +
                    ["-L", PYLIBDIR, "-lpython3.12", "-Wl,-rpath," + PYLIBDIR], "python module")
        if ok:
            b.note("import-python")
            rc, txt = sh([common.PY, "-c", "import sys; sys.path.insert(0, %r); import sub; print(sorted(n for n in dir(sub) if not n.startswith('_')))" % d], d)
            if rc != 0:
                b.problem("import", "sub.so", txt)
    if luao and lua_ok:
        stub_o = b.compile_c(os.path.join(STUB, "luastub.c"), record=False, werror=False)
        ev0 = [e for e in b.events if e["ev"] == "Object" and e["file"] in (m["source"], "vt.c")]
        evs = list(ev0)
        for oo, s in luao + [(stub_o, "luastub.c")]:
            dfs, wk, ud = nm_object(oo)
            evs.append({"ev": "Object", "file": s, "defs": dfs, "weak": wk, "undefs": ud})
        extra_traces.append({"kind": "build", "label": "lua", "provided": [], "events": evs + [{"ev": "Link"}]})
        b.link(["g++", "-shared", "-Wl,--no-undefined", "-o", os.path.join(d, "luasub.so")] + [x for x, _ in luao] + [lib_o, vt_o, stub_o],
               "lua module")
    return {"shroud_rc": 0, "problems": b.problems, "trace": trace, "extra_traces": extra_traces, "counts": b.counts,
            "files": sorted(os.listdir(out)), "listed": sorted(listed)}


def driver_options(lib):
    """The options of a description that matter to the run-time drivers."""
    o = lib["opts"]
    # debug stays on: the drivers find the C and Fortran names in the debug comments (that debug changes comments
    # only is property C16)
    return {"debug": True, "doxygen": o["doxygen"], "literalinclude": o["literalinclude"],
            "show_splicer_comments": o["show_splicer_comments"], "C_line_length": o["line"], "F_line_length": o["line"],
            "F_CFI": o["F_CFI"]}


_WIDE = None


def cfg_sets():
    """The row sets of specs/LibGen.cfg (single source of truth for the domain)."""
    txt = open(os.path.join(common.SPECS, "LibGen.cfg")).read()
    out = {}
    for m in re.finditer(r"^\s*(\w+)\s*=\s*\{([^}]*)\}", txt, re.M):
        out[m.group(1)] = set(re.findall(r'"([^"]+)"', m.group(2)))
    return out


def wide_library(rows=None, class_=True, defaults=False, **opts):
    """The wide member of the domain printed by specs/LibGenPairs.tla, optionally restricted to the functions
    whose parameter rows all lie in `rows` (e.g. PyRows, LuaRows)."""
    global _WIDE
    if _WIDE is None:
        r = common.run_tlc("LibGenPairs", "LibGenPairs", workers=1, timeout=300)
        if r.error:
            raise common.MachineryError("LibGenPairs: %s\n%s" % (r.error, r.out[-1500:]))
        m = re.search(r'<<\s*"LIBGEN",\s*"((?:[^"\\]|\\.)*)"\s*>>', r.out, re.S)
        if not m:
            raise common.MachineryError("LibGenPairs printed no description")
        _WIDE = json.loads(m.group(1).replace("\n", "").encode().decode("unicode_escape"))
    lib = json.loads(json.dumps(_WIDE))
    if rows is not None:
        lib["funcs"] = [f for f in lib["funcs"] if all(p in rows for p in f["params"])]
    if defaults:
        # AddDefaults of the grammar: a trailing parameter passed by value gets a default value
        for f in lib["funcs"]:
            if len(f["params"]) == 2 and f["params"][1] in ("int_v", "double_v", "bool_v", "long_v"):
                if f["result"] == "str_cref" and opts.get("wrap_python", True):
                    continue    # known finding C05 compile:py:'SHCXX_rv'_declared_as_reference...: does not compile
                f["ndef"] = 1
    lib["class"] = class_
    lib["opts"].update(opts)
    return lib


STR_ROWS = {"cstr_in", "tdstr_in", "str_cref", "str_v", "str_ref_inout", "str_ref_out"}
STR_RESULTS = {"cstr", "str_cref", "char1", "char3"}
VEC_BUF_ROWS = {"vec_in", "vec_inout", "vec_out_alloc", "vec_inout_alloc", "cstrv_in"}
CDESC_RESULTS = {"iptr3", "iptr23"}


def cfi_conflict(f):
    """Known finding (KNOWN_FINDINGS.txt, C05 shroud:Error_with_template...): with F_CFI a function that has a
    character/string argument or result gets a CFI clone only; its std::vector arguments and a pointer result
    with a declared extent are then generated without the bufferify treatment they need: Shroud stops with
    'Error with template', or the C wrapper / the Fortran wrapper does not compile."""
    stringy = f["result"] in STR_RESULTS or bool(set(f["params"]) & STR_ROWS)
    return stringy and (bool(set(f["params"]) & VEC_BUF_ROWS) or f["result"] in CDESC_RESULTS)


def known_cause(lib, f):
    """The recorded finding (KNOWN_FINDINGS.txt, property C05) a function of a LibGen description runs into, or None.
    Findings with many faces are recognised by the shape of the function, not by a compiler's wording."""
    if f.get("tmpl") and f.get("gen"):
        # the fortran_generic entries of a function template keep the template's parameter list: the instantiations
        # are wrapped with 'T' parameters again
        return "template-with-generic"
    if f.get("tmpl") and f.get("ndef"):
        # the variants for default arguments are cloned from the template itself and never instantiated
        return "template-with-defaults"
    if lib["opts"].get("F_CFI") and cfi_conflict(f):
        return "cfi-clone-only"
    return None


def without_cfi_conflict(lib, causes=None):
    """The description without the functions that run into a recorded finding (all of them, or those of `causes`)."""
    keep = []
    remap = {}
    for i, f in enumerate(lib["funcs"], 1):
        kc = known_cause(lib, f)
        if kc is not None and (causes is None or kc in causes):
            continue
        f = dict(f)
        if f["kind"] == "overload":
            if f["of"] not in remap:
                f = dict(f, kind="plain")
                f.pop("of")
            else:
                f["of"] = remap[f["of"]]
        keep.append(f)
        remap[i] = len(keep)
    return dict(lib, funcs=keep)


def solo_libraries(rows=None, **opts):
    """One library per parameter row and per result row with nothing else in it: a helper, include or module that a
    statement forgets to request is not supplied by some other function of the library."""
    sets = cfg_sets()
    base = wide_library(**opts)
    out = []
    single = sorted(sets["ParamRows"] - {"arr_in", "arr_n", "arr_out", "out_n", "cstrv_in"})
    plists = [[r] for r in single] + [["arr_in", "arr_n"], ["arr_out", "out_n"], ["cstrv_in", "out_n"]]
    for ps in plists:
        if rows is not None and not all(p in rows for p in ps):
            continue
        out.append(dict(base, funcs=[{"kind": "plain", "result": "void" if ps[0] in ("vec_inout_alloc",) else "int", "params": ps, "ndef": 0}],
                        **{"class": False}))
    for r in sorted(sets["ResultRows"]):
        out.append(dict(base, funcs=[{"kind": "plain", "result": r, "params": ["int_v"], "ndef": 0}], **{"class": False}))
    return [json.loads(json.dumps(l)) for l in out]
