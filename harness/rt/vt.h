/* Trace channel shared by drivers (C, Fortran via bind(C), Python via ctypes)
 * and the instrumented subject library.  One JSON object per line, flushed.
 * File named by the environment variable VT_TRACE (default: stderr).        */
#ifndef VT_H
#define VT_H
#ifdef __cplusplus
extern "C" {
#endif
void vt_begin(const char *ev, const char *f);
void vt_target(const char *target);      /* intended / actual library entry point */
void vt_int(long v);
void vt_dbl(double v);                   /* exact multiples of 1/4 only */
void vt_bool(int v);
void vt_str(const char *s, long n);      /* n < 0: strlen; s == NULL: null */
void vt_arr_int(const int *a, long n);
void vt_arr_dbl(const double *a, long n);
void vt_obj(const void *p);              /* object identity (small id) */
void vt_end(void);
void vt_note(const char *text);
long vt_live(long delta);                /* live-object counter of the subject library */
#ifdef __cplusplus
}
#endif
#endif
