"""Fortran front of the run-time checks (C01): Fortran driver generator, build
with gfortran + g++, execution, per-call traces for Trace_CallBridge.
"""
import json
import os
import subprocess
import sys

HERE = os.path.dirname(os.path.abspath(__file__))
sys.path.insert(0, os.path.dirname(HERE))
import common  # noqa: E402
import shroudrun  # noqa: E402
from rt import cases as K, cgen  # noqa: E402
from rt.cgen import px  # noqa: E402

VT_IFACE = """
  interface
    subroutine vt_begin(ev, f) bind(C, name="vt_begin")
      import :: C_CHAR
      character(kind=C_CHAR), intent(IN) :: ev(*), f(*)
    end subroutine
    subroutine vt_target(t) bind(C, name="vt_target")
      import :: C_CHAR
      character(kind=C_CHAR), intent(IN) :: t(*)
    end subroutine
    subroutine vt_int(v) bind(C, name="vt_int")
      import :: C_LONG
      integer(C_LONG), value :: v
    end subroutine
    subroutine vt_dbl(v) bind(C, name="vt_dbl")
      import :: C_DOUBLE
      real(C_DOUBLE), value :: v
    end subroutine
    subroutine vt_bool(v) bind(C, name="vt_bool")
      import :: C_INT
      integer(C_INT), value :: v
    end subroutine
    subroutine vt_str(s, n) bind(C, name="vt_str")
      import :: C_CHAR, C_LONG
      character(kind=C_CHAR), intent(IN) :: s(*)
      integer(C_LONG), value :: n
    end subroutine
    subroutine vt_arr_dbl(a, n) bind(C, name="vt_arr_dbl")
      import :: C_DOUBLE, C_LONG
      real(C_DOUBLE), intent(IN) :: a(*)
      integer(C_LONG), value :: n
    end subroutine
    subroutine vt_arr_int(a, n) bind(C, name="vt_arr_int")
      import :: C_INT, C_LONG
      integer(C_INT), intent(IN) :: a(*)
      integer(C_LONG), value :: n
    end subroutine
    subroutine vt_obj(p) bind(C, name="vt_obj")
      import :: C_PTR
      type(C_PTR), value :: p
    end subroutine
    subroutine vt_end() bind(C, name="vt_end")
    end subroutine
  end interface
"""


def ffmt(s, **kw):
    for k, v in kw.items():
        s = s.replace("{" + k + "}", str(v))
    return s


_FVARIANT = {}


def frow(p, tt):
    k = p["kind"]
    if k == "T_v":
        k = {"int": "int_v", "double": "double_v"}[tt]
    # fortran_generic: the caller's variable may have another kind than the C++ parameter
    k2 = _FVARIANT.get(p["name"], k)
    return K.FROWS[k2], cgen.row(p, tt)


def fres(c, tt):
    n = c["result"]
    if n == "T":
        n = tt
    return K.FRESULTS[n], cgen.res_row(c["result"], tt)


def fname(c, tt):
    """The documented Fortran name a user calls: the generic name of the C++ function;
    template instantiations with a templated result have no generic (docs/tutorial.rst)."""
    if tt is not None and c["result"] == "T":
        return "%s_%s" % (c["name"], tt)
    return c["name"]


def gen_f_driver(cases, nvals, with_class):
    L = ["program driver", "  use iso_c_binding", "  use sub_ns1_mod", "  implicit none", VT_IFACE]
    body = []
    calls = []
    for c in cases:
      for fv_ in (c.get("fgeneric") or [{}]):
        _FVARIANT.clear()
        _FVARIANT.update(fv_)
        for tt, nsup in cgen.variants(c):
            ptypes = [cgen.cxx_ptype(p, tt) for p in c["params"]]
            sid = cgen.sigid(c, ptypes)
            for vi in range(nvals):
                blk = ["  block"]
                sets = []
                for j, p in enumerate(c["params"]):
                    fr, r = frow(p, tt)
                    if j >= nsup:
                        continue
                    v = r["vals"][(vi + j) % len(r["vals"])]
                    if r.get("size_of") or p["kind"] in ("arr_n", "out_n"):
                        v = r["vals"][vi % len(r["vals"])]
                    fv = K.fval(fr["vk"], v)
                    Ln = 12
                    if fr["vk"] == "str":
                        raw = v.strip('"')
                        if p["kind"] == "str_ref_out":
                            Ln = [5, 3, 12, 4][vi % 4]
                        elif p["kind"] == "str_ref_inout":
                            Ln = [10, max(1, len(raw)) + 2, 6, 12][vi % 4]
                        else:
                            Ln = 12 if vi % 2 == 0 else max(1, len(raw))
                    rc_ = [(3, 2), (1, 4), (2, 2), (4, 1)][vi % 4]
                    blk.append("    " + ffmt(fr["decl"], n=p["name"], L=Ln, r=rc_[0], c=rc_[1]))
                    sets.append("    " + ffmt(fr["set"], n=p["name"], v=fv, L=Ln, r=rc_[0], c=rc_[1], sz=[4, 0, 1, 3][vi % 4], **px(p)))
                sz = [4, 0, 1, 3][vi % 4]
                rc = [(3, 2), (1, 4), (2, 2), (4, 1)][vi % 4]
                fx, rr = fres(c, tt)
                if "decl" in fx:
                    blk.append("    " + fx["decl"])
                blk += sets
                name = fname(c, tt)
                blk.append('    call vt_begin("CallerInvoke"//C_NULL_CHAR, "%s"//C_NULL_CHAR)' % name)
                blk.append('    call vt_target("%s"//C_NULL_CHAR)' % sid)
                for p in c["params"][:nsup]:
                    fr, r = frow(p, tt)
                    if fr.get("fin") and fr.get("arg") is not None:
                        blk.append("    " + ffmt(fr["fin"], n=p["name"], **px(p), sz=sz))
                blk.append("    call vt_end()")
                args = ", ".join(ffmt(frow(p, tt)[0]["arg"], n=p["name"], **px(p), sz=sz)
                                 for p in c["params"][:nsup] if frow(p, tt)[0].get("arg") is not None)
                if fx.get("ptr"):
                    blk.append("    rv => %s(%s)" % (name, args))
                elif rr["ty"] != "none" or rr.get("returns"):
                    blk.append("    rv = %s(%s)" % (name, args))
                else:
                    blk.append("    call %s(%s)" % (name, args))
                blk.append('    call vt_begin("CallerReturn"//C_NULL_CHAR, "%s"//C_NULL_CHAR)' % name)
                blk.append('    call vt_target("%s"//C_NULL_CHAR)' % sid)
                if "fout" in fx:
                    blk.append("    " + fx["fout"])
                for p in c["params"][:nsup]:
                    fr, r = frow(p, tt)
                    if fr.get("fout"):
                        blk.append("    " + ffmt(fr["fout"], n=p["name"], **px(p), sz=sz))
                blk.append("    call vt_end()")
                blk.append("  end block")
                body += blk
                calls.append((c, tt, nsup, name))
    _FVARIANT.clear()
    if with_class:
        body.append(CLS_FDRIVER)
    if with_class == "derived":
        body.append(DERIVED_FDRIVER)
    L += body
    L.append("contains")
    L.append(STRV_FCONTAINS)
    if with_class:
        L.append(CLS_FCONTAINS)
    L.append("end program driver")
    return "\n".join(L) + "\n", calls


CLS_FDRIVER = """
  block
    type(cls) :: a, b, c, d
    integer(C_INT) :: rv
    call vt_begin("CallerInvoke"//C_NULL_CHAR, "cls"//C_NULL_CHAR); call vt_target("ns1::Cls::Cls(int)"//C_NULL_CHAR)
    call vt_int(5_C_LONG); call vt_end()
    a = cls(5_C_INT)
    call vt_begin("CallerReturn"//C_NULL_CHAR, "cls"//C_NULL_CHAR); call vt_target("ns1::Cls::Cls(int)"//C_NULL_CHAR)
    call vt_obj(a%get_instance()); call vt_end()
    call vt_begin("CallerInvoke"//C_NULL_CHAR, "cls"//C_NULL_CHAR); call vt_target("ns1::Cls::Cls(int)"//C_NULL_CHAR)
    call vt_int(-2_C_LONG); call vt_end()
    b = cls(-2_C_INT)
    call vt_begin("CallerReturn"//C_NULL_CHAR, "cls"//C_NULL_CHAR); call vt_target("ns1::Cls::Cls(int)"//C_NULL_CHAR)
    call vt_obj(b%get_instance()); call vt_end()
    call vt_begin("CallerInvoke"//C_NULL_CHAR, "make"//C_NULL_CHAR); call vt_target("ns1::make(int)"//C_NULL_CHAR)
    call vt_int(9_C_LONG); call vt_end()
    c = make(9_C_INT)
    call vt_begin("CallerReturn"//C_NULL_CHAR, "make"//C_NULL_CHAR); call vt_target("ns1::make(int)"//C_NULL_CHAR)
    call vt_obj(c%get_instance()); call vt_end()
    call vt_begin("CallerInvoke"//C_NULL_CHAR, "get"//C_NULL_CHAR); call vt_target("ns1::Cls::get()"//C_NULL_CHAR)
    call vt_obj(b%get_instance()); call vt_end()
    rv = b%get()
    call vt_begin("CallerReturn"//C_NULL_CHAR, "get"//C_NULL_CHAR); call vt_target("ns1::Cls::get()"//C_NULL_CHAR)
    call vt_int(int(rv, C_LONG)); call vt_end()
    call vt_begin("CallerInvoke"//C_NULL_CHAR, "set"//C_NULL_CHAR); call vt_target("ns1::Cls::set(int)"//C_NULL_CHAR)
    call vt_obj(a%get_instance()); call vt_int(77_C_LONG); call vt_end()
    call a%set(77_C_INT)
    call vt_begin("CallerReturn"//C_NULL_CHAR, "set"//C_NULL_CHAR); call vt_target("ns1::Cls::set(int)"//C_NULL_CHAR)
    call vt_end()
    call vt_begin("CallerInvoke"//C_NULL_CHAR, "get"//C_NULL_CHAR); call vt_target("ns1::Cls::get()"//C_NULL_CHAR)
    call vt_obj(a%get_instance()); call vt_end()
    rv = a%get()
    call vt_begin("CallerReturn"//C_NULL_CHAR, "get"//C_NULL_CHAR); call vt_target("ns1::Cls::get()"//C_NULL_CHAR)
    call vt_int(int(rv, C_LONG)); call vt_end()
    call vt_begin("CallerInvoke"//C_NULL_CHAR, "count"//C_NULL_CHAR); call vt_target("ns1::Cls::count()"//C_NULL_CHAR)
    call vt_end()
    rv = a%count()
    call vt_begin("CallerReturn"//C_NULL_CHAR, "count"//C_NULL_CHAR); call vt_target("ns1::Cls::count()"//C_NULL_CHAR)
    call vt_int(int(rv, C_LONG)); call vt_end()
    call vt_begin("CallerInvoke"//C_NULL_CHAR, "add"//C_NULL_CHAR); call vt_target("ns1::Cls::add(const Cls&,Cls*)"//C_NULL_CHAR)
    call vt_obj(a%get_instance()); call vt_obj(b%get_instance()); call vt_obj(c%get_instance()); call vt_end()
    rv = a%add(b, c)
    call vt_begin("CallerReturn"//C_NULL_CHAR, "add"//C_NULL_CHAR); call vt_target("ns1::Cls::add(const Cls&,Cls*)"//C_NULL_CHAR)
    call vt_int(int(rv, C_LONG)); call vt_end()
    call vt_begin("CallerInvoke"//C_NULL_CHAR, "clone"//C_NULL_CHAR); call vt_target("ns1::Cls::clone()"//C_NULL_CHAR)
    call vt_obj(b%get_instance()); call vt_end()
    d = b%clone()
    call vt_begin("CallerReturn"//C_NULL_CHAR, "clone"//C_NULL_CHAR); call vt_target("ns1::Cls::clone()"//C_NULL_CHAR)
    call vt_obj(d%get_instance()); call vt_end()
    call vt_begin("CallerInvoke"//C_NULL_CHAR, "dtor"//C_NULL_CHAR); call vt_target("ns1::Cls::~Cls()"//C_NULL_CHAR)
    call vt_obj(a%get_instance()); call vt_end()
    call a%dtor()
    call vt_begin("CallerReturn"//C_NULL_CHAR, "dtor"//C_NULL_CHAR); call vt_target("ns1::Cls::~Cls()"//C_NULL_CHAR)
    call vt_end()
    call vt_begin("CallerInvoke"//C_NULL_CHAR, "count"//C_NULL_CHAR); call vt_target("ns1::Cls::count()"//C_NULL_CHAR)
    call vt_end()
    rv = b%count()
    call vt_begin("CallerReturn"//C_NULL_CHAR, "count"//C_NULL_CHAR); call vt_target("ns1::Cls::count()"//C_NULL_CHAR)
    call vt_int(int(rv, C_LONG)); call vt_end()
    ! member accessors (specs/Members.tla): type-bound getters and setters; b%get() / c%set() give the library's view
    block
      integer(C_INT) :: g
      real(C_DOUBLE) :: x
      g = b%get_value(); call mget_i("value", b, g)
      g = b%get_ro(); call mget_i("ro", b, g)
      x = b%get_alt(); call mget_d("alt", b, x)
      call mset_i("value", b, 31_C_INT); call b%set_value(31_C_INT)
      call vt_begin("CallerInvoke"//C_NULL_CHAR, "get"//C_NULL_CHAR); call vt_target("ns1::Cls::get()"//C_NULL_CHAR)
      call vt_obj(b%get_instance()); call vt_end()
      rv = b%get()
      call vt_begin("CallerReturn"//C_NULL_CHAR, "get"//C_NULL_CHAR); call vt_target("ns1::Cls::get()"//C_NULL_CHAR)
      call vt_int(int(rv, C_LONG)); call vt_end()
      g = b%get_value(); call mget_i("value", b, g)
      g = c%get_value(); call mget_i("value", c, g)
      g = b%get_ro(); call mget_i("ro", b, g)
      call vt_begin("CallerInvoke"//C_NULL_CHAR, "set"//C_NULL_CHAR); call vt_target("ns1::Cls::set(int)"//C_NULL_CHAR)
      call vt_obj(c%get_instance()); call vt_int(-6_C_LONG); call vt_end()
      call c%set(-6_C_INT)
      call vt_begin("CallerReturn"//C_NULL_CHAR, "set"//C_NULL_CHAR); call vt_target("ns1::Cls::set(int)"//C_NULL_CHAR)
      call vt_end()
      g = c%get_value(); call mget_i("value", c, g)
      call mset_d("alt", c, 2.25_C_DOUBLE); call c%set_alt(2.25_C_DOUBLE)
      x = c%get_alt(); call mget_d("alt", c, x)
      x = d%get_alt(); call mget_d("alt", d, x)
      g = d%get_value(); call mget_i("value", d, g)
      g = d%get_ro(); call mget_i("ro", d, g)
      g = c%get_tint(); call mget_i("tint", c, g)
      call mset_i("tint", c, 5_C_INT); call c%set_tint(5_C_INT)
      g = c%get_tint(); call mget_i("tint", c, g)
      g = d%get_tint(); call mget_i("tint", d, g)
    end block
@BYVALUE@  end block
"""

def _fcall(inv, ret, name, target, stmt):
    return ('    call vt_begin("CallerInvoke"//C_NULL_CHAR, "%s"//C_NULL_CHAR); call vt_target("%s"//C_NULL_CHAR)\n'
            '    %scall vt_end()\n    %s\n'
            '    call vt_begin("CallerReturn"//C_NULL_CHAR, "%s"//C_NULL_CHAR); call vt_target("%s"//C_NULL_CHAR)\n'
            '    %scall vt_end()\n') % (name, target, inv, stmt, name, target, ret)


# objects returned by value (function results of type(cls)): the state of the new object, then the object in use
BYVALUE_FDRIVER = ("    block\n      type(cls) :: e\n      integer(C_INT) :: g\n" +
    _fcall("call vt_obj(b%get_instance()); ", "call vt_int(int(e%get_value(), C_LONG)); ", "dup", "ns1::Cls::dup()", "e = b%dup()") +
    _fcall("call vt_obj(e%get_instance()); ", "call vt_int(int(g, C_LONG)); ", "get", "ns1::Cls::get()", "g = e%get()") +
    _fcall("call vt_obj(e%get_instance()); call vt_int(-40_C_LONG); ", "", "set", "ns1::Cls::set(int)", "call e%set(-40_C_INT)") +
    _fcall("call vt_obj(b%get_instance()); ", "call vt_int(int(g, C_LONG)); ", "get", "ns1::Cls::get()", "g = b%get()") +
    _fcall("call vt_obj(e%get_instance()); ", "", "dtor", "ns1::Cls::~Cls()", "call e%dtor()") +
    _fcall("call vt_obj(c%get_instance()); ", "call vt_int(int(e%get_value(), C_LONG)); ", "cdup", "ns1::Cls::cdup()", "e = c%cdup()") +
    _fcall("call vt_obj(e%get_instance()); ", "", "dtor", "ns1::Cls::~Cls()", "call e%dtor()") +
    _fcall("call vt_int(64_C_LONG); ", "call vt_int(int(e%get_value(), C_LONG)); ", "fresh", "ns1::fresh(int)", "e = fresh(64_C_INT)") +
    _fcall("call vt_obj(e%get_instance()); ", "call vt_int(int(g, C_LONG)); ", "get", "ns1::Cls::get()", "g = e%get()") +
    _fcall("call vt_obj(e%get_instance()); ", "", "dtor", "ns1::Cls::~Cls()", "call e%dtor()") +
    "    end block\n")
CLS_FDRIVER = CLS_FDRIVER.replace("@BYVALUE@", BYVALUE_FDRIVER)

# a derived object through its own type-bound procedures and the ones it inherits (EXTENDS)
DERIVED_FDRIVER = ("  block\n    type(derived) :: e\n    integer(C_INT) :: rv, g\n" +
    _fcall("call vt_int(4_C_LONG); call vt_int(6_C_LONG); ", "call vt_obj(e%get_instance()); ", "derived",
           "ns1::Derived::Derived(int,int)", "e = derived(4_C_INT, 6_C_INT)") +
    _fcall("call vt_obj(e%get_instance()); ", "call vt_int(int(rv, C_LONG)); ", "get", "ns1::Cls::get()", "rv = e%get()") +
    _fcall("call vt_obj(e%get_instance()); ", "call vt_int(int(rv, C_LONG)); ", "extra", "ns1::Derived::extra()", "rv = e%extra()") +
    _fcall("call vt_obj(e%get_instance()); call vt_int(55_C_LONG); ", "", "set", "ns1::Cls::set(int)", "call e%set(55_C_INT)") +
    _fcall("call vt_obj(e%get_instance()); ", "call vt_int(int(rv, C_LONG)); ", "extra", "ns1::Derived::extra()", "rv = e%extra()") +
    "    g = e%get_value(); call mget_i(\"value\", e%cls, g)\n"
    "    call mset_i(\"value\", e%cls, 12_C_INT); call e%set_value(12_C_INT)\n" +
    _fcall("call vt_obj(e%get_instance()); ", "call vt_int(int(rv, C_LONG)); ", "get", "ns1::Cls::get()", "rv = e%get()") +
    _fcall("call vt_obj(e%get_instance()); ", "", "dtor", "ns1::Derived::~Derived()", "call e%dtor()") +
    "  end block\n")

STRV_FCONTAINS = """
  subroutine vt_strv(a)
    ! an array of strings as the library is to see it: every element without its trailing blanks, joined with '|'
    character(len=*), intent(in) :: a(:)
    character(len=:), allocatable :: j
    integer :: i
    j = ""
    do i = 1, size(a)
      if (i > 1) j = j // "|"
      j = j // trim(a(i))
    end do
    call vt_str(j, len(j, kind=C_LONG))
  end subroutine vt_strv
"""

CLS_FCONTAINS = """
  subroutine mget_i(m, o, v)
    character(len=*), intent(in) :: m
    type(cls), intent(in) :: o
    integer(C_INT), intent(in) :: v
    call vt_begin("MemberGet"//C_NULL_CHAR, m//C_NULL_CHAR); call vt_obj(o%get_instance()); call vt_int(int(v, C_LONG)); call vt_end()
  end subroutine mget_i
  subroutine mset_i(m, o, v)
    character(len=*), intent(in) :: m
    type(cls), intent(in) :: o
    integer(C_INT), intent(in) :: v
    call vt_begin("MemberSet"//C_NULL_CHAR, m//C_NULL_CHAR); call vt_obj(o%get_instance()); call vt_int(int(v, C_LONG)); call vt_end()
  end subroutine mset_i
  subroutine mget_d(m, o, v)
    character(len=*), intent(in) :: m
    type(cls), intent(in) :: o
    real(C_DOUBLE), intent(in) :: v
    call vt_begin("MemberGet"//C_NULL_CHAR, m//C_NULL_CHAR); call vt_obj(o%get_instance()); call vt_dbl(v); call vt_end()
  end subroutine mget_d
  subroutine mset_d(m, o, v)
    character(len=*), intent(in) :: m
    type(cls), intent(in) :: o
    real(C_DOUBLE), intent(in) :: v
    call vt_begin("MemberSet"//C_NULL_CHAR, m//C_NULL_CHAR); call vt_obj(o%get_instance()); call vt_dbl(v); call vt_end()
  end subroutine mset_d
"""


def f_sig(c, tt, nsup):
    s = cgen.tla_sig(c, tt, nsup, "f")
    if c["result"] != "T":
        s["resback"] = K.FRESULTS.get(c["result"], {}).get("back", "id")
    for p, d in zip(c["params"], s["params"]):
        fr, r = frow(p, tt)
        d["back"] = fr.get("back", "id")
        if d["ty"] == "str" and d["intent"] != "out":
            d["conv"] = "rtrim"
    return s


def build_and_run_f(d, cases, with_class=True, nvals=4, options=None, extra_argv=(), fflags=(), language="c++"):
    import yaml

    os.makedirs(d, exist_ok=True)
    opts = dict({"wrap_fortran": True}, **(options or {}))
    if language == "c":
        # the same library declared and written as C (no namespace, no class): the Fortran API must be the same,
        # so the driver source is the same apart from the module's name
        from rt import libgen
        with_class = False
        y, hpp, cpp = cgen.gen_library(cases, False, opts, ns=None)

        def fix(n):
            if isinstance(n, dict):
                return {k: fix(v) for k, v in n.items()}
            if isinstance(n, list):
                return [fix(v) for v in n]
            return libgen.to_c(n) if isinstance(n, str) else n
        y["language"] = "c"
        y["cxx_header"] = "sub.h"
        y["declarations"] = fix(y["declarations"])
        hpp = libgen.to_c(hpp).replace("#include <string>", "#include <stdbool.h>").replace("#include <vector>", "")
        hpp = hpp.replace("struct Pt { int x; double y; };", "struct Pt { int x; double y; };\ntypedef struct Pt Pt;")
        cpp = libgen.to_c(cpp).replace('#include "sub.hpp"', '#include "sub.h"').replace("#include <cstring>", "#include <string.h>")
        cpp = cpp.replace("#include <cstdio>", "#include <stdio.h>")
        hname, sname = "sub.h", "sub.c"
    else:
        y, hpp, cpp = cgen.gen_library(cases, bool(with_class), opts, derived=(with_class == "derived"))
        hname, sname = "sub.hpp", "sub.cpp"
    with open(os.path.join(d, "sub.yaml"), "w") as f:
        yaml.safe_dump(y, f, default_flow_style=False, sort_keys=False)
    open(os.path.join(d, hname), "w").write(hpp)
    open(os.path.join(d, sname), "w").write(cpp)
    out = os.path.join(d, "gen")
    os.makedirs(out, exist_ok=True)
    rc, so, se = shroudrun.run(["--outdir", out, "--logdir", out, "--ffiles", os.path.join(d, "ffiles.txt")] +
                               list(extra_argv) + [os.path.join(d, "sub.yaml")])
    if rc != 0:
        return {"traces": [], "problems": [("shroud", se[-800:])]}
    drv, calls = gen_f_driver(cases, nvals, with_class)
    if language == "c":
        drv = drv.replace("use sub_ns1_mod", "use sub_mod")
    open(os.path.join(d, "driver.f90"), "w").write(drv)
    inc = ["-I", d, "-I", out, "-I", HERE]
    objs = []
    for s in [os.path.join(d, sname)] + [os.path.join(out, f) for f in sorted(os.listdir(out)) if f.endswith(".cpp") or f.endswith(".c")]:
        o = s + ".o"
        cc = ["gcc", "-std=c99"] if s.endswith(".c") else ["g++", "-std=c++11"]
        rc, txt = cgen.sh(cc + ["-g", "-c", s, "-o", o] + inc, d)
        if rc != 0:
            return {"traces": [], "problems": [("compile", txt[-1500:])]}
        objs.append(o)
    o = os.path.join(d, "vt.o")
    rc, txt = cgen.sh(["gcc", "-c", os.path.join(HERE, "vt.c"), "-o", o] + inc, d)
    objs.append(o)
    ffiles = open(os.path.join(d, "ffiles.txt")).read().split()
    for s in ffiles + [os.path.join(d, "driver.f90")]:
        o = os.path.join(d, os.path.basename(s) + ".o")
        rc, txt = cgen.sh(["gfortran", "-cpp", "-ffree-form", "-ffree-line-length-none", "-g", "-J", d, "-c", s, "-o", o] + list(fflags), d)
        if rc != 0:
            return {"traces": [], "problems": [("compile-fortran:" + os.path.basename(s), txt[-2500:])]}
        objs.append(o)
    exe = os.path.join(d, "driver")
    rc, txt = cgen.sh(["gfortran", "-o", exe] + objs + ["-lstdc++"], d)
    if rc != 0:
        return {"traces": [], "problems": [("link", txt[-1500:])]}
    tf = os.path.join(d, "trace.ndjson")
    p = subprocess.run([exe], cwd=d, env=dict(os.environ, VT_TRACE=tf), stdout=subprocess.PIPE, stderr=subprocess.STDOUT,
                       text=True, timeout=120)
    problems = []
    if p.returncode != 0:
        problems.append(("driver-exit", "rc=%s %s" % (p.returncode, p.stdout[-800:])))
    events = [json.loads(l) for l in open(tf)] if os.path.exists(tf) else []
    cuts = cgen.cut_calls(events)
    traces = []
    gi = 0
    for ev in cuts:
        tg = ev[0]["target"]
        if tg in cgen.CLS_SIGS:
            sig = cgen.cls_sig(tg)
            label = tg
        else:
            if gi >= len(calls):
                problems.append(("unmatched-call", tg))
                continue
            c, tt, nsup, name = calls[gi]
            gi += 1
            sig = f_sig(c, tt, nsup)
            label = "%s [%s]" % (tg, name)
        traces.append({"sig": sig, "events": ev, "label": label})
    return {"traces": traces, "problems": problems, "yaml": y, "members": cgen.member_trace(events, out=out) if with_class else []}
