#ifndef LAUXLIB_STUB_H
#define LAUXLIB_STUB_H
#include "lua.h"
#ifdef __cplusplus
extern "C" {
#endif
typedef struct luaL_Reg { const char *name; lua_CFunction func; } luaL_Reg;
void *luaL_checkudata(lua_State *L, int idx, const char *tname);
int luaL_newmetatable(lua_State *L, const char *tname);
void luaL_getmetatable_(lua_State *L, const char *tname);
#define luaL_getmetatable(L, n) luaL_getmetatable_(L, n)
void luaL_setfuncs(lua_State *L, const luaL_Reg *l, int nup);
void luaL_newlib_(lua_State *L, const luaL_Reg *l);
#define luaL_newlib(L, l) luaL_newlib_(L, l)
int luaL_error(lua_State *L, const char *fmt, ...);
/* registry the driver reads */
lua_CFunction stub_find(const char *table, const char *name);
#ifdef __cplusplus
}
#endif
#endif
