#include "lua.h"
