#include "lua.h"
#include "lauxlib.h"
#include <stdio.h>
#include <stdlib.h>
#include <string.h>
#include <stdarg.h>
static stub_value *at(lua_State *L, int idx) {
    static stub_value none = { LUA_TNONE, 0, 0, 0, 0, 0, 0 };
    int k = idx > 0 ? idx - 1 : L->top + idx;
    if (k < 0 || k >= L->top) return &none;
    return &L->stack[k];
}
static void push(lua_State *L, stub_value v) { if (L->top < 64) L->stack[L->top++] = v; }
int lua_gettop(lua_State *L) { return L->top; }
int lua_type(lua_State *L, int idx) { return at(L, idx)->type; }
lua_Integer lua_tointeger(lua_State *L, int idx) {
    stub_value *v = at(L, idx);
    if (v->type == LUA_TNUMBER) return (v->n == (double)(long long)v->n) ? (long long)v->n : 0;
    if (v->type == LUA_TSTRING) return atoll(v->s);
    return 0;
}
lua_Number lua_tonumber(lua_State *L, int idx) {
    stub_value *v = at(L, idx);
    if (v->type == LUA_TNUMBER) return v->n;
    if (v->type == LUA_TSTRING) return atof(v->s);
    return 0;
}
int lua_toboolean(lua_State *L, int idx) { stub_value *v = at(L, idx); return !(v->type == LUA_TNIL || v->type == LUA_TNONE || (v->type == LUA_TBOOLEAN && !v->b)); }
const char *lua_tostring(lua_State *L, int idx) {
    stub_value *v = at(L, idx);
    if (v->type == LUA_TSTRING) return v->s;
    if (v->type == LUA_TNUMBER) { char *b = (char *)malloc(40); if (v->isint) snprintf(b, 40, "%lld", (long long)v->n); else snprintf(b, 40, "%.14g", v->n); return b; }
    return NULL;
}
void lua_pushinteger(lua_State *L, lua_Integer x) { stub_value v = { LUA_TNUMBER, (double)x, 1, 0, 0, 0, 0 }; push(L, v); }
void lua_pushnumber(lua_State *L, lua_Number x) { stub_value v = { LUA_TNUMBER, x, 0, 0, 0, 0, 0 }; push(L, v); }
void lua_pushboolean(lua_State *L, int b) { stub_value v = { LUA_TBOOLEAN, 0, 0, 0, b != 0, 0, 0 }; push(L, v); }
const char *lua_pushstring(lua_State *L, const char *s) {
    stub_value v = { LUA_TSTRING, 0, 0, 0, 0, 0, 0 };
    if (!s) { v.type = LUA_TNIL; push(L, v); return NULL; }
    v.s = strdup(s); push(L, v); return v.s;
}
void lua_pushnil(lua_State *L) { stub_value v = { LUA_TNIL, 0, 0, 0, 0, 0, 0 }; push(L, v); }
void lua_pushvalue(lua_State *L, int idx) { push(L, *at(L, idx)); }
void *lua_newuserdata(lua_State *L, size_t n) { stub_value v = { LUA_TUSERDATA, 0, 0, 0, 0, 0, 0 }; v.ud = calloc(1, n ? n : 1); push(L, v); return v.ud; }
int lua_setmetatable(lua_State *L, int idx) {
    stub_value t = L->stack[L->top - 1]; L->top--;
    at(L, idx)->meta = t.meta; return 1;
}
void lua_setfield(lua_State *L, int idx, const char *k) { (void)idx; (void)k; if (L->top > 0) L->top--; }
void lua_settop(lua_State *L, int n) { if (n >= 0) { while (L->top < n) lua_pushnil(L); L->top = n; } else L->top += n + 1; }
void *luaL_checkudata(lua_State *L, int idx, const char *tname) {
    stub_value *v = at(L, idx);
    if (v->type != LUA_TUSERDATA || !v->meta || strcmp(v->meta, tname) != 0) luaL_error(L, "bad argument #%d (%s expected)", idx, tname);
    return v->ud;
}
int luaL_newmetatable(lua_State *L, const char *tname) { stub_value v = { LUA_TTABLE, 0, 0, 0, 0, 0, 0 }; v.meta = strdup(tname); push(L, v); return 1; }
void luaL_getmetatable_(lua_State *L, const char *tname) { stub_value v = { LUA_TTABLE, 0, 0, 0, 0, 0, 0 }; v.meta = strdup(tname); push(L, v); }
static struct { char table[64]; const char *name; lua_CFunction f; } reg[512];
static int nreg;
static void add(const char *table, const luaL_Reg *l) {
    for (; l && l->name; l++) if (nreg < 512) { strncpy(reg[nreg].table, table, 63); reg[nreg].name = l->name; reg[nreg].f = l->func; nreg++; }
}
void luaL_setfuncs(lua_State *L, const luaL_Reg *l, int nup) { (void)nup; add(L->top > 0 && L->stack[L->top - 1].meta ? L->stack[L->top - 1].meta : "?", l); }
void luaL_newlib_(lua_State *L, const luaL_Reg *l) { stub_value v = { LUA_TTABLE, 0, 0, 0, 0, 0, 0 }; v.meta = "module"; add("module", l); push(L, v); }
lua_CFunction stub_find(const char *table, const char *name) {
    int i; for (i = 0; i < nreg; i++) if (!strcmp(reg[i].table, table) && !strcmp(reg[i].name, name)) return reg[i].f;
    return NULL;
}
int luaL_error(lua_State *L, const char *fmt, ...) {
    va_list ap; va_start(ap, fmt); vsnprintf(L->errmsg, sizeof L->errmsg, fmt, ap); va_end(ap);
    if (L->has_jb) longjmp(L->jb, 1);
    fprintf(stderr, "lua error outside protected call: %s\n", L->errmsg); abort();
    return 0;
}
