/* Minimal emulation of the Lua 5.3 C API subset used by Shroud's generated
 * Lua modules (trusted base of C18): an explicit value stack, userdata with a
 * named metatable, errors by longjmp.  Every API call the generated code
 * makes goes through here.                                                  */
#ifndef LUA_STUB_H
#define LUA_STUB_H
#include <stddef.h>
#include <setjmp.h>
#ifdef __cplusplus
extern "C" {
#endif
#define LUA_VERSION_NUM 503
#define LUA_TNONE (-1)
#define LUA_TNIL 0
#define LUA_TBOOLEAN 1
#define LUA_TLIGHTUSERDATA 2
#define LUA_TNUMBER 3
#define LUA_TSTRING 4
#define LUA_TTABLE 5
#define LUA_TFUNCTION 6
#define LUA_TUSERDATA 7
typedef long long lua_Integer;
typedef double lua_Number;
typedef struct stub_value {
    int type; double n; int isint; const char *s; int b; void *ud; const char *meta;
} stub_value;
typedef struct lua_State {
    stub_value stack[64]; int top; jmp_buf jb; int has_jb; char errmsg[128];
    int base;   /* number of argument slots when the C function was entered */
} lua_State;
typedef int (*lua_CFunction)(lua_State *L);
int lua_gettop(lua_State *L);
int lua_type(lua_State *L, int idx);
lua_Integer lua_tointeger(lua_State *L, int idx);
lua_Number lua_tonumber(lua_State *L, int idx);
int lua_toboolean(lua_State *L, int idx);
const char *lua_tostring(lua_State *L, int idx);
void lua_pushinteger(lua_State *L, lua_Integer v);
void lua_pushnumber(lua_State *L, lua_Number v);
void lua_pushboolean(lua_State *L, int v);
const char *lua_pushstring(lua_State *L, const char *s);
void lua_pushnil(lua_State *L);
void lua_pushvalue(lua_State *L, int idx);
void *lua_newuserdata(lua_State *L, size_t n);
int lua_setmetatable(lua_State *L, int idx);
void lua_setfield(lua_State *L, int idx, const char *k);
void lua_settop(lua_State *L, int n);
#define lua_pop(L, n) lua_settop(L, -(n) - 1)
#ifdef __cplusplus
}
#endif
#endif
