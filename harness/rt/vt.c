#include "vt.h"
#include <stdio.h>
#include <stdlib.h>
#include <string.h>
#include <math.h>
static FILE *vt_fp;
static int vt_first;
static long vt_nlive;
static FILE *fp(void) {
    if (!vt_fp) { const char *n = getenv("VT_TRACE"); vt_fp = n ? fopen(n, "a") : stderr; if (!vt_fp) vt_fp = stderr; }
    return vt_fp;
}
static void sep(void) { if (!vt_first) fputc(',', fp()); vt_first = 0; }
static void jstr(const char *s, long n) {
    long i; fputc('[', fp());
    for (i = 0; i < n; i++) fprintf(fp(), "%s%d", i ? "," : "", (int)(unsigned char)s[i]);
    fputc(']', fp());
}
void vt_begin(const char *ev, const char *f) { fprintf(fp(), "{\"ev\":\"%s\",\"f\":\"%s\",\"vals\":[", ev, f); vt_first = 1; }
void vt_target(const char *t) { sep(); fprintf(fp(), "{\"t\":\"target\",\"v\":\"%s\"}", t); }
void vt_int(long v) { sep(); fprintf(fp(), "{\"t\":\"i\",\"v\":%ld}", v); }
void vt_dbl(double v) {
    double q = v * 4.0; sep();
    if (q == floor(q) && fabs(q) < 1.0e9) fprintf(fp(), "{\"t\":\"d\",\"v\":%ld}", (long)q);
    else fprintf(fp(), "{\"t\":\"dx\",\"v\":\"%.17g\"}", v);
}
void vt_bool(int v) { sep(); fprintf(fp(), "{\"t\":\"b\",\"v\":%s}", v ? "true" : "false"); }
void vt_str(const char *s, long n) {
    sep();
    if (!s) { fprintf(fp(), "{\"t\":\"null\",\"v\":0}"); return; }
    if (n < 0) n = (long)strlen(s);
    fprintf(fp(), "{\"t\":\"s\",\"v\":"); jstr(s, n); fputc('}', fp());
}
void vt_arr_int(const int *a, long n) {
    long i; sep(); fprintf(fp(), "{\"t\":\"ai\",\"v\":[");
    for (i = 0; i < n; i++) fprintf(fp(), "%s%d", i ? "," : "", a[i]);
    fprintf(fp(), "]}");
}
void vt_arr_dbl(const double *a, long n) {
    long i; sep(); fprintf(fp(), "{\"t\":\"ad\",\"v\":[");
    for (i = 0; i < n; i++) fprintf(fp(), "%s%ld", i ? "," : "", (long)(a[i] * 4.0));
    fprintf(fp(), "]}");
}
void vt_obj(const void *p) {
    /* object identity is the address; the harness renumbers per scenario */
    sep();
    fprintf(fp(), "{\"t\":\"o\",\"v\":%llu}", (unsigned long long)(size_t)p);
}
void vt_end(void) { fprintf(fp(), "]}\n"); fflush(fp()); }
void vt_note(const char *text) { fprintf(fp(), "{\"ev\":\"Note\",\"f\":\"%s\",\"vals\":[]}\n", text); fflush(fp()); }
long vt_live(long delta) { vt_nlive += delta; return vt_nlive; }
