"""Shared machinery for the /verif checks.

* locating and importing the Shroud working tree (always /repo unless VERIF_REPO
  overrides it -- used only when trying seeded changes in a scratch worktree)
* running TLC (model checking configs and batched trace validation)
* evidence files, known findings, VIOLATION lines

Only the standard library is used.
"""
from __future__ import annotations

import contextlib
import json
import os
import re
import shutil
import subprocess
import sys
import tempfile
import time

VERIF = os.path.dirname(os.path.dirname(os.path.abspath(__file__)))
REPO = os.environ.get("VERIF_REPO", "/repo")
SPECS = os.path.join(VERIF, "specs")
# runs against a scratch worktree (seeded changes) must not touch the committed evidence
EVIDENCE = os.path.join(VERIF, "evidence") if REPO == "/repo" else os.path.join(
    tempfile.gettempdir(), "verif-alt-evidence")
REPLAY = os.path.join(EVIDENCE, "replay")
KNOWN_FINDINGS = os.path.join(VERIF, "KNOWN_FINDINGS.txt")
PY = "/venv/bin/python"
GUARD = "SHROUD_VERIF"
NCPU = os.cpu_count() or 4

EXIT_OK, EXIT_VIOLATION, EXIT_MACHINERY = 0, 1, 2


class MachineryError(Exception):
    """The checking machinery itself failed (TLC crashed, missing verdict...)."""


def seed() -> int:
    try:
        return int(os.environ.get("VERIF_SEED", "0"))
    except ValueError:
        return 0


def import_shroud():
    """Import shroud from the working tree under test, never from site-packages."""
    os.environ.setdefault("PYTHONDONTWRITEBYTECODE", "1")
    sys.dont_write_bytecode = True
    if sys.path[0] != REPO:
        sys.path.insert(0, REPO)
    import shroud  # noqa

    path = os.path.dirname(os.path.abspath(shroud.__file__))
    if not path.startswith(os.path.abspath(REPO)):
        raise MachineryError("shroud imported from %s, not %s" % (path, REPO))
    return shroud


@contextlib.contextmanager
def scratch(prefix="verif-"):
    base = os.environ.get("VERIF_TMP") or tempfile.gettempdir()
    d = tempfile.mkdtemp(prefix=prefix, dir=base)
    try:
        yield d
    finally:
        shutil.rmtree(d, ignore_errors=True)


# ---------------------------------------------------------------------------
# text <-> TLA+ (Seq of code points)


def enc(s: str):
    return [ord(c) for c in s]


def dec(a) -> str:
    return "".join(chr(c) for c in a)


# ---------------------------------------------------------------------------
# TLC

_STATS = re.compile(
    r"(\d+) states generated, (\d+) distinct states found, (\d+) states left on queue"
)
# PrintT pretty-prints long tuples over several lines
_VERDICT = re.compile(r'<<\s*"VERDICT",\s*(\d+),\s*"([A-Z]+)"(?:,\s*(.*?))?\s*>>', re.S)
_COVER = re.compile(r"^<(\w+) line (\d+), col (\d+) to line (\d+), col (\d+) of module (\w+)(?: \([\d ]+\))?>: (\d+):(\d+)", re.M)


class TlcResult:
    def __init__(self, out, rc, wall):
        self.out = out
        self.rc = rc
        self.wall = wall
        m = None
        for m in _STATS.finditer(out):
            pass
        self.generated = int(m.group(1)) if m else 0
        self.distinct = int(m.group(2)) if m else 0
        self.completed = "Model checking completed. No error has been found." in out or (
            "Finished in" in out and rc == 0
        )
        self.invariant_violated = None
        mv = re.search(r"Invariant (\w+) is violated", out)
        if mv:
            self.invariant_violated = mv.group(1)
        mv = re.search(r"Action property (\w+) is violated", out)
        if mv:
            self.invariant_violated = mv.group(1)
        mv = re.search(r"Temporal properties were violated", out)
        if mv and not self.invariant_violated:
            self.invariant_violated = "temporal"
        self.error = None
        if not self.completed and not self.invariant_violated:
            me = re.search(r"Error: (.*)", out)
            self.error = me.group(1) if me else "TLC did not complete (rc=%d)" % rc

    def coverage(self):
        """action name -> (distinct, total) from -coverage output (last report)."""
        cov = {}
        for m in _COVER.finditer(self.out):
            cov[m.group(1)] = (int(m.group(7)), int(m.group(8)))
        return cov

    def verdicts(self):
        v = {}
        for m in _VERDICT.finditer(self.out):
            tid = int(m.group(1))
            # Trace specs may branch where the log leaves a choice open: a trace is
            # accepted when some branch accepts (ACCEPT > EXCLUDED > REJECT).
            rank = {"ACCEPT": 3, "EXCLUDED": 2, "REJECT": 1, "BADTREE": 0}
            old = v.get(tid)
            if old and rank.get(old[0], 0) >= rank.get(m.group(2), 0):
                continue
            v[tid] = (m.group(2), re.sub(r"\s+", " ", m.group(3) or ""))
        return v


def run_tlc(module, cfg=None, env=None, workers=None, coverage=False, timeout=3600,
            simulate=None, depth=None, extra=()):
    """Run TLC on specs/<module>.tla with specs/<cfg>.cfg. Returns TlcResult."""
    spec = os.path.join(SPECS, module + ".tla")
    cfgp = os.path.join(SPECS, (cfg or module) + ".cfg")
    if not os.path.exists(spec) or not os.path.exists(cfgp):
        raise MachineryError("missing spec/cfg %s %s" % (spec, cfgp))
    e = dict(os.environ)
    e["JAVA_TOOL_OPTIONS"] = (e.get("JAVA_TOOL_OPTIONS", "") + " -Xss64m").strip()
    if env:
        e.update({k: str(v) for k, v in env.items()})
    with scratch("tlc-") as md:
        cmd = ["tlc", "-workers", str(workers or NCPU), "-metadir", md,
               "-noGenerateSpecTE", "-config", cfgp]
        if coverage:
            cmd += ["-coverage", "1"]
        if simulate:
            cmd += ["-simulate", simulate]
        if depth:
            cmd += ["-depth", str(depth)]
        cmd += list(extra)
        cmd.append(spec)
        t0 = time.time()
        try:
            p = subprocess.run(cmd, env=e, cwd=md, stdout=subprocess.PIPE,
                               stderr=subprocess.STDOUT, timeout=timeout, text=True,
                               errors="replace")
            out, rc = p.stdout, p.returncode
        except subprocess.TimeoutExpired as ex:
            out = (ex.stdout or b"")
            if isinstance(out, bytes):
                out = out.decode("utf-8", "replace")
            out += "\nError: TLC timeout after %ss\n" % timeout
            rc = 124
            subprocess.run(["pkill", "-f", md], check=False)
        return TlcResult(out, rc, time.time() - t0)


def model_check(module, cfg, require_actions=(), **kw):
    """Run an exhaustive/simulation config; raise MachineryError when TLC itself
    fails; return (TlcResult, violated_invariant_or_None)."""
    r = run_tlc(module, cfg, coverage=bool(require_actions), **kw)
    if r.error:
        raise MachineryError("TLC %s/%s: %s\n%s" % (module, cfg, r.error, r.out[-3000:]))
    if require_actions and not r.invariant_violated:
        cov = r.coverage()
        for a in require_actions:
            if cov.get(a, (0, 0))[1] == 0:
                raise MachineryError(
                    "vacuity: action %s of %s never taken under %s" % (a, module, cfg))
    return r, r.invariant_violated


def validate_traces(module, cfg, traces, shard=4000, workers=None, env=None, timeout=3600):
    """Batch trace validation. `traces` is a list of JSON-able records; each is
    one independent behaviour (tid chosen in Init).  Returns
    (verdict list aligned with traces: ("ACCEPT"|"REJECT", detail), stats)."""
    verdicts = [None] * len(traces)
    gen = dist = 0
    wall = 0.0
    nshards = max(1, (len(traces) + shard - 1) // shard)
    # run shards in parallel processes, splitting the cores between them
    par = min(nshards, max(1, NCPU // 4))
    w = workers or max(1, NCPU // par)
    import concurrent.futures as cf

    def one(k):
        part = traces[k * shard:(k + 1) * shard]
        with scratch("tr-") as d:
            tf = os.path.join(d, "traces.json")
            with open(tf, "w") as f:
                json.dump(part, f)
            ee = {"TRACE_FILE": tf}
            if env:
                ee.update(env)
            r = run_tlc(module, cfg, env=ee, workers=w, timeout=timeout)
        if r.error or r.invariant_violated:
            raise MachineryError("trace validation %s failed: %s\n%s" % (
                module, r.error or r.invariant_violated, r.out[-4000:]))
        return k, r, len(part)

    with cf.ThreadPoolExecutor(par) as ex:
        for k, r, n in ex.map(one, range(nshards)):
            v = r.verdicts()
            for i in range(n):
                if (i + 1) not in v:
                    raise MachineryError("no verdict for trace %d of shard %d of %s\n%s" % (
                        i + 1, k, module, r.out[-2000:]))
                verdicts[k * shard + i] = v[i + 1]
            gen += r.generated
            dist += r.distinct
            wall += r.wall
    return verdicts, {"states": dist, "transitions": gen, "tlc_wall_s": round(wall, 1)}


# ---------------------------------------------------------------------------
# known findings


def load_known_findings(prop):
    """Lines `finding: property=<id> key=<key> <text>` -> {key: text}."""
    res = {}
    if not os.path.exists(KNOWN_FINDINGS):
        return res
    for line in open(KNOWN_FINDINGS):
        line = line.strip()
        m = re.match(r"finding:\s+property=(\S+)\s+key=(\S+)\s*(.*)", line)
        if m and m.group(1) == prop:
            res[m.group(2)] = m.group(3)
    return res


# ---------------------------------------------------------------------------
# a check run


class Check:
    """Collects coverage and violations for one property run and writes the
    evidence file.  Usage:

        with Check("C13", tier, level="model_checking") as c:
            c.add_states(r) ; c.violation(key, what, replay_obj) ; ...
    """

    def __init__(self, prop, tier, level="model_checking"):
        self.prop = prop
        self.tier = tier if tier in ("quick", "thorough") else "quick"
        self.level = level
        self.t0 = time.time()
        self.cov = {"states": 0, "transitions": 0, "traces_validated_against_impl": 0,
                    "evaluations": 0, "distinct_nontrivial": 0, "samples": [], "rule": "",
                    "exhaustive": False, "parts": {}}
        self.assumptions = []
        self.viol = []  # (key, text, replay path)
        self.known = load_known_findings(prop)
        self.known_hit = {}
        self._nontrivial = set()

    # -- context manager: machinery errors => exit 2, never a silent pass
    def __enter__(self):
        os.makedirs(EVIDENCE, exist_ok=True)
        ev = os.path.join(EVIDENCE, self.prop + ".json")
        if os.path.exists(ev):
            os.remove(ev)
        if os.path.isdir(REPLAY):
            for fn in os.listdir(REPLAY):
                if fn.startswith(self.prop + "_"):
                    os.remove(os.path.join(REPLAY, fn))
        return self

    def __exit__(self, et, ev, tb):
        if et is None:
            return False
        if et is SystemExit:
            return False
        import traceback

        traceback.print_exception(et, ev, tb)
        print("MACHINERY-FAILURE property=%s %s: %s" % (self.prop, et.__name__, ev))
        sys.stdout.flush()
        os._exit(EXIT_MACHINERY)

    # -- coverage bookkeeping
    def add_tlc(self, r, name=None):
        self.cov["states"] += r.distinct
        self.cov["transitions"] += r.generated
        if name:
            self.cov["parts"][name] = {"states": r.distinct, "transitions": r.generated,
                                       "wall_s": round(r.wall, 1)}

    def add_stats(self, st, name=None, n=0):
        self.cov["states"] += st["states"]
        self.cov["transitions"] += st["transitions"]
        self.cov["traces_validated_against_impl"] += n
        if name:
            d = dict(st)
            d["traces"] = n
            self.cov["parts"][name] = d

    def count(self, n=1, nontrivial_keys=()):
        self.cov["evaluations"] += n
        for k in nontrivial_keys:
            self._nontrivial.add(k)

    def sample(self, obj, limit=6):
        if len(self.cov["samples"]) < limit:
            self.cov["samples"].append(obj)

    def part(self, name, **kw):
        self.cov["parts"].setdefault(name, {}).update(kw)

    # -- violations
    def violation(self, key, text, replay=None):
        """key identifies the failing input/call site/history (stable)."""
        if key in self.known:
            if key not in self.known_hit:
                self.known_hit[key] = text
                print("KNOWN-FINDING: property=%s key=%s %s" % (self.prop, key, self.known[key] or text))
            return
        path = ""
        if replay is not None:
            os.makedirs(REPLAY, exist_ok=True)
            safe = re.sub(r"[^A-Za-z0-9_.-]+", "_", key)[:80]
            path = os.path.join(REPLAY, "%s_%s.json" % (self.prop, safe))
            with open(path, "w") as f:
                json.dump({"property": self.prop, "key": key, "what": text, "replay": replay},
                          f, indent=1, default=str)
        if len(self.viol) < 25:
            print("VIOLATION property=%s replay=%s  # %s: %s" % (self.prop, path or "-", key, text[:300]))
        self.viol.append((key, text, path))

    def finish(self):
        self.cov["distinct_nontrivial"] = len(self._nontrivial)
        if not self.cov["samples"]:
            self.cov["samples"] = ["(no sample recorded)"]
        ev = {
            "property_id": self.prop,
            "tier": self.tier,
            "seed": seed(),
            "level": self.level,
            "coverage": self.cov,
            "assumptions": self.assumptions,
            "wall_s": round(time.time() - self.t0, 1),
            "violations": len(self.viol),
            "known_findings_reproduced": sorted(self.known_hit),
            "repo": REPO,
        }
        with open(os.path.join(EVIDENCE, self.prop + ".json"), "w") as f:
            json.dump(ev, f, indent=1, default=str)
        sys.stdout.flush()
        if self.viol:
            print("%s %s: %d violation(s)" % (self.prop, self.tier, len(self.viol)))
            sys.exit(EXIT_VIOLATION)
        print("%s %s: OK  states=%d traces=%d evals=%d wall=%.1fs" % (
            self.prop, self.tier, self.cov["states"],
            self.cov["traces_validated_against_impl"], self.cov["evaluations"],
            time.time() - self.t0))
        sys.exit(EXIT_OK)


def tier_from_argv(argv=None):
    argv = sys.argv[1:] if argv is None else argv
    t = os.environ.get("VERIF_TIER")
    for a in argv:
        if a in ("quick", "thorough"):
            t = a
    return t or "quick"


def check_members(c, named, prefix="members"):
    """Member accessors (specs/Members.tla): `named` is a list of (label, event list as produced by
    rt/cgen.member_trace).  Model-checks Members once, validates every log with Trace_Members plus three negative
    controls (a getter value changed, a setter on the read-only member, a library view changed)."""
    import copy
    named = [(n, ev) for n, ev in named if ev]
    if not named:
        if c.viol:
            return          # nothing could be run because of what was already reported (build failures)
        raise MachineryError("no member-accessor log recorded")
    r, bad = model_check("MC_Members", "MC_Members", timeout=600)
    c.add_tlc(r, "MC_Members")
    if bad:
        c.violation("model:MC_Members:%s" % bad, "design-level property %s violated" % bad, {"tlc_tail": r.out[-2000:]})
    controls = []
    base = named[0][1]
    for op, change in (("WGet", lambda e: e.update(v=e["v"] + 1)), ("WSet", lambda e: e.update(m="ro")),
                       ("LGet", lambda e: e.update(v=e["v"] + 1))):
        k = copy.deepcopy(base)
        hit = [e for e in k if e["op"] == op]
        if hit:
            change(hit[-1])
            controls.append(k)
    traces = [{"events": ev} for _n, ev in named] + [{"events": ev} for ev in controls]
    v, st = validate_traces("Trace_Members", "Trace_Members", traces, shard=500)
    c.add_stats(st, "Trace_Members", len(named))
    ops = {}
    for (name, ev), (verdict, detail) in zip(named, v):
        for e in ev:
            ops[e["op"]] = ops.get(e["op"], 0) + 1
        if verdict == "REJECT":
            c.violation("%s:%s" % (prefix, name), "member accessors of %s: %s" % (name, detail), {"config": name, "events": ev, "detail": detail})
        else:
            c.count(1, ["%s:%s" % (prefix, name)])
    for i, (verdict, detail) in enumerate(v[len(named):]):
        if verdict != "REJECT":
            raise MachineryError("member negative control %d not rejected: %s" % (i, detail))
    c.part("member_accessors", logs=len(named), events=ops, negative_controls_rejected=len(controls))
