"""Rebuild the library description of a C05 replay file (or a JSON description) in a directory that is kept.
usage: python harness/c05_replay.py <replay.json> <dir>"""
import json, os, sys
sys.path.insert(0, os.path.dirname(os.path.abspath(__file__)))
from rt import libgen
j = json.load(open(sys.argv[1]))
lib = j.get("replay", j).get("library", j.get("replay", j))
d = sys.argv[2]
res = libgen.build(d, lib)
print(json.dumps(lib))
print(res["counts"], res["files"])
for p in res["problems"]:
    print("PROBLEM", p[0], p[1]); print(p[2][-1500:])
