"""Run Shroud from the tree under test in a subprocess."""
import json
import os
import subprocess

from common import PY, REPO, GUARD, scratch

HERE = os.path.dirname(os.path.abspath(__file__))


def run(argv_groups, probes=(), trace=None, env=None, cwd=None, timeout=300):
    """argv_groups: list of argv lists (one Shroud run each, same process)."""
    if argv_groups and not isinstance(argv_groups[0], (list, tuple)):
        argv_groups = [argv_groups]
    cmd = [PY, os.path.join(HERE, "child.py")]
    if probes:
        cmd += ["--probes", ",".join(probes)]
    if trace:
        cmd += ["--trace", trace]
    for g in argv_groups:
        cmd.append("--")
        cmd += list(g)
    e = dict(os.environ)
    e["PYTHONDONTWRITEBYTECODE"] = "1"
    e.setdefault("PYTHONHASHSEED", "0")
    e["VERIF_REPO"] = REPO
    if probes:
        e[GUARD] = "1"
    if env:
        e.update(env)
    p = subprocess.run(cmd, env=e, cwd=cwd, stdout=subprocess.PIPE, stderr=subprocess.PIPE,
                       text=True, timeout=timeout, errors="replace")
    return p.returncode, p.stdout, p.stderr


def read_events(path):
    ev = []
    if os.path.exists(path):
        with open(path) as f:
            for line in f:
                line = line.strip()
                if line:
                    ev.append(json.loads(line))
    return ev


def read_tree(d):
    """relative path -> bytes, for every file below d."""
    out = {}
    for root, _dirs, files in os.walk(d):
        for fn in files:
            p = os.path.join(root, fn)
            with open(p, "rb") as f:
                out[os.path.relpath(p, d)] = f.read()
    return out
