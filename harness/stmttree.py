"""Conformance of shroud/statements.py (update_stmt_tree, lookup_stmts_tree,
compute_stmt_permutations) with specs/StmtTree.tla.

 part A: generated tables over a small alphabet (bases, mixins, "/" alternatives,
         duplicates, forward references) x lookup paths (blank parts, unknown
         parts): the real functions run in a child process of the tree under
         test, TLC (Trace_StmtTree) recomputes both the table and every lookup.
 part B: the real fc_statements table of the tree under test, exported entry
         by entry, with lookups over the paths the wrappers can form; TLC builds
         the same table from the export and repeats every lookup.
"""
import itertools
import json
import os
import random
import subprocess

import common
from common import MachineryError, validate_traces

UNSET = "<unset>"

CHILD = r'''
import json, sys, os
sys.path.insert(0, os.environ["VERIF_REPO"])
from shroud import statements, util
UNSET = "<unset>"
def name_of(alts): return "_".join("/".join(a) for a in alts)
def run_table(t):
    fields = t["fields"]
    stmts = []
    for s in t["stmts"]:
        d = {"name": name_of(s["alts"])}
        if s["base"]: d["base"] = "_".join(s["base"])
        if s["mixin"]: d["mixin"] = ["_".join(m) for m in s["mixin"]]
        for f in fields:
            if s["own"][f] != UNSET: d[f] = s["own"][f]
        stmts.append(d)
    defaults = {l: util.Scope(None, name=l + "_default", **t["defaults"][l]) for l in t["defaults"]}
    saved = dict(statements.default_scopes)
    tree = {}
    obs = {"err": "", "names": [], "vals": []}
    try:
        try:
            statements.update_stmt_tree(stmts, tree, defaults)
        except (RuntimeError, KeyError) as ex:
            obs["err"] = "%s: %s" % (type(ex).__name__, ex)
        if not obs["err"]:
            for p in t["paths"]:
                r = statements.lookup_stmts_tree(tree, p)
                nm = r.name
                obs["names"].append([] if nm.endswith("_default") else nm.split("_"))
                obs["vals"].append([getattr(r, f) for f in fields])
    finally:
        statements.default_scopes.clear(); statements.default_scopes.update(saved)
    return obs
def real_table(language, fields, paths, seed, nextra, which="fc"):
    import itertools, random
    from shroud import wrapp, wrapl
    if which == "fc":
        statements.update_statements_for_language(language)
        table, lookup, defs = statements.fc_statements, statements.lookup_fc_stmts, (("c", statements.CStmts), ("f", statements.FStmts))
    elif which == "py":
        wrapp.py_tree.clear()
        wrapp.update_statements_for_language(language)
        table, lookup, defs = wrapp.py_statements, wrapp.lookup_stmts, (("py", wrapp.PyStmts), ("base", wrapp.PyStmts))
    else:
        wrapl.lua_tree.clear()
        wrapl.update_statements_for_language(language)
        table, lookup, defs = wrapl.lua_statements, wrapl.lookup_stmts, (("lua", wrapl.LuaStmts),)
    # the paths: every entry's own name, then variations of entry names (blank parts, a part replaced by one that
    # occurs elsewhere at that position, extra trailing parts, a part dropped) -- what the wrappers form from
    # (language, type group, indirection, intent, generated suffix, deref, specialisation)
    rng = random.Random(seed)
    names = []
    for node in table:
        for tpl in itertools.product(*[part.split("/") for part in node["name"].split("_")]):
            names.append(list(tpl))
    bypos = {}
    for n in names:
        for k, part in enumerate(n):
            bypos.setdefault(k, set()).add(part)
    bypos = {k: sorted(v) for k, v in bypos.items()}
    paths = list(paths) + [list(n) for n in names]
    while len(paths) < len(names) + nextra:
        n = list(rng.choice(names))
        for _m in range(rng.randint(1, 3)):
            r = rng.random()
            if r < 0.3:
                n.insert(rng.randint(1, len(n)), "")
            elif r < 0.6 and len(n) > 1:
                k = rng.randint(1, len(n) - 1)
                n[k] = rng.choice(bypos.get(k, ["zz"]))
            elif r < 0.85:
                n.append(rng.choice(["buf", "cfi", "allocatable", "pointer", "raw", "scalar", "native", "string", "targ", "caller", "zz"]))
            elif len(n) > 2:
                del n[rng.randint(1, len(n) - 1)]
        paths.append(n)
    out = []
    def s(v): return v if isinstance(v, str) else json.dumps(v, default=str)
    for node in table:
        out.append({"alts": [part.split("/") for part in node["name"].split("_")],
                    "base": node["base"].split("_") if "base" in node else [],
                    "mixin": [m.split("_") for m in node.get("mixin", [])] if "base" not in node else [],
                    "own": {f: (s(node[f]) if f in node else UNSET) for f in fields}})
    defaults = {}
    for l, sc in defs:
        defaults[l] = {f: s(sc.get(f, "<none>")) for f in fields}
    obs = {"err": "", "names": [], "vals": []}
    for p in paths:
        r = lookup(p)
        nm = r.name
        obs["names"].append([] if nm.endswith("_default") else nm.split("_"))
        obs["vals"].append([s(r.get(f, "<none>")) for f in fields])
    return {"stmts": out, "defaults": defaults, "observed": obs, "paths": paths}
job = json.load(open(sys.argv[1]))
res = {"tables": [run_table(t) for t in job["tables"]]}
if job.get("real"):
    res["real"] = real_table(job["real"]["language"], job["real"]["fields"], job["real"]["paths"], job["real"]["seed"], job["real"]["nextra"])
    res["real_py"] = real_table(job["real"]["language"], ["object_created", "goto_fail", "need_numpy", "c_helper"], [], job["real"]["seed"], job["real"]["nextra"] // 2, "py")
    res["real_lua"] = real_table(job["real"]["language"], ["pre_call", "post_call"], [], job["real"]["seed"], 200, "lua")
json.dump(res, open(sys.argv[2], "w"))
'''


def gen_tables(rng, n):
    parts = ["a", "b", "in", "out", "buf"]
    fields = ["x", "y"]
    tables = []
    for _ in range(n):
        stmts = []
        known = []
        for _k in range(rng.randint(1, 5)):
            ln = rng.randint(1, 3)
            alts = [[rng.choice(["c", "c", "f"])]]
            for _j in range(ln):
                if rng.random() < 0.25:
                    alts.append(rng.sample(parts, 2))
                else:
                    alts.append([rng.choice(parts)])
            names = [list(p) for p in itertools.product(*alts)]
            base, mixin = [], []
            r = rng.random()
            pool = known if rng.random() < 0.85 else known + [["c", "zz"], ["f", "a", "a"]]     # sometimes undefined
            if pool and r < 0.3:
                base = rng.choice(pool)
            elif pool and r < 0.6:
                mixin = [rng.choice(pool) for _m in range(rng.randint(1, 2))]
            if pool and base and rng.random() < 0.3:
                mixin = [rng.choice(pool)]          # base and mixin together: the mixin is ignored
            own = {f: rng.choice([UNSET, UNSET, "1", "2", "3"]) for f in fields}
            stmts.append({"alts": alts, "base": base, "mixin": mixin, "own": own})
            known += names
        paths = []
        for _p in range(12):
            lang = rng.choice(["c", "f"])
            if known and rng.random() < 0.6:
                base_ = list(rng.choice(known))
                # mutate: insert blanks / unknown parts / extra parts
                for _m in range(rng.randint(0, 3)):
                    pos = rng.randint(1, len(base_))
                    base_.insert(pos, rng.choice(["", "zz"] + parts))
                paths.append(base_)
            else:
                paths.append([lang] + [rng.choice(parts + ["", "zz"]) for _ in range(rng.randint(0, 4))])
        tables.append({"stmts": stmts, "fields": fields,
                       "defaults": {"c": {"x": "c0", "y": "c9"}, "f": {"x": "f0", "y": "f9"}}, "paths": paths})
    return tables


REAL_FIELDS = ["c_helper", "f_helper", "owner", "buf_args", "need_wrapper"]


def real_paths(rng, n):
    langs = ["c", "f"]
    sgroups = ["native", "bool", "char", "string", "vector", "struct", "shadow", "void", "unknown", "enum", "procedure"]
    spointers = ["scalar", "*", "**", "&", "*&", "[]", ""]
    intents = ["in", "out", "inout", "result", "ctor", "dtor", "getter", "setter", ""]
    gens = ["", "", "buf", "cfi"]
    derefs = ["", "", "allocatable", "pointer", "raw", "scalar", "result-as-arg"]
    extra = ["", "", "native", "string", "targ", "caller"]
    paths = set()
    every = list(itertools.product(langs, sgroups, spointers, intents, gens, derefs, extra))
    rng.shuffle(every)
    for t in every[:n]:
        paths.add(t)
    return [list(p) for p in sorted(paths)]


def run(c, tier):
    rng = random.Random(common.seed())
    thorough = tier == "thorough"
    tables = gen_tables(rng, 1500 if thorough else 250)
    paths = real_paths(rng, 1500 if thorough else 300)
    job = {"tables": tables, "real": {"language": "c++", "fields": REAL_FIELDS, "paths": paths, "seed": common.seed(),
                                      "nextra": 6000 if thorough else 1200}}
    with common.scratch("stmt-") as d:
        inp, outp, prog = os.path.join(d, "in.json"), os.path.join(d, "out.json"), os.path.join(d, "child.py")
        json.dump(job, open(inp, "w"))
        open(prog, "w").write(CHILD)
        p = subprocess.run([common.PY, prog, inp, outp], env=dict(os.environ, VERIF_REPO=common.REPO, PYTHONDONTWRITEBYTECODE="1"),
                           stdout=subprocess.PIPE, stderr=subprocess.STDOUT, text=True)
        if p.returncode != 0:
            raise MachineryError("statement-table child failed: " + p.stdout[-2000:])
        res = json.load(open(outp))
    traces, meta = [], []
    for t, o in zip(tables, res["tables"]):
        traces.append(dict(t, observed=o))
        meta.append(("generated", t))
    real = res["real"]
    paths = real["paths"]
    # the real tables (C/Fortran, Python, Lua), their lookups in slices (each trace rebuilds the table)
    step = 300
    for tag, rt, flds in (("real", res["real"], REAL_FIELDS), ("real-py", res["real_py"], ["object_created", "goto_fail", "need_numpy", "c_helper"]),
                          ("real-lua", res["real_lua"], ["pre_call", "post_call"])):
        ps = rt["paths"]
        for k in range(0, len(ps), step):
            traces.append({"stmts": rt["stmts"], "fields": flds, "defaults": rt["defaults"], "paths": ps[k:k + step],
                           "observed": {"err": rt["observed"]["err"], "names": rt["observed"]["names"][k:k + step],
                                        "vals": rt["observed"]["vals"][k:k + step]}})
            meta.append((tag, k))
    # negative controls: a wrong name, a wrong value, an error swallowed
    ctl = []
    for t in traces:
        if t["observed"]["err"] == "" and t["observed"]["names"] and len(ctl) < 2 and t["observed"]["names"][0]:
            b = json.loads(json.dumps(t))
            b["observed"]["names"][0] = b["observed"]["names"][0][:-1]
            ctl.append(b)
        elif t["observed"]["err"] and len(ctl) < 4:
            b = json.loads(json.dumps(t))
            b["observed"] = {"err": "", "names": [[] for _ in b["paths"]], "vals": [[t["defaults"]["c"][f] for f in t["fields"]] for _ in b["paths"]]}
            ctl.append(b)
    v, st = validate_traces("Trace_StmtTree", "Trace_StmtTree", traces + ctl, shard=200)
    c.add_stats(st, "Trace_StmtTree", len(traces))
    nrej = 0
    for (verdict, detail), (kind, what), t in zip(v[:len(traces)], meta, traces):
        c.count(1, [json.dumps(t["paths"][:2])] if kind == "generated" else ["real-%s" % what])
        if verdict != "ACCEPT":
            nrej += 1
            key = "stmt-table:%s:%s" % (kind, (detail.split('"')[1] if '"' in detail else detail[:40]).replace(" ", "_"))
            c.violation(key, "statement table (%s): %s" % (kind, detail[:400]),
                        {"kind": kind, "detail": detail, "table": t["stmts"] if kind == "generated" else "(real table of the tree under test)",
                         "paths": t["paths"][:20], "observed": {"err": t["observed"]["err"], "names": t["observed"]["names"][:20]}})
    for verdict, detail in v[len(traces):]:
        if verdict != "REJECT":
            raise MachineryError("negative control of the statement-table validation accepted")
    c.part("statement_tables", generated_tables=len(tables), real_entries=len(real["stmts"]), real_lookups=len(paths),
           real_lookups_finding_an_entry=sum(1 for n in real["observed"]["names"] if n),
           python_entries=len(res["real_py"]["stmts"]), python_lookups=len(res["real_py"]["paths"]),
           lua_entries=len(res["real_lua"]["stmts"]), lua_lookups=len(res["real_lua"]["paths"]),
           distinct_entries_found=len({tuple(n) for n in real["observed"]["names"] if n}),
           refused_tables=sum(1 for o in res["tables"] if o["err"]), rejected=nrej, controls=len(ctl))
