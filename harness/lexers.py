"""Comment-free token streams of generated files (trusted base of C16).

C / C++ (also the Python-extension and Lua sources): // and /* */ comments,
string and character literals respected; a NEWLINE token closes every
preprocessor line.  Fortran free form: ! outside character literals, trailing
& continuation joined, one NEWLINE token per statement line, identifiers
lower-cased.  setup.py / YAML: # comments outside quotes.
"""
import re

C_TOKEN = re.compile(r'''
    (?P<ws>[ \t\r\f\v]+)
  | (?P<nl>\n)
  | (?P<lc>//[^\n]*)
  | (?P<bc>/\*.*?\*/)
  | (?P<str>"(?:\\.|[^"\\\n])*")
  | (?P<chr>'(?:\\.|[^'\\\n])*')
  | (?P<id>[A-Za-z_]\w*)
  | (?P<num>\.?\d(?:[\w.]|[eEpP][+-])*)
  | (?P<op>.)
''', re.S | re.X)


def lex_c(text):
    toks = []
    in_pp = False
    at_line_start = True
    for m in C_TOKEN.finditer(text):
        k = m.lastgroup
        v = m.group(k)
        if k == "nl":
            if in_pp:
                # a backslash-newline continues the directive
                if toks and toks[-1] == "\\":
                    toks.pop()
                else:
                    toks.append("<NL>")
                    in_pp = False
            at_line_start = True
            continue
        if k in ("ws", "lc"):
            continue
        if k == "bc":
            if "\n" in v and in_pp:
                toks.append("<NL>")
                in_pp = False
            continue
        if k == "op" and v == "#" and at_line_start:
            in_pp = True
        at_line_start = False
        toks.append(v)
    if in_pp:
        toks.append("<NL>")
    return toks


F_TOKEN = re.compile(r'''
    (?P<ws>[ \t\r\f\v]+)
  | (?P<str>"(?:""|[^"\n])*"|'(?:''|[^'\n])*')
  | (?P<id>[A-Za-z_]\w*)
  | (?P<num>\.?\d(?:[\w.]|[eEdD][+-])*)
  | (?P<op>.)
''', re.S | re.X)


def strip_f_comment(line):
    q = None
    for i, ch in enumerate(line):
        if q:
            if ch == q:
                q = None
        elif ch in "\"'":
            q = ch
        elif ch == "!":
            return line[:i]
    return line


def lex_fortran(text):
    toks = []
    cont = False
    for raw in text.split("\n"):
        if raw.lstrip().startswith("#"):
            # preprocessor line (the generated modules are preprocessed)
            toks += lex_c(raw + "\n")
            continue
        line = strip_f_comment(raw).rstrip()
        if not line.strip():
            continue
        body = line.strip()
        if cont and body.startswith("&"):
            body = body[1:]
        nxt = body.endswith("&")
        if nxt:
            body = body[:-1]
        for m in F_TOKEN.finditer(body):
            k = m.lastgroup
            if k == "ws":
                continue
            v = m.group(k)
            toks.append(v.lower() if k in ("id", "num") else v)
        if not nxt:
            toks.append("<NL>")
        cont = nxt
    return toks


def lex_hash(text):
    """Python / YAML: # comments outside quotes; newline is significant."""
    toks = []
    for raw in text.split("\n"):
        q = None
        out = []
        for ch in raw:
            if q:
                out.append(ch)
                if ch == q:
                    q = None
            elif ch in "\"'":
                q = ch
                out.append(ch)
            elif ch == "#":
                break
            else:
                out.append(ch)
        line = "".join(out).rstrip()
        if line.strip():
            toks += re.findall(r"\s+|\w+|[^\w\s]", line.replace("\t", " "))
            toks.append("<NL>")
    # indentation matters in Python / YAML: keep leading blanks as a token, drop other blanks
    res = []
    start = True
    for t in toks:
        if t == "<NL>":
            res.append(t)
            start = True
        elif t.isspace():
            if start:
                res.append("<IND%d>" % len(t))
            start = False
        else:
            res.append(t)
            start = False
    return res


def lex_file(name, text):
    low = name.lower()
    if low.endswith((".f", ".f90")):
        return lex_fortran(text)
    if low.endswith((".py", ".yaml", ".yml")):
        return lex_hash(text)
    return lex_c(text)
