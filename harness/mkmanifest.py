"""Regenerate /verif/MANIFEST.json from the table below (and validate it when
jsonschema is importable: run with python3-vt)."""
import json
import os

VERIF = os.path.dirname(os.path.dirname(os.path.abspath(__file__)))
PENDING = "check not built yet in this framework (see DESIGN.md section 9); will be claimed when its spec and conformance harness exist"

# id -> dict(level, text, note, technique, design) ; absent => not_applicable(PENDING)
CHECKS = {
    "C13": dict(
        level="model_checking",
        design="DESIGN.md section 4 / C13",
        technique="TLA+ spec LineWrap (splitter W, directive layer D, acceptor A) model-checked with TLC; "
                  "real write_lines/write_continue calls (enumerated inputs + corpus) validated against "
                  "Trace_LineWrap by TLC",
        text="TLC exhausts every payload over {TAB,FF,CR,SP,x[,y]} up to a length bound times line lengths, "
             "indents and continuation markers: the design satisfies TextPreserved, ContOnEveryBrokenLine, "
             "NoDirectiveLeak, WithinLength, BreaksOnlyAtHints and W refines the property-level acceptor A. "
             "The same input set, realistic long lines at 40/72/132 columns, all short directive item lists and "
             "every write_lines call made while generating the regression corpus are executed by the real code "
             "and each (input, physical lines) record is accepted or rejected by TLC running the acceptor; "
             "generated Fortran files are scanned for the 132-column consequence. Each writer must wrap at the line length "
             "of its language (C_line_length for C, C++, Python, Lua; F_line_length for Fortran), taken from the library.",
        note="Trusted: TLC, CommunityModules Json/IOUtils, the probe that tees write_lines output, the "
             "harness's per-item re-execution of recorded calls (checked by equality against the recorded "
             "whole-call output). Bounded: exhaustive only below the stated text length.",
    ),
    "C12": dict(
        level="model_checking",
        design="DESIGN.md section 4 / C12",
        technique="TLA+ spec Splicer (reader R, emitter E with force > user > default, read-back/re-emit "
                  "composition) model-checked with TLC; real get_splicers results, every "
                  "_push/_pop/_update_top/_create_splicer call of real runs, and per-block supplied-vs-read-back "
                  "bodies of whole Shroud runs validated against Trace_Splicer by TLC",
        text="TLC exhausts every splicer file of <= 5 abstract lines (reader contract, outside text ignored) and "
             "every emitter program of <= 4 (thorough 5) operations x user stores: Read(Emit(U)) returns every "
             "emitted body and Emit(Read(Emit(U))) = Emit(U). Conformance: abstract files rendered to real files "
             "and read by the real reader; emitter calls recorded by the probe in real runs; whole runs in which "
             "bodies are supplied for every block visible in a library's generated files by splicer file, by "
             "splicer_code, mixed, and on the declaration, then read back from the regenerated files and compared "
             "line by line (up to indentation / trailing blanks) in TLA+; generated files fed back as splicer files "
             "must reproduce themselves.",
        note="Trusted: TLC, the probe, PyYAML round trip of the input, the real get_splicers used to read generated "
             "files back (itself under test by the reader traces). Known findings are listed in KNOWN_FINDINGS.txt.",
    ),
    "C11": dict(
        level="model_checking",
        design="DESIGN.md section 4 / C11",
        technique="TLA+ spec EnumValues (C++ evaluator on trees, Shroud's token-level derivation, "
                  "precedence-climbing evaluator of emitted C/Fortran value text) model-checked with TLC; value "
                  "text emitted by the real EnumNode + wrap_enum validated against Trace_EnumValues; g++/gcc/"
                  "gfortran three-way compile ties the TLA+ evaluator to real compilers",
        text="TLC exhausts every enumeration of <= 3 (thorough 4) members whose values are absent or depth-1 "
             "expressions over literals and earlier members: the derivation (integer fast path, base+incr for "
             "implicit members after an expression, C writing explicit values only, Fortran all) keeps the C++ "
             "value at every step. Conformance: the same enumerations exhaustively for small sizes, and random "
             "enumerations of up to 6 members and depth 3, plain / enum class / enum struct at library, namespace "
             "and class scope, are declared through the real ast.EnumNode and emitted by the real wrapc/wrapf "
             "wrap_enum; TLC evaluates the emitted text under C and Fortran rules and compares with the C++ "
             "meaning; the parser's own expression tree (printed with every operation parenthesised) must denote the same "
             "value; a batch is compiled with g++, gcc and gfortran and g++'s values are checked against the "
             "specification's evaluator.",
        note="Trusted: TLC, the harness tokeniser and name lookup, GCC 12 for the compiled batch. Values are "
             "limited to 32 bits; the a - -b spelling (non-standard Fortran) is written with parentheses.",
    ),
    "C09": dict(
        level="model_checking",
        design="DESIGN.md section 4 / C09",
        technique="TLA+ attribute grammar DeclGrammar (Tokens/Proj/CxxTok of a derivation, phase machine) "
                  "explored by TLC; every derivation rendered to text, parsed / unparsed / re-parsed by the real "
                  "declast and compared field by field with the specification by TLC (Trace_DeclGrammar); g++ "
                  "std::is_same between the original text and Shroud's C++ rendering",
        text="The grammar specification fixes, for each derivation (storage, cv placement before/after the type, 25 "
             "base types incl. std::string, std::vector<T>, classes and qualified names, pointer/reference chains "
             "with cv at every level, function pointers, parameter lists, method const, arrays, attributes, default "
             "values), the sentence, the meaning in the shape of Shroud's AST and the C++ rendering. TLC replays all "
             "derivations below a bound through the phase machine (balanced prefixes, completeness, same pointer "
             "structure in the rendering). Conformance: ~6k (thorough ~45k) derivations are parsed by the real "
             "check_decl, projected, rendered by gen_arg_as_cxx and gen_decl, re-parsed, and judged by TLC; a batch "
             "is decided by g++ is_same, which ties both Shroud and the specification's rendering to a compiler. The C rendering (gen_arg_as_c) of declarations over native types must be the C counterpart (references as pointers, cv-qualifiers kept at every level). Which declaration a (qualified) type name denotes is specified in Symtab.tla (C++ lookup rule in writing order), model-checked, validated against the real symbol tables on generated scope trees and tied to the language by g++ static_assert(is_same).",
        note="Trusted: TLC, the harness text renderer / C lexer / AST projection (field copying), g++ 12. "
             "Renderings of template-instance parameters inside a function rendering are not compared (documented "
             "wrapper convention). Domain limited to the rows in harness/declgen.py.",
    ),
    "C17": dict(
        level="model_checking",
        design="DESIGN.md section 4 / C17",
        technique="TLA+ specs DeclMutate (token edits of grammar sentences, sound syntactic oracle Judge) and Attrs "
                  "(attribute legality table from docs/input.rst) checked by TLC; outcome classes of the real "
                  "check_decl + create_library_from_dictionary + generate_functions for every mutant, random token "
                  "strings, attribute rows, YAML structure rows and context rows validated by TLC (Trace_Invalid), "
                  "including history independence",
        text="TLC shows on the model that the oracle never condemns an accepted sentence of the grammar and "
             "enumerates every single-token mutant (delete, insert, replace, swap, append). Conformance: valid "
             "sentences x single-token edits, random token strings of length <= 12, the attribute table (target x "
             "type shape x names x values x documented illegal pairs), YAML structure rows, the table of input-file keys "
             "(key x level x twelve kinds of YAML value: a value of the wrong type must be rejected) and template-context "
             "rows are pushed through the real front end; outcomes accept / clean reject / internal / hang are "
             "judged: never internal or hang, accepted text is bracket-balanced with no trailing or empty-slot "
             "tokens, documented sentences and legal attribute uses are accepted, illegal ones rejected with a "
             "message, and a re-run of the same input in another order gives the same outcome.",
        note="Trusted: TLC, the harness classification of exception types, a 3 s alarm for hangs. The syntactic "
             "oracle is deliberately sound rather than complete; attribute rows the documentation leaves open are "
             "not judged. Known findings in KNOWN_FINDINGS.txt.",
    ),
    "C08": dict(
        level="model_checking",
        design="DESIGN.md section 4 / C08",
        technique="TLA+ spec Naming (expansion machine Defaults/Number/Templates/Generics, callable signatures, "
                  "un_camel on code points) model-checked with TLC; name tables read back from files generated by "
                  "real Shroud runs validated against Trace_Naming by TLC",
        text="TLC exhausts every admitted scope of <= 2 (thorough 3) declared functions over two C++ names x 5 "
             "parameter lists x 0..2 trailing defaults x explicit/defaulted function_suffix x default_arg_suffix x "
             "template instantiations x fortran_generic variants: exactly one C entry and one Fortran specific per "
             "callable signature, no two names coincide. Conformance: the same scopes (all singles, sampled pairs "
             "and triples, CamelCase names, library and namespace scope, varying default values) are run through "
             "the real generator with all four wrappers on; C definitions (with their debug 'Function:' comments), "
             "bind(C) interfaces, Fortran specifics and the C function each calls, generic interfaces, PyMethodDef "
             "and luaL_Reg tables are parsed from the generated files and TLC decides completeness, uniqueness, "
             "generic-interface exactness and the prefix + scope + underscore-name shape of every name (functions, generic "
             "interfaces). Scopes: library, class, namespace, nested namespace, flattened namespace; overload sets of twelve; "
             "rank-changing fortran_generic entries; character results passed back as an argument, F_CFI off and on.",
        note="Trusted: TLC, the regular-expression readers of generated C/Fortran, PyYAML. Class scope and "
             "bufferify variants are not in the enumerated domain yet (numeric parameter types only).",
    ),
    "C15": dict(
        level="model_checking",
        design="DESIGN.md section 4 / C15",
        technique="TLA+ spec WrapSelect (effective flags with library defaults and per-declaration overrides, pass "
                  "machine C/Fortran/utility/Python/Lua, file registration) model-checked with TLC; write_output_file "
                  "events, --cfiles/--ffiles contents, directory listings and declaration presence of real command-line "
                  "runs validated against Trace_WrapSelect by TLC; digest comparison of toggle pairs",
        text="TLC explores every flag combination (Fortran only with C) x overrides of one declaration x directory "
             "assignments x every interleaving of file writes the pass structure allows: no file for a language that "
             "is off, every file in its designated directory, lists exact. Conformance: 6 library shapes (functions, "
             "class, namespace, default argument, overload set, std::string) x 12 flag combinations x 5 overrides x "
             "directory assignments run through the real command line; every write_output_file call is replayed "
             "through the pass machine, list files and directory listings must equal the reported writes, each "
             "declaration must be present exactly in the languages its effective flag selects; runs differing only in "
             "wrap_python/wrap_lua must produce identical C and Fortran files. A namespace with an override of its own gets a "
             "file of a language exactly when that language is on for it.",
        note="Trusted: TLC, the probe on write_output_file, name-based presence detection. setup.py and the "
             "*_types.yaml file are treated as auxiliary files of --outdir.",
    ),
    "C14": dict(
        level="model_checking",
        design="DESIGN.md section 4 / C14",
        technique="TLA+ spec Scope (tree of scopes, Eff = nearest enclosing setting, PushDown / empty block / set "
                  "as tree operations, self-composition of a tree and its transform) model-checked with TLC; "
                  "effective values reported by real nodes built from random YAML descriptions validated against Eff "
                  "by TLC; byte comparison of outputs of equivalent description pairs",
        text="TLC checks on every tree of <= 3 (thorough 4) scopes x every placement of two keys that pushing a "
             "setting down from a container to its children, and wrapping children in an empty block, leave the "
             "value in force at every declaration unchanged, and that a setting is invisible outside its subtree and "
             "reaches everything inside that does not override it. Conformance: (eff) random descriptions of up to 9 "
             "scopes (library, namespace, class, block, function; depth 3) with options and format fields set at "
             "random levels go through the real create_library_from_dictionary; the scope tree is taken from the YAML "
             "nesting and TLC compares the value each real function node reports with Eff; (pair) container-level vs "
             "per-declaration settings for 6 keys x {block, namespace, library}, sibling namespaces, nested and empty "
             "blocks, inline attributes vs attrs/fattrs, --option / --language vs YAML, create_wrapper vs the command "
             "line are generated for real and compared byte for byte.",
        note="Trusted: TLC, PyYAML, the harness's YAML-to-tree projection. Only function-scoped keys are pushed down; "
             "doxygen on a namespace and library-level format fields are excluded (they also govern file-level text).",
    ),
    "C07": dict(
        level="model_checking",
        design="DESIGN.md section 4 / C07",
        technique="TLA+ spec Registry (process-wide registries abstracted to contributor sets, run = Initialize; "
                  "Generate; Emit) model-checked with TLC; in-process run histories (registry digests from a probe, "
                  "file digests) replayed against fresh-process references by TLC (Trace_Registry); perturbation "
                  "pairs (hash seed, cwd, environment, populated output directory) compared",
        text="TLC checks for all histories of <= 3 runs over 4 libraries that, with every registry re-created at the "
             "start of a run, no run starts with data of another library. Conformance: every ordered pair, every "
             "repetition and sampled triples over 4 (thorough 8) corpus libraries mixing C and C++ are run in one "
             "Python process through the real main; each run's files must be byte-identical to the same library in "
             "a fresh process, and the verdict names the registries whose digest differed when generation started; "
             "corpus and generated wide libraries are run under pairs of PYTHONHASHSEED values, working directories, "
             "environments and with a pre-populated output directory; outputs are scanned for host name and clock. A generated "
             "library with every top-level section of the input file, vectors, owned typed results is run under two names "
             "in the histories (what one library leaves behind must not show in the next).",
        note="Trusted: TLC, the registry digest (canonical dump), file digests. *.log and *.json debugging files "
             "are not compared. A differing registry digest alone is reported as a suspect, never as a violation.",
    ),
    "C16": dict(
        level="model_checking",
        design="DESIGN.md section 4 / C16",
        technique="TLA+ spec Lockstep (self-composition: two runs walked in lock step over comment-free token "
                  "chunks) model-checked with TLC; pairs of real runs differing only in debug / doxygen / "
                  "show_splicer_comments / version stamp / per-declaration literalinclude lexed and walked by TLC "
                  "(Trace_Lockstep)",
        text="TLC shows on all pairs of tiny runs that the lock-step walk accepts exactly equal pairs. Conformance: a "
             "generated library with cpp_if overloads, doxygen blocks, default arguments, a class, a namespace and "
             "splicer code, and corpus libraries (4 in quick, all in thorough) are generated with a baseline and with "
             "the 15 other global combinations of the four options and with each option (and literalinclude) placed "
             "on single declarations, classes and namespaces; every output file (C, C++, Fortran, Python-extension, "
             "Lua, setup.py, types YAML) is reduced to its comment-free token stream and every differing pair, plus a "
             "sample of identical ones, is walked chunk by chunk by TLC; the set of files must be the same.",
        note="Trusted: TLC, harness/lexers.py (self-tested at every run), PyYAML round trip of corpus inputs. The "
             "--outdir string embedded in setup.py is normalised.",
    ),
    "C02": dict(
        level="model_checking",
        design="DESIGN.md section 4 / C01-C02",
        technique="TLA+ spec CallBridge (call protocol CallerInvoke/LibEnter/LibExit/CallerReturn with a contract that "
                  "is a function of the declaration only) model-checked with TLC; run-time traces of a generated C "
                  "driver and an instrumented C++ subject library, wrapped by the real Shroud and built with gcc/g++, "
                  "validated call by call against Trace_CallBridge by TLC",
        text="TLC checks totality and position consistency of the contract for every small signature (supplied, "
             "defaulted, implied, hidden, in/out/inout parameters, methods). Conformance: a C++ library of 18 free "
             "functions (native scalars, bool, enum, pointers in/out/inout, references, const char*, std::string "
             "in/inout/out, struct by value/pointer/reference, arrays, every arity of defaulted arguments, overloads, "
             "template instantiations) and a class (constructor, destructor, const/static/instance methods, object "
             "arguments, functions returning instances) logs what it receives and produces; a C driver compiled as C "
             "against the generated headers calls every entry point with boundary values and logs what it supplies "
             "and gets back; TLC validates every call: right entry point, same values in declaration order, right "
             "'this', same result and output arguments. The statement tables every conversion is selected from are specified in StmtTree.tla (expansion of alternatives, base vs mixin, duplicate / forward references refused, lookup by the parts that lead somewhere); TLC checks the design properties and validates the real update_stmt_tree / lookup_stmts_tree on generated tables and on the real fc_statements, py_statements and lua_statements. Libraries also come from the TLA+ grammar LibGen (wide member, sampled members).",
        note="Trusted: TLC, rt/vt.c (single flushed trace channel), the generated driver and subject library, gcc/g++ 12. "
             "Values: 32-bit ints, doubles that are multiples of 1/4, short ASCII strings. C names are read from the "
             "generated headers (their predictability is decided by C08).",
    ),
    "C01": dict(
        level="model_checking",
        design="DESIGN.md section 4 / C01-C02",
        technique="same CallBridge specification with the Fortran conversions (trailing-blank trimming, blank padding "
                  "or truncation to the declared length, implied and defaulted arguments, logical<->bool); run-time "
                  "traces of a generated Fortran driver using only the generated module and documented generic names, "
                  "built with gfortran + g++, validated by TLC; configurations F_CFI off/on (thorough: debug off/on)",
        text="The Fortran driver passes boundary integers and reals, logicals, empty / blank-padded / exact-fit "
             "strings, fixed-length output strings shorter and longer than what the library writes, array sections "
             "including zero-length ones, every default-argument arity, overloads through their generic name, "
             "template instantiations, and drives a class through its type-bound procedures; the instrumented library "
             "logs what arrives. TLC validates every call against the contract: character input arrives trimmed, "
             "implied sizes equal the section extents, omitted arguments arrive as the C++ defaults, results and "
             "output arguments come back exactly (strings padded or truncated to the declared length, allocatable "
             "results with the exact length). The same driver source is used for every configuration. Besides the "
             "fixed library (structs by value/pointer/reference, std::vector in/inout/out-allocatable, a pointer result "
             "with a declared extent, a rank-2 array with dimension(size(x,2),size(x,1)), templates mixing T with "
             "ordinary parameters) the libraries come from the TLA+ grammar: the wide member printed by LibGenPairs "
             "(every pairing of two parameter rows, every result row with every parameter row; with and without "
             "F_CFI) and libraries sampled by TLC -simulate over LibGen (3 quick / 160 thorough), including function "
             "templates, fortran_generic variants, typedef'd and every native scalar type. The type-bound getters and "
             "setters of the class's member variables are validated against Members.tla (Trace_Members).",
        note="Trusted as C02, plus gfortran 12. The wide library is also written and declared as C (language: c; rows a C "
             "library can have), driven by the same Fortran source. Not covered: char** rows. With F_CFI the "
             "functions of the recorded C05 finding (string + vector/pointer-extent) are left out: Shroud stops on them.",
    ),
    "C10": dict(
        level="model_checking",
        design="DESIGN.md section 4 / C10",
        technique="TLA+ spec StrXfer (byte-level machines of ShroudLenTrim / StrAlloc / StrCopy / StrBlankFill with "
                  "read and write sets, documented trimming / padding rules) model-checked with TLC; the real helper "
                  "texts from whelpers.CHelpers (C and C++ variants) compiled under AddressSanitizer and run on the "
                  "complete small case set, every record validated against Trace_StrXfer by TLC; string rows of C01 "
                  "exercise which helper and which length each argument kind uses",
        text="TLC exhausts source and destination lengths 0..4 x contents over {a, blank} (plus NUL-terminated and "
             "NULL sources): every helper leaves exactly the trimmed / NUL-terminated / truncated / blank-padded text "
             "the rule states and reads and writes only inside the lengths it is given. Conformance: the helper texts "
             "of the tree under test are compiled as C and as C++ with -fsanitize=address into a driver that calls "
             "them on exact-size heap buffers for the same complete case set (lengths 0..4, thorough 0..5) and for "
             "CHARACTER(len) arrays; TLC re-runs the byte machine on each recorded argument tuple and compares the "
             "bytes left behind and the return value; a sanitizer report or a leak is a violation.",
        note="Trusted: TLC, GCC 12 ASan/LSan, the driver. The Fortran side of the pipelines (trim(x)//C_NULL_CHAR, "
             "len vs len_trim, allocatable results) is covered end to end by C01, not here.",
    ),
    "C04": dict(
        level="model_checking",
        design="DESIGN.md section 4 / C04",
        technique="TLA+ spec BindC (Fortran/C interoperability relation as data; Define / DefineStruct / BindType / "
                  "Bind events) checked by TLC; every bind(C) interface body, bind(C) derived type and native type-"
                  "registry entry of real Shroud runs, read back from the generated Fortran and C files, validated "
                  "against Trace_BindC by TLC",
        text="TLC exhausts the relation on all dummy-argument x C-parameter shapes (classes int/real/bool/char/complex/"
             "pointer/function pointer/descriptor x sizes x VALUE x array x indirection): a scalar never matches "
             "another class, size or passing mode. Conformance: every configuration of the upstream corpus in "
             "thorough (16 in quick, including both F_CFI configurations) and the generated run-time library with "
             "F_CFI off and on are generated by the real Shroud; each interface body becomes a trace with the C "
             "function it names (prototype from the generated or the user's header, or a non-static definition in a "
             "generated source) and all struct / derived-type layouts; TLC decides: the bound function exists, same "
             "number of arguments, each dummy interoperable with its parameter, interoperable result, derived types "
             "match their C structs field by field, registry kinds match their C types. A generated C library (rt-kinds) has one "
             "function per spelling of every integer and real type, structs written inline and in the declarations form with "
             "per-member options, user statements that change the return type, and array-of-pointer parameters.",
        note="Trusted: TLC, harness/bindc_parse.py (declaration readers), LP64 sizes. Interfaces bound to user functions "
             "for which the corpus ships no header are counted and not judged. unsigned is treated as the signed kind "
             "of the same size; typed data passed to a generic void * is accepted.",
    ),
    "C06": dict(
        level="model_checking",
        design="DESIGN.md section 4 / C06",
        technique="TLA+ spec Capsule (handles [addr, release code], heap with owner and allocator, constructor / owned / "
                  "pool-owned / borrowed results, clone, handle copy, destructor wrapper, generic release) model-checked "
                  "with TLC; every call sequence up to a bound executed by a C driver on real generated wrappers under "
                  "AddressSanitizer and replayed by TLC (Trace_Capsule); Fortran driver under ASan/LSan for string, "
                  "vector and allocatable temporaries",
        text="TLC explores all interleavings of the nine wrapper calls over 2 (thorough 3) handles: no object released "
             "twice, library-owned memory never freed, borrowed handles carry no release code, owned handles do, pool "
             "memory goes back to the pool and everything else is deleted. Conformance: the real Shroud wraps a class "
             "library with owner(caller), owner(library) and free_pattern annotations; a C interpreter driver built "
             "with -fsanitize=address runs every sequence of <= 3 (thorough 4) calls a correct caller may make and then "
             "releases both handles; the library logs constructor, destructor and pool events with object identities; "
             "TLC replays each sequence: exactly the expected objects are released by each call, with the matching "
             "deallocator (release codes are read from the generated release function), handles end up as specified, "
             "no object is left alive. A Fortran driver over std::string results and arguments, std::vector in/out, "
             "allocatable char* results and class handles must run clean under ASan and LeakSanitizer. The Python front has "
             "its own specification PyOwn.tla (variables, aliases, wrapper objects that own or borrow; TLC checks release "
             "at most once, library objects kept, no leak, no dangling variable) and every Python statement sequence of "
             "length <= 3 (thorough 4) over two variables is run on the compiled extension and replayed by TLC "
             "(Trace_PyOwn) against the library's constructor / destructor / pool / free events.",
        note="Trusted: TLC, GCC 12 sanitizers, the driver's own correct-caller guards (sequences it cuts short are not "
             "judged), rt/vt.c. Python capsule destructors are not exercised here (see C03).",
    ),
    "C03": dict(
        level="model_checking",
        design="DESIGN.md section 4 / C03",
        technique="TLA+ specs PyDispatch (binding of positional/keyword values to input parameters, overload choice in "
                  "declaration order, C++ arity) and CallBridge model-checked with TLC; calls of a real compiled "
                  "extension module (results / exception classes, library receive/return events) validated against "
                  "Trace_PyDispatch by TLC",
        text="TLC checks on all argument lists of up to 3 values x keyword sets, for a signature with an intent(out) "
             "parameter in front of a default and for an overload set, that moving an argument from positional to "
             "keyword form changes neither the chosen overload, nor the bound values, nor the C++ arity, and that the "
             "first matching overload wins. Conformance: the real Shroud wraps an instrumented library (numpy-free "
             "subset: scalars, bool, const char*, std::string in/inout/out, pointer and reference scalars in/out/inout, "
             "defaults, overloads, a class); the extension is compiled against Python 3.12 and imported; every arity x "
             "every positional/keyword split x boundary values, and surplus / unknown / missing / duplicated / wrongly "
             "typed arguments are executed; TLC validates each call: library receives the supplied values and the C++ "
             "defaults, Python gets the result followed by out/inout arguments, a call matching no signature raises "
             "TypeError/ValueError without reaching the library; SystemError or a crash is a violation. Rows: scalars, "
             "bool, enum, strings, pointers/references in/out/inout, list-mode arrays with implied size and "
             "dimension(n) outputs (incl. empty lists), std::vector in / out, structs as Python classes by value / "
             "pointer / reference and as results. A second module is the wide member of the TLA+ grammar "
             "(LibGenPairs: every pairing of two argument kinds, every result kind with every argument kind) with a "
             "default value on each trailing by-value parameter, every function called with and without it. Reference "
             "counts are part of the contract (RefWhy: arguments keep their count, a created result is referenced by "
             "the result only, also when the call raises; measured with sys.getrefcount around every call). Member "
             "variables of a class (descriptors of seven types, +readonly, +name, wrongly typed assignments) are "
             "validated against Members.tla, a derived class through its own and its inherited methods.",
        note="Trusted: TLC, the driver's value encoding, rt/vt.c. Keyword calls that skip an earlier defaulted "
             "parameter are outside the plan. Reference counts are not measured directly (a borrowed reference shows "
             "as a crash). Known finding: SystemError for a tuple result containing a std::string on Python >= 3.10. "
             "Functions of the two recorded C05 findings (Python module does not compile) are dropped from the wide "
             "module and counted.",
    ),
    "C18": dict(
        level="model_checking",
        design="DESIGN.md section 4 / C18",
        technique="TLA+ specs LuaDispatch (first signature whose count and Lua types match, methods with the object in "
                  "slot 1) and CallBridge model-checked with TLC; invocations of the real generated Lua module, compiled "
                  "against an emulation of the Lua C API, with every small stack, validated against Trace_LuaDispatch by TLC",
        text="TLC checks on every stack of <= 4 values over 6 kinds that selection is first-match, depends only on count "
             "and Lua types and that methods need their object. Conformance: the real Shroud wraps an instrumented "
             "library (scalars, bool, std::string, overloads, default arguments with two omitted defaults, a class with "
             "constructor and methods incl. a defaulted one); the module is compiled against harness/rt/luastub and a "
             "driver enters every registered binding with every stack of length 0..maxargs+1 over {integer, float, "
             "string, boolean, nil, object} (thorough: 9 kinds); TLC validates each invocation: the selected C++ "
             "function receives the stack values in order, the values pushed are the library's results and their count "
             "is reported, a stack that matches no signature raises a Lua error without reaching the library.",
        note="Trusted: TLC, the Lua C-API emulator (no Lua is installed), rt/vt.c. A non-integral number for an integer "
             "parameter is not judged. Known finding: bindings without overloads/defaults do not check their stack.",
    ),
    "C05": dict(
        level="exploration",
        design="DESIGN.md section 4 / C05",
        technique="TLA+ grammar LibGen (the admitted library descriptions; TLC -simulate yields the descriptions that are "
                  "built) and TLA+ spec EmitOrder (helper closure model-checked with TLC; build traces -- module order, "
                  "symbol tables read by nm -- and the real gather_helper_code validated by TLC); verdict on the files by "
                  "gcc/g++/gfortran and the linker",
        text="The domain is the set of library descriptions reachable in specs/LibGen.tla (40 parameter rows x 23 result "
             "rows of harness/rt/cases.py, overloads, default arguments, function templates, fortran_generic, a class, "
             "a derived class, a namespace, language c/c++, wrapper "
             "subsets, F_CFI, debug, doxygen, literalinclude, show_splicer_comments, line lengths 40/72/132) plus the "
             "upstream corpus. TLC samples behaviours of LibGen (seeded); the harness materialises each description with "
             "an implementation of the wrapped library, runs the real Shroud and compiles every file it wrote: headers "
             "alone as C and C++, sources with -Werror=implicit-function-declaration, Fortran modules in the order of "
             "--ffiles, Python modules against the CPython 3.12 headers (then linked with --no-undefined and imported), "
             "Lua modules against the C API emulation; everything is linked with the library. Symbol tables and module "
             "lists are validated by TLC against EmitOrder (modules before use, one definition per symbol, no unresolved "
             "reference, unique include guards), the linker must agree. The helper dependency walk of wrapc/wrapf/wrapp "
             "is replayed on enumerated dependency tables (with cycles) against the spec's depth-first order. The "
             "upstream corpus is regenerated and built with upstream's Makefiles, libraries and test programs (which are "
             "also run). Exploration, not proof: sampled descriptions, one toolchain.",
        note="Trusted: gcc/g++/gfortran 12.2, binutils nm/ld, CPython 3.12 headers, the Lua C-API emulation headers (no "
             "Lua installed), TLC, the row table. numpy is absent: corpus Python modules that need it are excluded and "
             "counted. Known finding: Python wrapper of a const std::string & result with default arguments.",
    ),
}

ALL = ["C%02d" % i for i in range(1, 19)]


def main():
    checks = []
    na = []
    for pid in ALL:
        c = CHECKS.get(pid)
        if not c:
            na.append({"property_id": pid, "reason": PENDING})
            continue
        checks.append({
            "property_id": pid,
            "quick_cmd": "./check %s quick" % pid,
            "thorough_cmd": "./check %s thorough" % pid,
            "evidence_file": "/verif/evidence/%s.json" % pid,
            "replay_cmd_template": "cat {path}",
            "engine": "tlc",
            "level_claimed": {"category": c["level"], "text": c["text"], "design_ref": c["design"]},
            "level_note": c["note"],
            "technique": c["technique"],
        })
    m = {
        "version": 1,
        "setup_cmd": "sh /verif/setup.sh",
        "hooks": {
            "guard": "SHROUD_VERIF",
            "enable": "no source hooks: harness/probes.py monkeypatches functions of the /repo working tree "
                      "inside the harness's own child processes, only when SHROUD_VERIF=1",
            "baseline_off_cmd": "cd /repo && /venv/bin/python -m pytest -ra -q -p no:cacheprovider --timeout=900 "
                                "--continue-on-collection-errors",
            "source_commits": [],
            "add_only": True,
        },
        "engines": [
            {"name": "tlc", "path": "/usr/local/bin/tlc", "serves_properties": [c["property_id"] for c in checks],
             "kind_free_text": "TLA+ specs under /verif/specs model-checked by TLC 1.8; batched trace validation "
                               "(tid chosen in Init, VERDICT lines) binds them to executions of /repo's code"},
        ],
        "checks": checks,
        "not_applicable": na,
        "notes": "All checks import shroud from /repo's working tree (VERIF_REPO overrides it only for trying "
                 "seeded changes in scratch worktrees). KNOWN_FINDINGS.txt lists genuine defects recorded "
                 "rather than repaired.",
    }
    path = os.path.join(VERIF, "MANIFEST.json")
    with open(path, "w") as f:
        json.dump(m, f, indent=1)
        f.write("\n")
    try:
        import jsonschema

        jsonschema.validate(m, json.load(open("/root/.vp/MANIFEST.schema.json")))
        print("MANIFEST.json valid: %d checks, %d not_applicable" % (len(checks), len(na)))
    except ImportError:
        print("MANIFEST.json written (jsonschema not importable here; validate with python3-vt)")


if __name__ == "__main__":
    main()
