"""Re-run the checks against the stored seeded changes.
usage: python harness/seed_recheck.py [ID ...] [--tier quick|thorough]
For each /verif/seeded/<ID>: fresh worktree of /repo HEAD outside /repo and /verif, git apply patch.diff, run the
checks named in meta.json with VERIF_REPO=<worktree> (evidence goes to /tmp/verif-alt-evidence), report whether a
VIOLATION line was printed, remove the worktree."""
import json, os, subprocess, sys, tempfile, shutil
VERIF = os.path.dirname(os.path.dirname(os.path.abspath(__file__)))
def sh(cmd, **kw):
    p = subprocess.run(cmd, shell=True, stdout=subprocess.PIPE, stderr=subprocess.STDOUT, text=True, **kw)
    return p.returncode, p.stdout
def main():
    args = sys.argv[1:]
    tier = None
    if "--tier" in args:
        i = args.index("--tier"); tier = args[i + 1]; del args[i:i + 2]
    ids = args or sorted(os.listdir(os.path.join(VERIF, "seeded")))
    bad = 0
    for sid in ids:
        d = os.path.join(VERIF, "seeded", sid)
        if not os.path.exists(os.path.join(d, "patch.diff")):
            continue
        meta = json.load(open(os.path.join(d, "meta.json")))
        checks = list(meta.get("checks", {}).keys()) or [meta["property"] + " quick"]
        wt = tempfile.mkdtemp(prefix="seedwt_%s_" % sid)
        os.rmdir(wt)
        rc, out = sh("git -C /repo worktree add --detach %s HEAD" % wt)
        try:
            rc, out = sh("git -C %s apply %s" % (wt, os.path.join(d, "patch.diff")))
            if rc != 0:
                print("%s: patch does not apply to HEAD: %s" % (sid, out.strip()[:200])); bad += 1; continue
            for ck in checks:
                prop, t = ck.split()
                t = tier or t
                rc, out = sh("./check %s %s" % (prop, t), cwd=VERIF, env=dict(os.environ, VERIF_REPO=wt))
                nv = sum(1 for l in out.splitlines() if l.startswith("VIOLATION"))
                print("%s: %s %s -> rc=%d violations=%d %s" % (sid, prop, t, rc, nv, "DETECTED" if rc == 1 and nv else "MISSED"))
                if not (rc == 1 and nv):
                    bad += 1
        finally:
            sh("git -C /repo worktree remove --force %s" % wt)
            shutil.rmtree(wt, ignore_errors=True)
    sh("git -C /repo worktree prune")
    return 1 if bad else 0
if __name__ == "__main__":
    sys.exit(main())
