import json,glob,collections,sys,re
prop=sys.argv[1]
cnt=collections.Counter(); ex={}
for f in glob.glob('/verif/evidence/replay/%s_*.json'%prop):
    d=json.load(open(f))
    r=d.get('replay') or {}
    k=(re.sub(r"^[^>]*-> ","",d['what'])[:150])
    cnt[k]+=1; ex.setdefault(k,(d['key'][:150], str(r.get('input'))[:150]))
for k,v in cnt.most_common(60): print(v,k,'\n     e.g.',ex[k])
