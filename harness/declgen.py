"""Derivations of the documented declaration grammar (shared by C09 and C17).

A derivation is the JSON form of the record D of specs/DeclGrammar.tla.  This
module enumerates / samples derivations, renders them to declaration text,
lexes text into tokens, and projects Shroud's real AST into the shape of
DeclGrammar!Proj (field copying only).
"""
import itertools
import re

import common

BASES = ["int", "long", "uint", "ulong", "llong", "longint", "unsigned", "short", "shortint", "ushort", "ushortint", "ulongint",
         "llongint", "ullong", "ullongint", "double", "float", "char", "bool",
         "size_t", "string", "vecint", "vecdouble", "vecuint", "vecllong", "cls", "nscls"]
BASE_TOK = {
    "int": ["int"], "long": ["long"], "uint": ["unsigned", "int"], "ulong": ["unsigned", "long"],
    "llong": ["long", "long"], "longint": ["long", "int"], "unsigned": ["unsigned"],
    "short": ["short"], "shortint": ["short", "int"], "ushort": ["unsigned", "short"], "ushortint": ["unsigned", "short", "int"],
    "ulongint": ["unsigned", "long", "int"], "llongint": ["long", "long", "int"], "ullong": ["unsigned", "long", "long"],
    "ullongint": ["unsigned", "long", "long", "int"],
    "double": ["double"], "float": ["float"], "char": ["char"], "bool": ["bool"], "void": ["void"],
    "size_t": ["size_t"], "string": ["std", "::", "string"],
    "vecint": ["std", "::", "vector", "<", "int", ">"], "vecdouble": ["std", "::", "vector", "<", "double", ">"],
    "vecuint": ["std", "::", "vector", "<", "unsigned", "int", ">"], "vecllong": ["std", "::", "vector", "<", "long", "long", ">"],
    "cls": ["Cls"], "nscls": ["ns", "::", "Inner"],
}

NOCV = {"c": False, "v": False, "post": False}


def D(base="int", lv=(), kind="var", nm="x", ps=(), cq=None, st="", fc=False, dims=(), at=(), ini=None):
    return {"st": st, "cq": dict(cq or NOCV), "base": base, "lv": [dict(l) for l in lv], "kind": kind, "nm": nm,
            "ps": [p for p in ps], "fc": fc, "dims": list(dims), "at": [dict(a) for a in at],
            "ini": ini or {"has": False, "v": ""}}


def L(p, c=False, v=False):
    return {"p": p, "c": c, "v": v}


def cv_tok(c, v):
    return (["const"] if c else []) + (["volatile"] if v else [])


def tokens(d):
    t = []
    if d["st"]:
        t.append(d["st"])
    if not d["cq"]["post"]:
        t += cv_tok(d["cq"]["c"], d["cq"]["v"])
    t += BASE_TOK[d["base"]]
    if d["cq"]["post"]:
        t += cv_tok(d["cq"]["c"], d["cq"]["v"])
    for l in d["lv"]:
        t += [l["p"]] + cv_tok(l["c"], l["v"])
    if d["kind"] in ("var", "func"):
        t.append(d["nm"])
    elif d["kind"] == "fptr":
        t += ["(", "*", d["nm"], ")"]
    if d["kind"] in ("func", "fptr"):
        t.append("(")
        for i, p in enumerate(d["ps"]):
            if i:
                t.append(",")
            t += tokens(p)
        t.append(")")
    if d["fc"]:
        t.append("const")
    for n in d["dims"]:
        t += ["[", str(n), "]"]
    for a in d["at"]:
        if a["k"] == "bare":
            t += ["+", a["n"]]
        elif a["k"] == "paren":
            t += ["+", a["n"], "(", a["v"], ")"]
        else:
            t += ["+", a["n"], "=", a["v"]]
    if d["ini"]["has"]:
        t += ["=", d["ini"]["v"]]
    return t


WORD = re.compile(r"^[A-Za-z0-9_.\"']")


def text(toks, rng=None):
    """Join tokens; blanks are needed only between two word-like tokens."""
    out = ""
    prev = None
    for t in toks:
        need = prev is not None and WORD.match(prev[-1:]) and WORD.match(t[:1])
        if need or (rng is None and prev is not None and t not in (",", ")", "]", "::", "<", ">") and
                    prev not in ("(", "[", "::", "<", "+")):
            out += " "
        elif rng is not None and prev is not None and rng.random() < 0.4:
            out += " "
        out += t
        prev = t
    return out


LEX = re.compile(r'\s*("[^"]*"|\'[^\']*\'|\d+\.\d*(?:[eE][-+]?\d+)?|\d+|[A-Za-z_]\w*|::|\.\.\.|\S)')


def lex(s):
    return [m.group(1) for m in LEX.finditer(s)]


def strip_attrs(d):
    e = dict(d)
    e["at"] = []
    e["ps"] = [strip_attrs(p) for p in d["ps"]]
    return e


# ---------------------------------------------------------------------------
# projection of the real AST

def proj(node):
    from shroud import todict

    d = node.declarator

    def ptrs(dd):
        return [{"p": p.ptr, "c": bool(p.const), "v": bool(p.volatile)} for p in dd.pointer] if dd else []

    f = d.func if d is not None else None
    attrs = []
    for k in sorted(node.attrs):
        v = node.attrs[k]
        if k.startswith("_") or v is None:
            continue
        attrs.append({"n": k, "v": str(v)})
    return {
        "const": bool(node.const), "volatile": bool(node.volatile),
        "storage": list(node.storage),
        "spec": list(node.specifier),
        "tmpl": [" ".join(t.specifier) for t in node.template_arguments],
        "type": node.typemap.name if node.typemap is not None else "",
        "hasdecl": d is not None,
        "ptrs": ptrs(d),
        "name": (d.name or "") if d is not None else "",
        "func": {"has": f is not None, "ptrs": ptrs(f), "name": (f.name or "") if f is not None else ""},
        "hasparams": node.params is not None,
        "params": [proj(p) for p in (node.params or [])],
        "fconst": bool(node.func_const),
        "array": [todict.print_node(x) for x in node.array],
        "attrs": attrs,
        "init": {"has": node.init is not None, "v": str(node.init) if node.init is not None else ""},
    }


class Lib(object):
    """A library namespace in which Cls and ns::Inner are declared."""

    def __init__(self):
        common.import_shroud()
        from shroud import ast, typemap, declast

        self.declast = declast
        typemap.initialize()
        self.lib = ast.LibraryNode(library="decl")
        self.lib.add_class("Cls")
        ns = self.lib.add_namespace("ns")
        ns.add_class("Inner")

    def parse(self, s):
        """-> (outcome, node) ; outcome 'ok' or 'ExcType: message'"""
        try:
            return "ok", self.declast.check_decl(s, namespace=self.lib)
        except Exception as ex:  # classified by the caller
            return "%s: %s" % (type(ex).__name__, str(ex)[:200]), None


# ---------------------------------------------------------------------------
# enumeration

CQS = [NOCV, {"c": True, "v": False, "post": False}, {"c": True, "v": False, "post": True},
       {"c": False, "v": True, "post": False}, {"c": True, "v": True, "post": False}]
LEVELS = [(), (L("*"),), (L("&"),), (L("*"), L("*")), (L("*"), L("&")), (L("*", c=True),),
          (L("*", c=True), L("*")), (L("*"), L("*", c=True)), (L("*", v=True),), (L("*"), L("*"), L("*"))]
ATTRS = [(), ({"n": "intent", "k": "paren", "v": "in"},), ({"n": "value", "k": "bare", "v": ""},),
         ({"n": "len", "k": "eq", "v": "30"},), ({"n": "dimension", "k": "paren", "v": "n"}, {"n": "intent", "k": "paren", "v": "out"}),
         ({"n": "rank", "k": "paren", "v": "1"},), ({"n": "hidden", "k": "bare", "v": ""}, {"n": "implied", "k": "paren", "v": "n"})]
INITS = [None, {"has": True, "v": "1"}, {"has": True, "v": "1.5"}, {"has": True, "v": '"abc"'},
         {"has": True, "v": "name"}]


def variables(bases=BASES):
    for b in bases:
        for cq in CQS:
            for lv in LEVELS:
                if b == "void" and not lv:
                    continue
                yield D(b, lv, "var", "x", cq=cq)


def param_pool():
    pool = []
    for b in ["int", "double", "char", "bool", "string", "vecint", "cls", "uint"]:
        for cq in CQS[:3]:
            for lv in LEVELS[:6]:
                pool.append(D(b, lv, "var", "a", cq=cq))
    pool.append(D("void", (L("*"),), "var", "p"))
    pool.append(D("void", (L("*"),), "abs"))
    pool.append(D("int", (), "abs"))
    pool.append(D("int", (L("*"),), "abs"))
    pool.append(D("double", (L("&"),), "abs", cq=CQS[1]))
    pool.append(D("int", (), "var", "n", at=ATTRS[1]))
    pool.append(D("double", (L("*"),), "var", "arr", at=ATTRS[4]))
    pool.append(D("char", (L("*"),), "var", "s", at=ATTRS[3]))
    pool.append(D("int", (), "var", "d", ini=INITS[1]))
    pool.append(D("double", (), "var", "e", ini=INITS[2]))
    pool.append(D("int", (), "fptr", "cb", ps=[D("int", (), "abs"), D("double", (L("*"),), "abs")]))
    pool.append(D("void", (), "fptr", "cb2", ps=[D("void", (), "abs")]))
    pool.append(D("int", (), "fptr", "cb3", ps=[D("void", (L("*"),), "abs")]))
    pool.append(D("int", (), "var", "v", dims=[3]))
    pool.append(D("int", (), "var", "m", dims=[2, 3]))
    return pool


def rename(p, i):
    q = dict(p)
    if q["kind"] != "abs":
        q["nm"] = "%s%d" % (p["nm"], i)
    return q


def functions(rng, n_pairs):
    pool = param_pool()
    rets = [("void", ()), ("int", ()), ("double", (L("*"),)), ("string", (L("&"),)), ("cls", (L("*"),)),
            ("char", (L("*"),)), ("bool", ()), ("vecint", ()), ("void", (L("*"),))]
    rcq = [NOCV, CQS[1]]
    for b, lv in rets:
        for cq in rcq:
            if b == "void" and not lv and cq["c"]:
                continue
            yield D(b, lv, "func", "f", ps=[], cq=cq)
            yield D(b, lv, "func", "f", ps=[D("void", (), "abs")], cq=cq)
            yield D(b, lv, "func", "f", ps=[], cq=cq, fc=True)
    for p in pool:
        for b, lv in rets[:3]:
            yield D(b, lv, "func", "f", ps=[rename(p, 1)])
    for _ in range(n_pairs):
        b, lv = rng.choice(rets)
        k = rng.choice([2, 2, 3])
        ps = [rng.choice(pool) for i in range(k)]
        ps.sort(key=lambda q: q["ini"]["has"])      # defaulted parameters are trailing (C++ rule)
        ps = [rename(q, i + 1) for i, q in enumerate(ps)]
        yield D(b, lv, "func", "g", ps=ps, fc=rng.random() < 0.1, st=rng.choice(["", "", "static"]),
                at=rng.choice([(), (), ({"n": "pure", "k": "bare", "v": ""},)]))


def decorated_variables(rng, n):
    for _ in range(n):
        b = rng.choice(BASES)
        lv = rng.choice(LEVELS)
        dims = rng.choice([(), (), (3,), (2, 3)]) if not any(l["p"] == "&" for l in lv) else ()
        at = rng.choice(ATTRS)
        ini = rng.choice(INITS) if not dims else None
        if ini and at and at[-1]["k"] == "bare":
            # "+value = 1" reads as the attribute value=1: not a sentence with a default value
            ini = None
        yield D(b, lv, "var", rng.choice(["x", "val", "count_2"]), cq=rng.choice(CQS), dims=dims,
                at=at, ini=ini, st=rng.choice(["", "", "static"]))
