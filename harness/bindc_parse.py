"""Read bind(C) interfaces / derived types from generated Fortran modules and
function prototypes / structs from generated C headers and sources, into the
records of specs/BindC.tla (field copying and classification of type words).
"""
import os
import re

import lexers

F_KIND = {
    "c_int": ("int", 4), "c_long": ("int", 8), "c_short": ("int", 2), "c_long_long": ("int", 8),
    "c_size_t": ("int", 8), "c_int8_t": ("int", 1), "c_int16_t": ("int", 2), "c_int32_t": ("int", 4),
    "c_int64_t": ("int", 8), "c_signed_char": ("int", 1), "c_intptr_t": ("int", 8),
    "c_float": ("real", 4), "c_double": ("real", 8), "c_long_double": ("real", 16),
    "c_bool": ("bool", 1), "c_char": ("char", 1),
    "c_float_complex": ("complex", 8), "c_double_complex": ("complex", 16),
}
C_BASE = {
    "int": ("int", 4), "long": ("int", 8), "short": ("int", 2), "longlong": ("int", 8), "size_t": ("int", 8),
    "int8_t": ("int", 1), "int16_t": ("int", 2), "int32_t": ("int", 4), "int64_t": ("int", 8),
    "uint8_t": ("int", 1), "uint16_t": ("int", 2), "uint32_t": ("int", 4), "uint64_t": ("int", 8),
    "float": ("real", 4), "double": ("real", 8), "longdouble": ("real", 16),
    "bool": ("bool", 1), "_Bool": ("bool", 1), "char": ("char", 1), "void": ("void", 0),
    "floatcomplex": ("complex", 8), "doublecomplex": ("complex", 16), "float_Complex": ("complex", 8),
    "double_Complex": ("complex", 16), "MPI_Fint": ("int", 4), "unsigned": ("int", 4), "signed": ("int", 4),
    "longint": ("int", 8), "shortint": ("int", 2), "longlongint": ("int", 8),
    "CFI_cdesc_t": ("cfi", 0),
}


def frec(cls, size=0, value=False, dim=False, tname=""):
    return {"cls": cls, "size": size, "value": value, "dim": dim, "tname": tname.lower()}


def crec(cls, size=0, ptr=0, sname="", arr=False):
    return {"cls": cls, "size": size, "ptr": ptr, "sname": sname.lower(), "arr": arr}


# ---------------------------------------------------------------------------
# Fortran

def f_statements(text):
    """Logical statement lines (comments removed, continuations joined, lower-cased except strings)."""
    out = []
    cur = ""
    for raw in text.split("\n"):
        if raw.lstrip().startswith("#"):
            continue
        line = lexers.strip_f_comment(raw).strip()
        if not line:
            continue
        if cur and line.startswith("&"):
            line = line[1:]
        if line.endswith("&"):
            cur += line[:-1] + " "
            continue
        out.append(cur + line)
        cur = ""
    return out


def f_decl(stmt):
    """'integer(C_INT), value, intent(IN) :: a, b(*)' -> (frec template, [(name, is_array)])"""
    if "::" not in stmt:
        # old style without '::' :  type(C_PTR) SHT_rv
        m0 = re.match(r"\s*((?:integer|real|logical|complex|character|type)\s*\([^)]*\))\s+(\w+.*)$", stmt, re.I)
        if not m0:
            return None
        stmt = m0.group(1) + " :: " + m0.group(2)
    left, right = stmt.split("::", 1)
    low = left.lower().replace(" ", "")
    attrs = [a for a in re.split(r",(?![^()]*\))", low) if a]
    typ = attrs[0]
    value = "value" in attrs[1:]
    dim = any(a.startswith("dimension") for a in attrs[1:])
    m = re.match(r"(integer|real|logical|complex|character)\((?:kind=)?(\w+)\)", typ)
    names = []
    for part in re.split(r",(?![^()]*\))", right):
        part = part.strip()
        if not part:
            continue
        mm = re.match(r"(\w+)\s*(\(.*\))?", part)
        spec = (mm.group(2) or "").replace(" ", "")
        # assumed-rank (..) and assumed-shape (:) dummies of a bind(C) procedure are passed by descriptor
        names.append((mm.group(1).lower(), "cfi" if spec in ("(..)",) or spec.startswith("(:") else bool(mm.group(2))))
    if m:
        kind = m.group(2)
        if typ.startswith("character") and ("len=*" in typ or "len=:" in typ):
            return frec("cfi"), names
        cls, size = F_KIND.get(kind, ("unknown:" + kind, 0))
        if typ.startswith("complex"):
            cls, size = F_KIND.get(kind.replace("c_float", "c_float_complex").replace("c_double", "c_double_complex"), (cls, size))
            if kind in ("c_float_complex", "c_double_complex"):
                cls, size = F_KIND[kind]
        return frec(cls, size, value, dim), names
    if typ.startswith("character"):
        if "len=*" in typ or "len=:" in typ:
            return frec("cfi"), names
        return frec("char", 1, value, dim), names
    if typ == "type(c_ptr)":
        return frec("cptr", 8, value, dim), names
    if typ == "type(c_funptr)":
        return frec("funptr", 8, True, False), names
    if typ in ("type(*)",):
        return frec("assumedtype", 0, False, dim), names
    m = re.match(r"type\((\w+)\)", typ)
    if m:
        return frec("type", 0, value, dim, m.group(1)), names
    if typ.startswith("procedure") or typ == "external":
        return frec("funptr", 8, True, False), names
    if typ.startswith("class("):
        return frec("unknown:class", 0), names
    return frec("unknown:" + typ, 0), names


def read_fortran(text):
    """-> (binds, types).  Only interface bodies with bind(C) are returned."""
    stmts = f_statements(text)
    binds, types = [], []
    i = 0
    n = len(stmts)
    in_abstract = False
    while i < n:
        s = stmts[i]
        low = s.lower()
        if re.match(r"abstract\s+interface", low):
            in_abstract = True
        elif re.match(r"end\s+interface", low):
            in_abstract = False
        if in_abstract:
            i += 1
            continue
        m = re.match(r"type\s*,\s*bind\(c\)\s*::\s*(\w+)", low)
        if m:
            fields = []
            i += 1
            while not re.match(r"end\s+type", stmts[i].lower()):
                d = f_decl(stmts[i])
                if d:
                    tmpl, names = d
                    for nm, arr in names:
                        f = dict(tmpl)
                        f["dim"] = f["dim"] or bool(arr)
                        f["name"] = nm
                        fields.append(f)
                i += 1
            types.append({"name": m.group(1), "fields": fields})
            i += 1
            continue
        m = re.match(r"(?:[\w()=,* ]+\s)?(function|subroutine)\s+(\w+)\s*\(([^)]*)\)(.*)$", s, re.I)
        if m and "bind(c" in low.replace(" ", "") and not low.startswith("end"):
            kind, fname, arglist, rest = m.group(1).lower(), m.group(2).lower(), m.group(3), m.group(4)
            mb = re.search(r'name\s*=\s*"(\w+)"', rest)
            cname = mb.group(1) if mb else fname
            mr = re.search(r"result\s*\(\s*(\w+)\s*\)", rest, re.I)
            resname = mr.group(1).lower() if mr else fname
            args = [a.strip().lower() for a in arglist.split(",") if a.strip()]
            decls = {}
            externals = set()
            i += 1
            while not re.match(r"end\s+(function|subroutine)", stmts[i].lower()):
                st = stmts[i]
                if st.lower().startswith("external"):
                    for nm in st[8:].replace("::", "").split(","):
                        externals.add(nm.strip().lower())
                d = f_decl(st)
                if d:
                    tmpl, names = d
                    for nm, arr in names:
                        f = dict(tmpl)
                        if arr == "cfi":
                            f = frec("cfi")
                        else:
                            f["dim"] = f["dim"] or arr
                        decls[nm] = f
                i += 1
            fargs = []
            for a in args:
                if a in decls:
                    fargs.append(decls[a])
                elif a in externals:
                    fargs.append(frec("funptr", 8, True, False))
                else:
                    fargs.append(frec("unknown:undeclared", 0))
            if kind == "function":
                res = decls.get(resname, frec("unknown:result", 0))
                res = dict(res)
            else:
                res = frec("none")
            binds.append({"fname": fname, "cname": cname, "args": fargs, "result": res})
        i += 1
    return binds, types


# ---------------------------------------------------------------------------
# C

def strip_c(text):
    toks = lexers.lex_c(text)
    # drop preprocessor lines
    out = []
    skip = False
    for t in toks:
        if t == "#" and (not out or out[-1] == "<NL>" or True) and not skip:
            skip = True
            continue
        if skip:
            if t == "<NL>":
                skip = False
            continue
        if t == "<NL>":
            continue
        out.append(t)
    return out


QUALS = {"const", "volatile", "struct", "enum", "union", "static", "inline", "extern", "register", "restrict", "__restrict"}


def c_type(tokens, structs, enums, has_name=True):
    """tokens of one parameter / field / return type -> crec"""
    toks = [t for t in tokens if t not in ("const", "volatile", "restrict", "register", "static", "inline", "extern")]
    if "(" in toks and "*" in toks and toks.index("(") < len(toks) - 1 and toks[toks.index("(") + 1] == "*":
        return crec("funptr", 8, 0)
    ptr = toks.count("*")
    arr = "[" in toks
    if arr:
        toks = toks[:toks.index("[")]
        if ptr >= 1:
            ptr += 1        # an array of pointers in a parameter list is a pointer to pointers ([dcl.fct] adjustment)
    words = [t for t in toks if re.match(r"[A-Za-z_]\w*$", t)]
    is_enum = "enum" in words
    is_struct = "struct" in words
    words = [w for w in words if w not in ("struct", "enum", "union")]
    if has_name and len(words) >= 2:
        words = words[:-1]
    elif has_name and len(words) == 1 and ptr == 0 and words[0] not in C_BASE and not arr:
        pass
    base = "".join(w for w in words if w not in ("unsigned", "signed")) or "".join(words)
    if base == "" and words:
        base = "int"
    if is_enum or base in enums:
        return crec("int", 4, ptr, "", False)
    if base in C_BASE:
        cls, size = C_BASE[base]
        return crec(cls, size, ptr, "", arr and ptr == 0 and cls != "void")
    if is_struct or base in structs or True:
        return crec("struct", 0, ptr, base, False)


def split_top(tokens, sep=","):
    out, cur, depth = [], [], 0
    for t in tokens:
        if t in "([{":
            depth += 1
        elif t in ")]}":
            depth -= 1
        if t == sep and depth == 0:
            out.append(cur)
            cur = []
        else:
            cur.append(t)
    if cur:
        out.append(cur)
    return out


def read_c(text, structs=None, enums=None, definitions=False):
    """-> (functions, structs, enums). Function prototypes (and non-static definitions when asked)."""
    toks = strip_c(text)
    structs = dict(structs or {})
    enums = set(enums or ())
    funcs = []
    i, n = 0, len(toks)
    stmt = []
    depth = 0
    while i < n:
        t = toks[i]
        if t == "{" and depth == 0:
            # body of struct / enum / function / extern "C"
            head = stmt
            if head and head[0] == "extern" and len(head) >= 2 and head[1].startswith('"'):
                stmt = []
                i += 1
                continue       # extern "C" { : stay at depth 0
            # find matching brace
            j, d = i, 0
            while j < n:
                if toks[j] == "{":
                    d += 1
                elif toks[j] == "}":
                    d -= 1
                    if d == 0:
                        break
                j += 1
            body = toks[i + 1:j]
            if head and head[0] in ("struct", "typedef") and "(" not in head:
                name = [w for w in head if re.match(r"[A-Za-z_]\w*$", w) and w not in ("struct", "typedef")]
                fields = []
                for ft in split_top(body, ";"):
                    if not ft:
                        continue
                    if ft[0] == "union":
                        # union of pointers (SHROUD_array.addr)
                        fields.append(("union", ft))
                        continue
                    fields.append(("field", ft))
                if name:
                    structs[name[-1]] = fields
            elif head and head[0] == "enum" or (len(head) > 1 and head[0] == "typedef" and head[1] == "enum"):
                name = [w for w in head if re.match(r"[A-Za-z_]\w*$", w) and w not in ("enum", "typedef")]
                if name:
                    enums.add(name[-1])
            elif "(" in head and definitions and "static" not in head and "typedef" not in head:
                f = proto(head, structs, enums)
                if f:
                    funcs.append(f)
            stmt = []
            i = j + 1
            # typedef struct {...} NAME ;
            if head and head[0] == "typedef" and i < n:
                k = i
                nm = []
                while k < n and toks[k] != ";":
                    nm.append(toks[k])
                    k += 1
                if nm and head and "struct" in head:
                    structs[nm[-1]] = structs.get(name[-1], []) if name else fields
                i = k + 1
            continue
        if t == "}" and depth == 0:
            stmt = []
            i += 1
            continue
        if t == ";":
            if stmt:
                if stmt[0] == "typedef":
                    # typedef struct s_X X;  typedef enum e X;
                    words = [w for w in stmt if re.match(r"[A-Za-z_]\w*$", w)]
                    if "struct" in stmt and len(words) >= 3 and "(" not in stmt:
                        src = words[words.index("struct") + 1]
                        if src in structs:
                            structs[words[-1]] = structs[src]
                        else:
                            structs.setdefault(words[-1], None)
                            structs["__alias__" + words[-1]] = src
                    elif "enum" in stmt:
                        enums.add(words[-1])
                elif "(" in stmt and "static" not in stmt:
                    f = proto(stmt, structs, enums)
                    if f:
                        funcs.append(f)
            stmt = []
            i += 1
            continue
        stmt.append(t)
        i += 1
    return funcs, structs, enums


def proto(stmt, structs, enums):
    if "(" not in stmt:
        return None
    k = stmt.index("(")
    head = stmt[:k]
    if not head or not re.match(r"[A-Za-z_]\w*$", head[-1]):
        return None
    name = head[-1]
    rtoks = head[:-1]
    if not rtoks:
        return None
    # matching close paren
    d, j = 0, k
    while j < len(stmt):
        if stmt[j] == "(":
            d += 1
        elif stmt[j] == ")":
            d -= 1
            if d == 0:
                break
        j += 1
    ptoks = stmt[k + 1:j]
    params = []
    if ptoks and ptoks != ["void"]:
        for p in split_top(ptoks, ","):
            params.append(c_type(p, structs, enums, True))
    res = c_type(rtoks, structs, enums, False)
    return {"name": name, "params": params, "result": res}


def struct_layout(fields, structs, enums):
    out = []
    for kind, ft in fields or []:
        if kind == "union":
            out.append(crec("union_of_pointers", 8, 0))
            continue
        out.append(c_type(ft, structs, enums, True))
    return out
