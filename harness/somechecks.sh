# usage: sh harness/somechecks.sh <tier> C01 C05 ...
cd "$(dirname "$0")/.."
tier=$1; shift
for c in "$@"; do
  s=$(date +%s); out=$(./check $c $tier 2>&1); rc=$?; e=$(date +%s)
  echo "$c rc=$rc $((e-s))s $(echo "$out" | grep -c '^VIOLATION') viol $(echo "$out" | grep -c '^KNOWN-FINDING') known :: $(echo "$out" | tail -1 | cut -c1-150)"
  echo "$out" | grep '^VIOLATION' | head -5 | cut -c1-400
done
