---------------------------- MODULE MC_WrapSelect ----------------------------
(* Every configuration of flags / one override / directory assignment, with *)
(* every order in which the passes may write 0..2 files each.               *)
EXTENDS WrapSelect
B == BOOLEAN
Libs == {l \in [Langs -> B] : l["f"] => l["c"]}
NoOv == [has |-> FALSE, only |-> "all", c |-> FALSE, f |-> FALSE, py |-> FALSE, lua |-> FALSE]
Ovs == {NoOv} \cup {[has |-> TRUE, only |-> oo, c |-> cc, f |-> ff, py |-> pp, lua |-> FALSE] :
                      oo \in {"all", "cf"}, cc \in B, ff \in B, pp \in B}
DirSets == {[cf |-> "o", py |-> "o", lua |-> "o", yaml |-> "o"], [cf |-> "cf", py |-> "o", lua |-> "o", yaml |-> "o"],
            [cf |-> "cf", py |-> "py", lua |-> "lua", yaml |-> "y"]}
Cfgs == {[lib |-> l, decls |-> <<[name |-> "f1", ov |-> NoOv], [name |-> "f2", ov |-> o]>>, dirs |-> d] :
           l \in Libs, o \in {x \in Ovs : x.f => x.c}, d \in DirSets}
Files == {"a", "b"}
Init == \E c \in Cfgs : WInit(c)
Next == \/ \E k \in {"c", "f", "py", "lua"}, fn \in Files : [file |-> fn \o k, kind |-> k, dir |-> DirOf(k)] \notin written /\ Write(k, fn \o k, DirOf(k))
        \/ \E fn \in {"util"} : [file |-> fn, kind |-> "c", dir |-> DirOf("c")] \notin written /\ WriteUtil(fn, DirOf("c"))
        \/ NextPass
Spec == Init /\ [][Next]_wvars
=============================================================================
