SPECIFICATION Spec
CHECK_DEADLOCK FALSE
CONSTANTS
  MaxFuncs = 3
INVARIANT Complete
INVARIANT UniqueC
INVARIANT UniqueF
