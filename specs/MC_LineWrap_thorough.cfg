SPECIFICATION Spec
CHECK_DEADLOCK FALSE
CONSTANTS
  Mirror = TRUE
  Mode = "payload"
  Alphabet = {9, 12, 13, 32, 120, 121}
  MaxLen = 7
  LineLens = {1, 2, 3, 5, 8}
  Indents = {0, 1, 2}
  SpWs = {1, 4}
  Conts <- ContsBoth
  DAlphabet = {120}
  DLen = 1
  MaxItems = 1
INVARIANT TextPreserved
INVARIANT ContOnEveryBrokenLine
INVARIANT NoDirectiveLeak
INVARIANT WithinLength
INVARIANT BreaksOnlyAtHints
INVARIANT Refines
