SPECIFICATION TSpec
CHECK_DEADLOCK FALSE
CONSTANTS
  Vars = {"a", "b"}
  MaxObj = 12
INVARIANT AtMostOnce
