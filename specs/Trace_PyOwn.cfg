SPECIFICATION TSpec
CHECK_DEADLOCK FALSE
CONSTANTS
  Vars = {"a", "b", "c"}
  MaxObj = 12
INVARIANT AtMostOnce
