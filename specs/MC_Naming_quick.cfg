SPECIFICATION Spec
CHECK_DEADLOCK FALSE
CONSTANTS
  MaxFuncs = 2
INVARIANT Complete
INVARIANT UniqueC
INVARIANT UniqueF
