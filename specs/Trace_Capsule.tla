---------------------------- MODULE Trace_Capsule ----------------------------
(* Trace validation for C06: a sequence of wrapper calls made by a driver     *)
(* on real generated code (built with AddressSanitizer), with the handle      *)
(* contents after every call and the constructor / destructor events of the   *)
(* instrumented library.  Each call is replayed as the Capsule action of the  *)
(* same name; the library events and the handles must be what the action says.*)
EXTENDS Capsule, Json, IOUtils, TLCExt
Traces == JsonDeserialize(IOEnv.TRACE_FILE)
VARIABLES tid, fin, i, bad
T == Traces[tid]
TInit == tid \in 1..Len(Traces) /\ fin = FALSE /\ i = 1 /\ bad = <<>> /\ KInit

Act(e) == CASE e.op = "ctor" -> Ctor(e.h) [] e.op = "make" -> Make(e.h) [] e.op = "pooled" -> Pooled(e.h) [] e.op = "makearr" -> MakeArr(e.h) [] e.op = "borrow" -> Borrow(e.h)
            [] e.op = "clone" -> Clone(e.h, e.g) [] e.op = "method" -> Method(e.h) [] e.op = "copy" -> Copy(e.h, e.g)
            [] e.op = "dtor" -> Dtor(e.h) [] e.op = "release" -> Release(e.h)
SetOf(s) == {s[k] : k \in 1..Len(s)}
\* objects the library saw given back to its pool by this call
SeenPool(e) == {e.lib[k].id : k \in {j \in 1..Len(e.lib) : e.lib[j].ev = "pool"}}
\* judged on the state after the action (primed), against what was observed
Why(e) ==
  LET destroyed == {o \in 1..MaxObj : released'[o] > released[o]}
      created == {o \in 1..MaxObj : heap'[o].live /\ ~heap[o].live}
      seen_d == {e.lib[k].id : k \in {j \in 1..Len(e.lib) : e.lib[j].ev = "dtor"}}
      seen_c == {e.lib[k].id : k \in {j \in 1..Len(e.lib) : e.lib[j].ev = "ctor"}}
  IN IF seen_d \ destroyed # {} THEN <<"object destroyed that the call must not release", e.op, CHOOSE o \in seen_d \ destroyed : TRUE>>
     ELSE IF destroyed \ seen_d # {} THEN <<"object not released", e.op, CHOOSE o \in destroyed \ seen_d : TRUE>>
     ELSE IF Cardinality(seen_d) # Len(SelectSeq(e.lib, LAMBDA x : x.ev = "dtor")) THEN <<"object released twice by one call", e.op>>
     ELSE IF seen_c # created THEN <<"unexpected object construction", e.op>>
     ELSE IF \E h \in Handles : e.after[h].addr # hnd'[h].addr THEN
          <<"handle does not hold the expected object", e.op, CHOOSE h \in Handles : e.after[h].addr # hnd'[h].addr>>
     ELSE IF \E h \in Handles : e.after[h].idtor # hnd'[h].idtor THEN
          <<"handle carries the wrong release code", e.op, CHOOSE h \in Handles : e.after[h].idtor # hnd'[h].idtor,
            e.after[CHOOSE h \in Handles : e.after[h].idtor # hnd'[h].idtor].idtor>>
     ELSE IF SeenPool(e) # {o \in destroyed : how'[o][Len(how'[o])] = "pool"} THEN
          <<"memory released with the wrong deallocator", e.op>>
     ELSE <<>>

TStep ==
  /\ ~fin /\ bad = <<>> /\ i <= Len(T.events)
  /\ LET e == T.events[i] IN
     IF ENABLED Act(e)
     THEN /\ Act(e) /\ bad' = Why(e) /\ i' = i + 1
     ELSE /\ bad' = <<"driver made a call the caller may not make here", e.op>> /\ UNCHANGED <<kvars, i>>
  /\ UNCHANGED <<tid, fin>>

EndWhy == IF T.asan # "" THEN <<"memory error reported by the sanitizer", T.asan>>
          ELSE IF ~callerError /\ \E o \in 1..MaxObj : released[o] > 1 THEN <<"object released more than once">>
          ELSE IF ~callerError /\ released[LibObj] > 0 THEN <<"library-owned object was freed">>
          ELSE IF T.live # Cardinality({o \in 1..MaxObj : heap[o].live}) THEN
               <<"live objects at the end differ (leak or early release)", T.live, Cardinality({o \in 1..MaxObj : heap[o].live})>>
          ELSE <<>>
TVerdict == /\ ~fin /\ (bad # <<>> \/ i > Len(T.events)) /\ fin' = TRUE
            /\ PrintT(<<"VERDICT", tid>> \o
                 (IF bad # <<>> THEN <<"REJECT">> \o bad \o <<i - 1>>
                  ELSE IF callerError THEN <<"EXCLUDED", "the driver itself misused a handle">>
                  ELSE IF EndWhy # <<>> THEN <<"REJECT">> \o EndWhy
                  ELSE <<"ACCEPT", "ok">>))
            /\ UNCHANGED <<kvars, tid, i, bad>>
TSpec == TInit /\ [][TStep \/ TVerdict]_<<kvars, tid, fin, i, bad>>
=============================================================================
