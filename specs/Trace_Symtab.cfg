SPECIFICATION TSpec
CHECK_DEADLOCK FALSE
