---------------------------- MODULE MC_LuaDispatch ----------------------------
(* All stacks of <= 4 Lua values against an overload/default set: exactly one  *)
(* signature is selected, it is the first that matches, and selection depends  *)
(* only on the count and the Lua types.                                        *)
EXTENDS LuaDispatch
S(self) == [params |-> <<>>, nsup |-> 0, self |-> self, result |-> "int", resback |-> "id"]
Cands == << [target |-> "f()", sig |-> S(FALSE), ltypes |-> <<>>, ptys |-> <<>>],
            [target |-> "f(int)", sig |-> S(FALSE), ltypes |-> <<"number">>, ptys |-> <<"int">>],
            [target |-> "f(double)", sig |-> S(FALSE), ltypes |-> <<"number">>, ptys |-> <<"dbl">>],
            [target |-> "f(int,string)", sig |-> S(FALSE), ltypes |-> <<"number", "string">>, ptys |-> <<"int", "str">>],
            [target |-> "f(int,string,bool)", sig |-> S(FALSE), ltypes |-> <<"number", "string", "boolean">>, ptys |-> <<"int", "str", "bool">>] >>
MCands == << [target |-> "m()", sig |-> S(TRUE), ltypes |-> <<>>, ptys |-> <<>>],
             [target |-> "m(int)", sig |-> S(TRUE), ltypes |-> <<"number">>, ptys |-> <<"int">>] >>
Vals == {[t |-> "i", v |-> <<3>>], [t |-> "d", v |-> <<10>>], [t |-> "s", v |-> <<97>>], [t |-> "b", v |-> <<1>>],
         [t |-> "nil", v |-> <<>>], [t |-> "o", v |-> <<1>>]}
RECURSIVE Stacks(_)
Stacks(n) == IF n = 0 THEN {<<>>} ELSE Stacks(n - 1) \cup {Append(q, v) : q \in {x \in Stacks(n - 1) : Len(x) = n - 1}, v \in Vals}
VARIABLES cands, st
Init == cands \in {Cands, MCands} /\ st \in Stacks(4)
Next == UNCHANGED <<cands, st>>
Spec == Init /\ [][Next]_<<cands, st>>
Sel == Chosen(cands, st)
FirstMatch == Sel # 0 => (Accepts(cands[Sel], st) /\ \A j \in 1..(Sel - 1) : ~Accepts(cands[j], st))
TypesOnly == \A st2 \in {x \in Stacks(4) : Len(x) = Len(st)} :
                (\A j \in 1..Len(st) : LType(st2[j]) = LType(st[j])) => Chosen(cands, st2) = Sel
MethodNeedsObject == (cands = MCands /\ Sel # 0) => st[1].t = "o"
=============================================================================
