------------------------------ MODULE EmitOrder ------------------------------
(* Assembly of the generated files (property C05).                           *)
(*                                                                           *)
(* Part 1 -- helper closure.  A wrapper file requests helpers by name; every *)
(* helper lists the helpers it depends on and a scope ("file": static code   *)
(* in the wrapper source, "cwrap_include": the library-wide types header,    *)
(* "cwrap_impl": the library-wide utility source).  The generator visits the *)
(* requested names in sorted order, depth first, dependencies before the     *)
(* helper itself, each helper once (wrapc/wrapf/wrapp: _gather_helper_code). *)
(*                                                                           *)
(* Part 2 -- a library's build: Fortran modules are compiled in the order    *)
(* Shroud lists them, objects are linked together with the wrapped library.  *)
(* A module may only USE modules compiled before it; every external symbol   *)
(* is defined exactly once and every reference is resolved.                  *)
EXTENDS Naturals, Sequences, FiniteSets, TLC

----------------------------------------------------------------------------
\* Part 1.  deps: [name -> Seq(name)], names are 1..N (sorted order = numeric order)
RECURSIVE Visit(_, _, _), VisitAll(_, _, _)
VisitAll(ns, st, deps) == IF ns = <<>> THEN st ELSE VisitAll(Tail(ns), Visit(Head(ns), st, deps), deps)
Visit(n, st, deps) ==
  IF n \in st.done THEN st
  ELSE LET s1 == [st EXCEPT !.done = @ \cup {n}]
           s2 == VisitAll(deps[n], s1, deps)
       IN [s2 EXCEPT !.out = Append(@, n)]

RECURSIVE SortedSeq(_)
SortedSeq(S) == IF S = {} THEN <<>> ELSE LET m == CHOOSE x \in S : \A y \in S : x <= y IN <<m>> \o SortedSeq(S \ {m})

Gather(req, deps) == VisitAll(SortedSeq(req), [done |-> {}, out |-> <<>>], deps).out
\* what lands in each scope, in order
RECURSIVE Filter(_, _, _)
Filter(s, scope, sc) == IF s = <<>> THEN <<>>
                        ELSE (IF scope[Head(s)] = sc THEN <<Head(s)>> ELSE <<>>) \o Filter(Tail(s), scope, sc)

RECURSIVE Reach(_, _)
Reach(S, deps) == LET T == S \cup UNION {{deps[n][k] : k \in 1..Len(deps[n])} : n \in S}
                  IN IF T = S THEN S ELSE Reach(T, deps)
Pos(s, x) == CHOOSE k \in 1..Len(s) : s[k] = x
\* properties of the emitted order
Closure(req, deps) == {Gather(req, deps)[k] : k \in 1..Len(Gather(req, deps))} = Reach(req, deps)
Once(req, deps) == LET g == Gather(req, deps) IN \A a, b \in 1..Len(g) : g[a] = g[b] => a = b
DepsFirst(req, deps) == LET g == Gather(req, deps) IN
   \A k \in 1..Len(g) : \A j \in 1..Len(deps[g[k]]) :
      \E m \in 1..Len(g) : g[m] = deps[g[k]][j] /\ m < k

----------------------------------------------------------------------------
\* Part 2.
VARIABLES modules,     \* Fortran modules compiled so far
          defined,     \* strong external definitions: symbol -> object that defines it
          weak,        \* weak definitions (inline functions, templates)
          wanted,      \* <<object, symbol>> references still to be resolved
          guards,      \* include guard macro -> header
          faults
evars == <<modules, defined, weak, wanted, guards, faults>>
EInit == /\ modules = {} /\ defined = {} /\ weak = {} /\ wanted = {} /\ guards = {} /\ faults = <<>>

Fault(f) == faults' = Append(faults, f)
\* intrinsic: modules the compiler provides; external: modules of the wrapped library itself
CompileModule(e) ==
  LET missing == {u \in e.uses : u \notin modules \cup e.provided} IN
  /\ modules' = modules \cup e.names
  /\ IF missing # {} THEN Fault(<<"module used before it is compiled", e.file, missing>>)
     ELSE IF e.names \cap modules # {} THEN Fault(<<"module written twice", e.file, e.names \cap modules>>)
     ELSE UNCHANGED faults
  /\ UNCHANGED <<defined, weak, wanted, guards>>
DefOf(s) == CHOOSE d \in defined : d[1] = s
LinkObject(e) ==
  LET dup == {s \in e.defs : \E d \in defined : d[1] = s} IN
  /\ defined' = defined \cup {<<s, e.file>> : s \in e.defs}
  /\ weak' = weak \cup e.weak
  /\ wanted' = wanted \cup {<<e.file, s>> : s \in e.undefs}
  /\ IF dup # {} THEN Fault(<<"symbol defined twice", e.file, dup, {DefOf(s)[2] : s \in dup}>>) ELSE UNCHANGED faults
  /\ UNCHANGED <<modules, guards>>
Header(e) ==
  /\ guards' = guards \cup {<<e.guard, e.file>>}
  /\ IF e.guard = "" THEN Fault(<<"header without include guard", e.file>>)
     ELSE IF \E g \in guards : g[1] = e.guard /\ g[2] # e.file THEN Fault(<<"include guard shared by two headers", e.file, e.guard>>)
     ELSE UNCHANGED faults
  /\ UNCHANGED <<modules, defined, weak, wanted>>
Unresolved == {w \in wanted : ~(\E d \in defined : d[1] = w[2]) /\ w[2] \notin weak}
FinishLink == /\ IF Unresolved # {} THEN Fault(<<"undefined symbol", Unresolved>>) ELSE UNCHANGED faults
              /\ UNCHANGED <<modules, defined, weak, wanted, guards>>
=============================================================================
