---------------------------- MODULE Trace_Naming ----------------------------
(* Trace validation for C08: the declared functions of one scope and the     *)
(* name tables read back from the files a real Shroud run generated.        *)
EXTENDS Naming, Json, IOUtils, TLCExt
LOCAL INSTANCE Text

Traces == JsonDeserialize(IOEnv.TRACE_FILE)
VARIABLES tid, fin
T == Traces[tid]

TInit == tid \in 1..Len(Traces) /\ fin = FALSE /\ NInit(Traces[tid].funcs)
TStep == ~fin /\ phase # "done" /\ NNext /\ UNCHANGED <<tid, fin>>

SetOf(s) == {s[i] : i \in 1..Len(s)}
Inj(s) == Cardinality(SetOf(s)) = Len(s)
Col(rows, f(_)) == [i \in 1..Len(rows) |-> f(rows[i])]

CSigs == Col(T.crows, LAMBDA r : [name |-> r.name, params |-> r.params])
FSigs == Col(T.frows, LAMBDA r : [name |-> r.name, params |-> r.params])
FNamesOf(n) == {T.frows[i].fname : i \in {j \in 1..Len(T.frows) : T.frows[j].name = n}}
AllNames == {funcs[i].name : i \in 1..Len(funcs)}

GenericsOK ==
  /\ \A n \in AllNames : Cardinality(FNamesOf(n)) > 1 =>
        \E g \in 1..Len(T.generics) : SetOf(T.generics[g].members) = FNamesOf(n)
  /\ \A g \in 1..Len(T.generics) : \E n \in AllNames : SetOf(T.generics[g].members) \subseteq FNamesOf(n)
  /\ \A g \in 1..Len(T.generics) : Inj(T.generics[g].members)

Predictable ==
  \A i \in 1..Len(T.crows) :
     IsPrefixOfT(T.cprefix \o UnCamel(T.crows[i].name_cp), T.crows[i].cname_cp)
FPredictable ==
  \A i \in 1..Len(T.frows) :
     IsPrefixOfT(T.fprefix \o UnCamel(T.frows[i].name_cp), T.frows[i].fname_cp)

\* a generic interface is named like its functions: scope + underscore name (docs/reference.rst F_name_generic)
GenericNamed ==
  "gprefix" \in DOMAIN T =>
     \A g \in 1..Len(T.generics) : T.generics[g].gname_cp = T.gprefix \o UnCamel(T.generics[g].name_cp)

\* scopes whose fortran_generic entries change the rank of an argument get one more C entry point per such
\* entry (same C parameter types): the signature-level clauses do not apply, the name-level clauses do
Relaxed == "relaxed" \in DOMAIN T /\ T.relaxed
\* method tables: Python has one entry per C++ name (overloads, default arguments and template instantiations are
\* dispatched inside it); a function that stands alone keeps its function_suffix.  Lua has one entry per name.
CountName(n) == Cardinality({i \in 1..Len(funcs) : funcs[i].name = n})
PyNameOf(f) == IF CountName(f.name) = 1 /\ f.ndef = 0 /\ f.insts = <<>> THEN f.name \o f.sfx ELSE f.name
ExpectedPy == {PyNameOf(funcs[i]) : i \in 1..Len(funcs)}
Verdict ==
  IF ~Relaxed /\ SetOf(CSigs) # ExpectedC THEN
       <<"REJECT", "C entry points do not match the callable signatures",
         IF ExpectedC \ SetOf(CSigs) # {} THEN CHOOSE x \in ExpectedC \ SetOf(CSigs) : TRUE
         ELSE CHOOSE x \in SetOf(CSigs) \ ExpectedC : TRUE>>
  ELSE IF ~Relaxed /\ ~Inj(CSigs) THEN <<"REJECT", "more than one C entry point for a callable signature">>
  ELSE IF ~Inj(Col(T.crows, LAMBDA r : r.cname)) THEN <<"REJECT", "two C entry points share a name">>
  ELSE IF ~Relaxed /\ SetOf(FSigs) # ExpectedF THEN
       <<"REJECT", "Fortran specifics do not match the callable signatures",
         IF ExpectedF \ SetOf(FSigs) # {} THEN CHOOSE x \in ExpectedF \ SetOf(FSigs) : TRUE
         ELSE CHOOSE x \in SetOf(FSigs) \ ExpectedF : TRUE>>
  ELSE IF ~Relaxed /\ ~Inj(FSigs) THEN <<"REJECT", "more than one Fortran specific for a callable signature">>
  ELSE IF ~Inj(Col(T.frows, LAMBDA r : r.fname)) THEN <<"REJECT", "two Fortran specifics share a name">>
  ELSE IF \E i \in 1..Len(T.frows) : ~\E j \in 1..Len(T.crows) :
             T.crows[j].cname = T.frows[i].cname /\ T.crows[j].name = T.frows[i].name
       THEN <<"REJECT", "a Fortran specific binds to the C entry point of another function">>
  ELSE IF ~GenericsOK THEN <<"REJECT", "generic interface does not list exactly the specifics of its name">>
  ELSE IF ~Predictable THEN <<"REJECT", "C name does not follow prefix + scope + underscore name">>
  ELSE IF ~FPredictable THEN <<"REJECT", "Fortran name does not follow scope + underscore name">>
  ELSE IF ~GenericNamed THEN <<"REJECT", "generic interface is not named scope + underscore name">>
  ELSE IF ~Inj(T.py) THEN <<"REJECT", "Python method table has a duplicate entry">>
  ELSE IF ~Relaxed /\ T.py # <<>> /\ SetOf(T.py) # ExpectedPy THEN
       <<"REJECT", "Python method table does not list the documented names", SetOf(T.py), ExpectedPy>>
  ELSE IF ~Relaxed /\ T.lua # <<>> /\ SetOf(T.lua) # AllNames THEN
       <<"REJECT", "Lua method table does not list one entry per name", SetOf(T.lua), AllNames>>
  ELSE IF ~Inj(T.lua) THEN <<"REJECT", "Lua method table has a duplicate entry">>
  ELSE <<"ACCEPT", "ok">>

TVerdict == /\ ~fin /\ phase = "done" /\ fin' = TRUE
            /\ PrintT(<<"VERDICT", tid>> \o Verdict)
            /\ UNCHANGED <<nvars, tid>>
TSpec == TInit /\ [][TStep \/ TVerdict]_<<nvars, tid, fin>>
=============================================================================
