SPECIFICATION Spec
CHECK_DEADLOCK FALSE
CONSTANTS
  Libs = {"cxx_classes", "c_structs", "cxx_strings", "cxx_templates"}
  Regs = {"typedict", "fc_statements", "cf_tree", "py_statements", "lua_statements", "chelpers", "fhelpers", "capsule"}
  MaxRuns = 3
INVARIANT Pure
INVARIANT NoForeignAtEmit
CONSTRAINT Bound
