----------------------------- MODULE WrapSelect -----------------------------
(* Wrapper selection and file lists (property C15).                         *)
(*                                                                          *)
(* A configuration: library-level flags, per-declaration overrides, the     *)
(* five output directories.  The run is a sequence of emitter passes in the *)
(* order of main.main_with_args (C, Fortran, C utility, Python, Lua, file    *)
(* lists); each pass writes files of its kind into the directory designated *)
(* for that kind and registers C/C++ and Fortran files in the lists.        *)
EXTENDS Naturals, Sequences, FiniteSets, TLC

Langs == {"c", "f", "py", "lua"}
\* cfg: [lib |-> [c,f,py,lua |-> BOOLEAN], decls |-> Seq([name, ov |-> [has, only, c, f, py, lua]]),
\*       dirs |-> [cf, py, lua, yaml |-> dir name]]
VARIABLES cfg, pc, written, cfiles, ffiles

wvars == <<cfg, pc, written, cfiles, ffiles>>

\* effective flag of a declaration: its own override, else the library's
\* (an override may set only the C/Fortran flags: ov.only = "cf")
Eff(d, k) == IF d.ov.has /\ (d.ov.only = "all" \/ k \in {"c", "f"}) THEN d.ov[k] ELSE cfg.lib[k]
\* a language is produced when some declaration wants it (flags are promoted to the library)
On(k) == \E i \in 1..Len(cfg.decls) : Eff(cfg.decls[i], k)
DirOf(kind) == CASE kind \in {"c", "f"} -> cfg.dirs.cf [] kind = "py" -> cfg.dirs.py
                 [] kind = "lua" -> cfg.dirs.lua [] kind = "yaml" -> cfg.dirs.yaml

WInit(c) == cfg = c /\ pc = "c" /\ written = {} /\ cfiles = <<>> /\ ffiles = <<>>

\* one file written by the pass whose turn it is
Write(kind, fname, dir) ==
  /\ pc = kind /\ On(kind)
  /\ dir = DirOf(kind)
  /\ written' = written \cup {[file |-> fname, kind |-> kind, dir |-> dir]}
  /\ cfiles' = IF kind = "c" THEN Append(cfiles, <<dir, fname>>) ELSE cfiles
  /\ ffiles' = IF kind = "f" THEN Append(ffiles, <<dir, fname>>) ELSE ffiles
  /\ UNCHANGED <<cfg, pc>>

NextPass == /\ pc \in {"c", "f", "util", "py", "lua"}
            /\ pc' = CASE pc = "c" -> "f" [] pc = "f" -> "util" [] pc = "util" -> "py" [] pc = "py" -> "lua"
                       [] pc = "lua" -> "done"
            /\ UNCHANGED <<cfg, written, cfiles, ffiles>>
\* the C utility file belongs to the C kind and is written after the Fortran pass
WriteUtil(fname, dir) ==
  /\ pc = "util" /\ On("c")
  /\ dir = DirOf("c")
  /\ written' = written \cup {[file |-> fname, kind |-> "c", dir |-> dir]}
  /\ cfiles' = Append(cfiles, <<dir, fname>>)
  /\ UNCHANGED <<cfg, pc, ffiles>>

OffMeansNoFiles == \A w \in written : On(w.kind)
InItsDirectory == \A w \in written : w.dir = DirOf(w.kind)
ListsExact ==
  /\ {cfiles[i] : i \in 1..Len(cfiles)} = {<<w.dir, w.file>> : w \in {x \in written : x.kind = "c"}}
  /\ {ffiles[i] : i \in 1..Len(ffiles)} = {<<w.dir, w.file>> : w \in {x \in written : x.kind = "f"}}
  /\ Cardinality({cfiles[i] : i \in 1..Len(cfiles)}) = Len(cfiles)
  /\ Cardinality({ffiles[i] : i \in 1..Len(ffiles)}) = Len(ffiles)
=============================================================================
