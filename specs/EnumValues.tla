----------------------------- MODULE EnumValues -----------------------------
(* Enumeration values (property C11).                                       *)
(*                                                                          *)
(* An enumeration is a sequence of members; a member's value is absent      *)
(* (implicit increment) or an expression tree over integer literals,        *)
(* references to earlier members, unary + -, binary + - * /, parentheses.   *)
(*                                                                          *)
(*  TrueVal   what a C++ compiler assigns (EvalCxx, truncating division);   *)
(*  Derive    the derivation Shroud performs, on *token sequences*, one     *)
(*            action per member, mirroring ast.EnumNode.__init__:           *)
(*            integer fast path, expression path with base/incr, the C      *)
(*            side only writing explicit values, the Fortran side always;   *)
(*  EvalTok   a precedence-climbing evaluator for emitted token sequences   *)
(*            (C and Fortran agree on + - * / over integers).               *)
(* Properties: the value the C compiler derives from the emitted C header   *)
(* and the value of every emitted Fortran parameter equal TrueVal.          *)
EXTENDS Integers, Sequences, FiniteSets, TLC

-----------------------------------------------------------------------------
(* expression trees *)
Lit(n)        == [op |-> "lit", v |-> n]
Ref(i)        == [op |-> "ref", v |-> i]
Un(o, a)      == [op |-> o, a |-> a]                 \* o in {"neg","pos","paren"}
Bin(o, a, b)  == [op |-> o, a |-> a, b |-> b]        \* o in {"+","-","*","/"}

Abs(x) == IF x < 0 THEN -x ELSE x
DivTrunc(a, b) == IF (a < 0) = (b < 0) THEN Abs(a) \div Abs(b) ELSE -(Abs(a) \div Abs(b))

ERR == [ok |-> FALSE, v |-> 0]
OK(v) == [ok |-> TRUE, v |-> v]

RECURSIVE EvalCxx(_, _)
EvalCxx(e, env) ==           \* env: values of earlier members
  CASE e.op = "lit" -> OK(e.v)
    [] e.op = "ref" -> IF e.v \in 1..Len(env) THEN OK(env[e.v]) ELSE ERR
    [] e.op = "neg" -> LET a == EvalCxx(e.a, env) IN IF a.ok THEN OK(-a.v) ELSE ERR
    [] e.op \in {"pos", "paren"} -> EvalCxx(e.a, env)
    [] OTHER ->
        LET a == EvalCxx(e.a, env)
            b == EvalCxx(e.b, env)
        IN IF ~a.ok \/ ~b.ok THEN ERR
           ELSE CASE e.op = "+" -> OK(a.v + b.v)
                  [] e.op = "-" -> OK(a.v - b.v)
                  [] e.op = "*" -> OK(a.v * b.v)
                  [] e.op = "/" -> IF b.v = 0 THEN ERR ELSE OK(DivTrunc(a.v, b.v))

\* members: sequence of [has |-> BOOLEAN, e |-> tree]
RECURSIVE TrueVals(_, _)
TrueVals(ms, k) ==           \* values of members 1..k  (sequence of OK/ERR records' values; <<>> on error)
  IF k = 0 THEN [ok |-> TRUE, vs |-> <<>>]
  ELSE LET p == TrueVals(ms, k - 1) IN
       IF ~p.ok THEN p
       ELSE IF ~ms[k].has
            THEN [ok |-> TRUE, vs |-> Append(p.vs, IF k = 1 THEN 0 ELSE p.vs[k - 1] + 1)]
            ELSE LET r == EvalCxx(ms[k].e, p.vs) IN
                 IF r.ok THEN [ok |-> TRUE, vs |-> Append(p.vs, r.v)] ELSE [ok |-> FALSE, vs |-> <<>>]

-----------------------------------------------------------------------------
(* tokens:  [t |-> "num", v]  [t |-> "id", v (member index)]  [t |-> "op", v \in + - * / ( )] *)
Num(n) == [t |-> "num", v |-> n]
Id(i)  == [t |-> "id", v |-> i]
Op(o)  == [t |-> "op", v |-> o]

RECURSIVE PrintE(_)
PrintE(e) ==                  \* todict.PrintNode: infix, no blanks, identifiers renamed per side
  CASE e.op = "lit" -> <<Num(e.v)>>
    [] e.op = "ref" -> <<Id(e.v)>>
    [] e.op = "neg" -> <<Op("-")>> \o PrintE(e.a)
    [] e.op = "pos" -> <<Op("+")>> \o PrintE(e.a)
    [] e.op = "paren" -> <<Op("(")>> \o PrintE(e.a) \o <<Op(")")>>
    [] OTHER -> PrintE(e.a) \o <<Op(e.op)>> \o PrintE(e.b)

IntTokens(n) == IF n < 0 THEN <<Op("-"), Num(-n)>> ELSE <<Num(n)>>

\* the text forms Python's int() accepts: a literal with at most one sign
IsIntText(e) == e.op = "lit" \/ (e.op \in {"neg", "pos"} /\ e.a.op = "lit")
IntOf(e) == IF e.op = "lit" THEN e.v ELSE IF e.op = "neg" THEN -e.a.v ELSE e.a.v

(* precedence climbing over a token sequence; results [ok, v, p] *)
TERR == [ok |-> FALSE, v |-> 0, p |-> 0]
IsOp(ts, p, o) == p <= Len(ts) /\ ts[p].t = "op" /\ ts[p].v = o

RECURSIVE PExpr(_, _, _), PTerm(_, _, _), PFactor(_, _, _), PExprLoop(_, _, _, _), PTermLoop(_, _, _, _)
PFactor(ts, p, env) ==
  IF p > Len(ts) THEN TERR
  ELSE IF ts[p].t = "num" THEN [ok |-> TRUE, v |-> ts[p].v, p |-> p + 1]
  ELSE IF ts[p].t = "id" THEN
         IF ts[p].v \in 1..Len(env) THEN [ok |-> TRUE, v |-> env[ts[p].v], p |-> p + 1] ELSE TERR
  ELSE IF IsOp(ts, p, "(") THEN
         LET r == PExpr(ts, p + 1, env) IN
         IF r.ok /\ IsOp(ts, r.p, ")") THEN [ok |-> TRUE, v |-> r.v, p |-> r.p + 1] ELSE TERR
  ELSE IF IsOp(ts, p, "-") THEN
         LET r == PFactor(ts, p + 1, env) IN IF r.ok THEN [ok |-> TRUE, v |-> -r.v, p |-> r.p] ELSE TERR
  ELSE IF IsOp(ts, p, "+") THEN PFactor(ts, p + 1, env)
  ELSE TERR
PTermLoop(ts, acc, p, env) ==
  IF IsOp(ts, p, "*") \/ IsOp(ts, p, "/") THEN
     LET r == PFactor(ts, p + 1, env) IN
     IF ~r.ok THEN TERR
     ELSE IF ts[p].v = "*" THEN PTermLoop(ts, acc * r.v, r.p, env)
     ELSE IF r.v = 0 THEN TERR ELSE PTermLoop(ts, DivTrunc(acc, r.v), r.p, env)
  ELSE [ok |-> TRUE, v |-> acc, p |-> p]
PTerm(ts, p, env) == LET r == PFactor(ts, p, env) IN IF r.ok THEN PTermLoop(ts, r.v, r.p, env) ELSE TERR
PExprLoop(ts, acc, p, env) ==
  IF IsOp(ts, p, "+") \/ IsOp(ts, p, "-") THEN
     LET r == PTerm(ts, p + 1, env) IN
     IF ~r.ok THEN TERR
     ELSE PExprLoop(ts, IF ts[p].v = "+" THEN acc + r.v ELSE acc - r.v, r.p, env)
  ELSE [ok |-> TRUE, v |-> acc, p |-> p]
PExpr(ts, p, env) == LET r == PTerm(ts, p, env) IN IF r.ok THEN PExprLoop(ts, r.v, r.p, env) ELSE TERR

EvalTok(ts, env) == LET r == PExpr(ts, 1, env) IN
                    IF r.ok /\ r.p = Len(ts) + 1 THEN OK(r.v) ELSE ERR

-----------------------------------------------------------------------------
(* values a compiler derives from emitted text *)
\* cout[i]: [has |-> BOOLEAN, ts |-> tokens]   (C: only explicit members carry text)
RECURSIVE CVals(_, _)
CVals(cout, k) ==
  IF k = 0 THEN [ok |-> TRUE, vs |-> <<>>]
  ELSE LET p == CVals(cout, k - 1) IN
       IF ~p.ok THEN p
       ELSE IF ~cout[k].has THEN [ok |-> TRUE, vs |-> Append(p.vs, IF k = 1 THEN 0 ELSE p.vs[k - 1] + 1)]
       ELSE LET r == EvalTok(cout[k].ts, p.vs) IN
            IF r.ok THEN [ok |-> TRUE, vs |-> Append(p.vs, r.v)] ELSE [ok |-> FALSE, vs |-> <<>>]
\* fout[i]: tokens (Fortran: every parameter has an initialisation expression)
RECURSIVE FVals(_, _)
FVals(fout, k) ==
  IF k = 0 THEN [ok |-> TRUE, vs |-> <<>>]
  ELSE LET p == FVals(fout, k - 1) IN
       IF ~p.ok THEN p
       ELSE LET r == EvalTok(fout[k], p.vs) IN
            IF r.ok THEN [ok |-> TRUE, vs |-> Append(p.vs, r.v)] ELSE [ok |-> FALSE, vs |-> <<>>]

-----------------------------------------------------------------------------
(* Shroud's derivation, one action per member *)
VARIABLES members, k,              \* the enumeration, next member to derive
          isint, cint, cbase, fbase, incr,   \* loop state of EnumNode.__init__
          cout, fout                \* emitted C and Fortran value text so far

dvars == <<members, k, isint, cint, cbase, fbase, incr, cout, fout>>

DInit(ms) ==
  /\ members = ms /\ k = 1
  /\ isint = TRUE /\ cint = 0 /\ cbase = <<>> /\ fbase = <<>> /\ incr = 0
  /\ cout = <<>> /\ fout = <<>>

Derive ==
  /\ k <= Len(members)
  /\ LET m == members[k] IN
     IF m.has /\ IsIntText(m.e) THEN
        \* cvalue = int(text); C_value and F_value are that integer; next = value + 1
        /\ cout' = Append(cout, [has |-> TRUE, ts |-> IntTokens(IntOf(m.e))])
        /\ fout' = Append(fout, IntTokens(IntOf(m.e)))
        /\ isint' = TRUE /\ cint' = IntOf(m.e) + 1
        /\ UNCHANGED <<cbase, fbase, incr>>
     ELSE IF m.has THEN
        \* expression: printed with the side's member names; base for later implicit members
        /\ cout' = Append(cout, [has |-> TRUE, ts |-> PrintE(m.e)])
        /\ fout' = Append(fout, PrintE(m.e))
        /\ isint' = FALSE /\ cbase' = PrintE(m.e) /\ fbase' = PrintE(m.e) /\ incr' = 1
        /\ UNCHANGED cint
     ELSE IF isint THEN
        /\ cout' = Append(cout, [has |-> FALSE, ts |-> <<>>])
        /\ fout' = Append(fout, IntTokens(cint))
        /\ cint' = cint + 1
        /\ UNCHANGED <<isint, cbase, fbase, incr>>
     ELSE
        /\ cout' = Append(cout, [has |-> FALSE, ts |-> <<>>])
        /\ fout' = Append(fout, fbase \o <<Op("+"), Num(incr)>>)
        /\ incr' = incr + 1
        /\ UNCHANGED <<isint, cint, cbase, fbase>>
  /\ k' = k + 1
  /\ UNCHANGED members

Done == k > Len(members)

\* properties (on enumerations whose C++ meaning is defined: no division by zero)
Defined == TrueVals(members, Len(members)).ok
CKeepsValues == (Done /\ Defined) =>
   LET c == CVals(cout, Len(members)) IN c.ok /\ c.vs = TrueVals(members, Len(members)).vs
FKeepsValues == (Done /\ Defined) =>
   LET f == FVals(fout, Len(members)) IN f.ok /\ f.vs = TrueVals(members, Len(members)).vs
PrefixKeepsValues ==     \* also at every intermediate step
   Defined => LET n == k - 1 IN
              /\ FVals(fout, n).ok /\ FVals(fout, n).vs = TrueVals(members, n).vs
              /\ CVals(cout, n).ok /\ CVals(cout, n).vs = TrueVals(members, n).vs
=============================================================================
