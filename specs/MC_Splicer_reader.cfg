SPECIFICATION Spec
CHECK_DEADLOCK FALSE
CONSTANTS
  Mode = "reader"
  MaxLines = 5
  MaxOps = 0
  Names = {"a", "b"}
INVARIANT ReaderOK
INVARIANT NoOtherError
INVARIANT Precedence
