SPECIFICATION MSpec
CONSTANTS
  Obj = {1, 2}
  Member = {"value", "ro", "alt"}
  ReadOnly = {"ro"}
  Val = {1, 2, 3}
INVARIANT TypeOK
PROPERTY OneCell
PROPERTY ReadOnlyKept
