--------------------------- MODULE MC_DeclGrammar ---------------------------
(* Every derivation below a bound through the phase machine.                *)
EXTENDS DeclGrammar
CONSTANTS Bases, MaxLevels, MaxParams

NoCv == [c |-> FALSE, v |-> FALSE, post |-> FALSE]
Cqs == {NoCv, [c |-> TRUE, v |-> FALSE, post |-> FALSE], [c |-> TRUE, v |-> FALSE, post |-> TRUE],
        [c |-> FALSE, v |-> TRUE, post |-> FALSE], [c |-> TRUE, v |-> TRUE, post |-> TRUE]}
Lvl == {[p |-> pp, c |-> cc, v |-> FALSE] : pp \in {"*", "&"}, cc \in BOOLEAN}
RECURSIVE Chains(_)
Chains(n) == IF n = 0 THEN {<<>>}
             ELSE LET P == Chains(n - 1) IN P \cup {Append(q, l) : q \in {x \in P : Len(x) = n - 1}, l \in Lvl}
NoIni == [has |-> FALSE, v |-> ""]
Mk(b, cq, lv, kind, nm, ps, fc, dims, at, ini) ==
  [st |-> "", cq |-> cq, base |-> b, lv |-> lv, kind |-> kind, nm |-> nm, ps |-> ps, fc |-> fc,
   dims |-> dims, at |-> at, ini |-> ini]
Params == {Mk(b, cq, lv, k, "a", <<>>, FALSE, <<>>, at, NoIni) :
             b \in {"int", "string"}, cq \in {NoCv, [c |-> TRUE, v |-> FALSE, post |-> FALSE]},
             lv \in Chains(1), k \in {"var", "abs"},
             at \in {<<>>, <<[n |-> "intent", k |-> "paren", v |-> "in"]>>}}
          \cup {Mk("void", NoCv, <<>>, "abs", "", <<>>, FALSE, <<>>, <<>>, NoIni)}
ParamLists == {<<>>} \cup (IF MaxParams >= 1 THEN {<<p>> : p \in Params} ELSE {<<[q EXCEPT !.nm = "b"]>> : q \in {r \in Params : r.base = "int" /\ r.lv = <<>>}}) \cup (IF MaxParams >= 2 THEN {<<p, q>> : p \in Params, q \in Params} ELSE {})

Vars == {Mk(b, cq, lv, "var", "x", <<>>, FALSE, dims, <<>>, ini) :
           b \in Bases, cq \in Cqs, lv \in Chains(MaxLevels), dims \in {<<>>, <<3>>, <<2, 3>>},
           ini \in {NoIni, [has |-> TRUE, v |-> "1"]}}
Funcs == {Mk(b, NoCv, lv, k, "f", ps, fc, <<>>, <<>>, NoIni) :
           b \in {"void", "int"}, lv \in Chains(1), k \in {"func", "fptr"}, ps \in ParamLists, fc \in BOOLEAN}

Init == \E d \in Vars \cup Funcs : GInit(d)
Spec == Init /\ [][GNext]_gvars
\* renderings keep the pointer structure of the sentence
SameShape == phase = "done" =>
   /\ Count(CxxTok(D, TRUE), "*") = Count(Tokens(D), "*")
   /\ Count(CxxTok(D, TRUE), "&") = Count(Tokens(D), "&")
   /\ (D.at = <<>> /\ \A i \in 1..Len(D.ps) : D.ps[i].at = <<>>) =>
         Count(CxxTok(D, TRUE), "const") = Count(Tokens(D), "const")
=============================================================================
