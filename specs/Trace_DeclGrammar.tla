-------------------------- MODULE Trace_DeclGrammar --------------------------
(* Trace validation for C09 (and the "documented grammar is accepted" half  *)
(* of C17): a derivation D chosen by the harness, the sentence it was        *)
(* rendered to, and what the real parser / unparsers did with it.            *)
EXTENDS DeclGrammar, Json, IOUtils, TLCExt

Traces == JsonDeserialize(IOEnv.TRACE_FILE)
VARIABLES tid, fin
T == Traces[tid]

TInit == tid \in 1..Len(Traces) /\ fin = FALSE /\ GInit(Traces[tid].D)
TStep == ~fin /\ phase # "done" /\ GNext /\ UNCHANGED <<tid, fin>>

\* observed projections arrive as JSON: attribute lists become sets, recursively
RECURSIVE Norm(_)
Norm(p) == [p EXCEPT !.attrs = {p.attrs[i] : i \in 1..Len(p.attrs)},
                     !.params = [i \in 1..Len(p.params) |-> Norm(p.params[i])]]

Fields == <<"const", "volatile", "storage", "spec", "tmpl", "type", "hasdecl", "ptrs", "name", "func",
            "hasparams", "params", "fconst", "array", "attrs", "init">>
FirstDiff(a, b) == LET d == {i \in 1..Len(Fields) : a[Fields[i]] # b[Fields[i]]}
                   IN IF d = {} THEN "" ELSE Fields[CHOOSE i \in d : \A j \in d : i <= j]

\* gen_arg_as_cxx spells template arguments only for the declaration itself; for a parameter
\* whose type is a template instance it gives the element type (documented wrapper convention)
TmplParam == \E i \in 1..Len(D.ps) : BaseTmpl(D.ps[i].base) # <<>>

Verdict ==
  LET e == Proj(D) IN
  IF T.toks # Tokens(D) THEN <<"BADTREE", "harness text is not the sentence of the derivation">>
  ELSE IF T.outcome # "ok" THEN <<"REJECT", "declaration of the documented grammar not accepted", T.outcome>>
  ELSE IF FirstDiff(Norm(T.proj), e) # "" THEN
       <<"REJECT", "parsed declaration differs from its C++ meaning in field", FirstDiff(Norm(T.proj), e)>>
  ELSE IF TmplParam /\ T.cxx # CxxTok(D, TRUE) THEN <<"ACCEPT", "rendering of template-instance parameters not compared">>
  ELSE IF T.cxx # CxxTok(D, TRUE) /\ D.cq.v /\ T.cxx = CxxTok([D EXCEPT !.cq.v = FALSE], TRUE)
       THEN <<"REJECT", "top-level volatile dropped from the C++ rendering">>
  ELSE IF T.cxx # CxxTok(D, TRUE) THEN <<"REJECT", "C++ rendering differs from the declaration">>
  ELSE IF AllNative(D) /\ T.c # CTok(D, TRUE) THEN <<"REJECT", "C rendering is not the C counterpart of the declaration", T.c>>
  ELSE IF ~D.ini.has /\ T.reparse.outcome # "ok" THEN <<"REJECT", "own rendering is not accepted back", T.reparse.outcome>>
  ELSE IF ~D.ini.has /\ FirstDiff(Norm(T.reparse.proj), e) # "" THEN
       <<"REJECT", "re-parsing the rendering changes field", FirstDiff(Norm(T.reparse.proj), e)>>
  ELSE <<"ACCEPT", "exact">>

TVerdict == /\ ~fin /\ phase = "done" /\ fin' = TRUE
            /\ PrintT(<<"VERDICT", tid>> \o Verdict)
            /\ UNCHANGED <<gvars, tid>>
TSpec == TInit /\ [][TStep \/ TVerdict]_<<gvars, tid, fin>>
=============================================================================
