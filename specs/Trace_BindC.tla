----------------------------- MODULE Trace_BindC -----------------------------
(* Trace validation for C04: one bind(C) interface body (or derived type) of  *)
(* a generated module with the C definitions it refers to, both read back     *)
(* from the files a real Shroud run generated.                                *)
EXTENDS BindC, Json, IOUtils, TLCExt
Traces == JsonDeserialize(IOEnv.TRACE_FILE)
VARIABLES tid, fin, i
T == Traces[tid]
TInit == tid \in 1..Len(Traces) /\ fin = FALSE /\ i = 1 /\ BInit
Events == T.events
TStep == /\ ~fin /\ i <= Len(Events)
         /\ LET e == Events[i] IN
            CASE e.ev = "Define" -> Define(e.x)
              [] e.ev = "DefineStruct" -> DefineStruct(e.x)
              [] e.ev = "BindType" -> BindType(e.x)
              [] e.ev = "Bind" -> Bind(e.x)
         /\ i' = i + 1 /\ UNCHANGED <<tid, fin>>
\* an entry of the type registry: the Fortran kind and the C type it is declared to correspond to
PairWhy == IF T.kind # "pair" THEN <<>>
           ELSE IF ~ArgInterop(T.f, T.c) THEN <<"type registry pairs a Fortran kind with a non-interoperable C type", T.tname, T.f, T.c>>
           ELSE <<>>
TypeWhy == IF T.kind # "type" THEN <<>>
           ELSE IF ~StructMatches(T.tname, T.sname) THEN <<"derived type and C struct differ in field order or types", T.tname, T.sname>>
           ELSE <<>>
TVerdict == /\ ~fin /\ i > Len(Events) /\ fin' = TRUE
            /\ PrintT(<<"VERDICT", tid>> \o
                 (IF problems # <<>> THEN <<"REJECT">> \o problems[1]
                  ELSE IF TypeWhy # <<>> THEN <<"REJECT">> \o TypeWhy
                  ELSE IF PairWhy # <<>> THEN <<"REJECT">> \o PairWhy
                  ELSE <<"ACCEPT", "ok">>))
            /\ UNCHANGED <<bvars, tid, i>>
TSpec == TInit /\ [][TStep \/ TVerdict]_<<bvars, tid, fin, i>>
=============================================================================
