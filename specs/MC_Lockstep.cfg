SPECIFICATION Spec
CHECK_DEADLOCK FALSE
INVARIANT AcceptIffEqual
INVARIANT InStep
