SPECIFICATION Spec
CONSTANT NStmts = 2
CONSTANT Wide = TRUE
INVARIANT InvFindsItself
INVARIANT InvOnPath
INVARIANT InvSpecific
INVARIANT InvBlanks
INVARIANT InvBase
CHECK_DEADLOCK FALSE
