SPECIFICATION Spec
CHECK_DEADLOCK FALSE
CONSTANTS
  Mirror = TRUE
  Mode = "items"
  Alphabet = {120}
  MaxLen = 1
  LineLens = {4}
  Indents = {1}
  SpWs = {2}
  Conts <- ContsAmp
  DAlphabet = {43, 45, 64, 94, 35, 120, 32, 10, 9}
  DLen = 3
  MaxItems = 1
INVARIANT TextPreserved
INVARIANT ContOnEveryBrokenLine
INVARIANT NoDirectiveLeak
INVARIANT WithinLength
INVARIANT BreaksOnlyAtHints
INVARIANT Refines
