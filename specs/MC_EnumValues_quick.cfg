SPECIFICATION Spec
CHECK_DEADLOCK FALSE
CONSTANTS
  MaxMembers = 3
  Lits = {2, 3}
  Depth = 1
INVARIANT CKeepsValues
INVARIANT FKeepsValues
INVARIANT PrefixKeepsValues
