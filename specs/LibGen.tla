------------------------------- MODULE LibGen -------------------------------
(* The admitted grammar of library descriptions (domain of property C05,     *)
(* shared with the run-time checks).  A description is built by a sequence   *)
(* of documented steps; every reachable state is a library that "follows the *)
(* documented usage rules".  Rows (parameter and result shapes) are keys of   *)
(* the table in harness/rt/cases.py, each traceable to docs/*.rst or to an    *)
(* upstream regression input.                                                 *)
EXTENDS Naturals, Sequences, FiniteSets, TLC, Json

CONSTANTS ParamRows, ResultRows, CRows, CResults, LuaRows, PyRows, VecRows, KindRows, KindResults,
          TInt, TReal, TLogical, TChar, TStruct, MaxFuncs, MaxParams

VARIABLES lib, done, kind

gvars == <<lib, done>>

Langs == {"c++", "c"}
BoolOpts == {"F_CFI", "debug", "doxygen", "literalinclude", "show_splicer_comments", "wrap_c", "wrap_fortran", "wrap_python", "wrap_lua"}
Init == /\ lib = [language |-> "c++", funcs |-> <<>>, class |-> FALSE, derived |-> FALSE, ns |-> FALSE,
                  opts |-> [F_CFI |-> FALSE, debug |-> TRUE, doxygen |-> TRUE, literalinclude |-> FALSE,
                            show_splicer_comments |-> TRUE, line |-> 72,
                            wrap_c |-> TRUE, wrap_python |-> FALSE, wrap_lua |-> FALSE, wrap_fortran |-> TRUE]]
        /\ done = FALSE /\ kind = ""

\* rows usable in a C library (no references, std::string, templates)
RowOK(r) == lib.language = "c++" \/ r \in CRows
ResOK(r) == lib.language = "c++" \/ r \in CResults

\* array rows come in pairs (array + its size argument): handled as one step
ArrayPairs == {<<"arr_in", "arr_n">>, <<"arr_out", "out_n">>, <<"cstrv_in", "out_n">>}
Single == ParamRows \ {"arr_in", "arr_n", "arr_out", "out_n", "cstrv_in"}

RECURSIVE ParamLists(_)
ParamLists(n) == IF n = 0 THEN {<<>>}
                 ELSE LET P == ParamLists(n - 1) IN
                      P \cup {Append(p, r) : p \in {q \in P : Len(q) = n - 1}, r \in Single}
AllParamLists == ParamLists(MaxParams) \cup {<<a[1], a[2]>> : a \in ArrayPairs}

SetLanguage(l) == /\ ~done /\ lib.funcs = <<>> /\ ~lib.class /\ ~lib.ns /\ lib' = [lib EXCEPT !.language = l] /\ UNCHANGED done
LuaList(ps) == \A k \in 1..Len(ps) : ps[k] \in LuaRows
LuaOK == \A i \in 1..Len(lib.funcs) : LuaList(lib.funcs[i].params)
\* the corpus switches the Python wrapper off for a std::vector argument of intent(inout) (vectors.yaml)
PyList(ps) == \A k \in 1..Len(ps) : ps[k] \in PyRows
PyOK == \A i \in 1..Len(lib.funcs) : PyList(lib.funcs[i].params)
AddFunction(res, ps) ==
  /\ ~done /\ Len(lib.funcs) < MaxFuncs
  /\ (lib.opts.wrap_lua => LuaList(ps)) /\ (lib.opts.wrap_python => PyList(ps))
  /\ ResOK(res) /\ \A i \in 1..Len(ps) : RowOK(ps[i])
  /\ lib' = [lib EXCEPT !.funcs = Append(@, [kind |-> "plain", result |-> res, params |-> ps, ndef |-> 0, tmpl |-> FALSE, gen |-> FALSE])]
  /\ UNCHANGED done
\* trailing parameters passed by value may carry C++ default values
AddDefaults(i, n) ==
  /\ ~done /\ lib.language = "c++" /\ i \in 1..Len(lib.funcs)
  /\ lib.funcs[i].kind = "plain" /\ \A j \in 1..Len(lib.funcs) : lib.funcs[j].kind = "overload" => lib.funcs[j].of # i
  /\ lib.funcs[i].ndef = 0 /\ n \in 1..Len(lib.funcs[i].params)
  /\ \A k \in (Len(lib.funcs[i].params) - n + 1)..Len(lib.funcs[i].params) :
        lib.funcs[i].params[k] \in {"int_v", "double_v", "bool_v", "long_v"}
  /\ lib' = [lib EXCEPT !.funcs[i].ndef = n]
  /\ UNCHANGED done
\* Fortran resolves a generic name by the arguments' types, kinds and ranks.  Two parameter lists are kept apart when
\* they differ in length, or when at some position both parameters are scalars of different Fortran TYPES (integer,
\* real, logical, character, type(pt)); kinds alone are not relied on (C_LONG and C_INT64_T are one kind here), and
\* such lists are different C++ signatures as well.
TypeClass(r) == CASE r \in TInt -> "integer" [] r \in TReal -> "real" [] r \in TLogical -> "logical"
                  [] r \in TChar -> "character" [] r \in TStruct -> "type" [] OTHER -> "?"
Apart(a, b) == IF Len(a) # Len(b) THEN TRUE
               ELSE \E k \in 1..Len(a) : TypeClass(a[k]) # "?" /\ TypeClass(b[k]) # "?" /\ TypeClass(a[k]) # TypeClass(b[k])
\* an overload of an existing function: same name, another parameter list, same kind of result
AddOverload(i, ps) ==
  /\ ~done /\ lib.language = "c++" /\ i \in 1..Len(lib.funcs) /\ Len(lib.funcs) < MaxFuncs
  /\ (lib.opts.wrap_lua => LuaList(ps)) /\ (lib.opts.wrap_python => PyList(ps))
  /\ lib.funcs[i].kind = "plain" /\ lib.funcs[i].ndef = 0 /\ ps # lib.funcs[i].params /\ ~lib.funcs[i].tmpl
  /\ \A j \in 1..Len(lib.funcs) : (lib.funcs[j].kind = "overload" /\ lib.funcs[j].of = i) => lib.funcs[j].params # ps
  \* every pair of specifics stays distinguishable (arrays hide their size argument, so they stay out)
  /\ Apart(ps, lib.funcs[i].params)
  /\ \A j \in 1..Len(lib.funcs) : (lib.funcs[j].kind = "overload" /\ lib.funcs[j].of = i) => Apart(lib.funcs[j].params, ps)
  /\ \A k \in 1..Len(ps) : ps[k] \notin {"arr_in", "arr_n", "arr_out", "out_n", "cstrv_in"}
  /\ \A k \in 1..Len(lib.funcs[i].params) : lib.funcs[i].params[k] \notin {"arr_in", "arr_n", "arr_out", "out_n", "cstrv_in"}
  /\ lib' = [lib EXCEPT !.funcs = Append(@, [kind |-> "overload", of |-> i, result |-> lib.funcs[i].result, params |-> ps, ndef |-> 0, tmpl |-> FALSE, gen |-> FALSE])]
  /\ UNCHANGED done
\* a function template with its instantiations listed (docs/templates.rst): the first parameter passed as int
\* becomes the template parameter, instantiated for int and double.  The corpus has no Lua wrapper of a template.
NotOverloaded(i) == \A j \in 1..Len(lib.funcs) : lib.funcs[j].kind = "overload" => lib.funcs[j].of # i
HasRow(i, rows) == \E k \in 1..Len(lib.funcs[i].params) : lib.funcs[i].params[k] \in rows
NoTemplates == \A i \in 1..Len(lib.funcs) : ~lib.funcs[i].tmpl
Templatize(i) ==
  /\ ~done /\ lib.language = "c++" /\ ~lib.opts.wrap_lua /\ i \in 1..Len(lib.funcs)
  /\ lib.funcs[i].kind = "plain" /\ NotOverloaded(i) /\ ~lib.funcs[i].tmpl /\ HasRow(i, {"int_v"})
  /\ lib' = [lib EXCEPT !.funcs[i].tmpl = TRUE] /\ UNCHANGED done
\* fortran_generic (docs/fortran.rst "Generic Functions"): the first parameter passed as double or long may be
\* given as another kind by the Fortran caller
Genericize(i) ==
  /\ ~done /\ i \in 1..Len(lib.funcs) /\ ~lib.funcs[i].gen /\ HasRow(i, {"double_v", "long_v"})
  /\ lib' = [lib EXCEPT !.funcs[i].gen = TRUE] /\ UNCHANGED done
\* single inheritance (docs/struct.rst "Object-oriented C", classes.yaml): a class derived from the library's class
AddDerived == /\ ~done /\ lib.class /\ ~lib.derived /\ lib' = [lib EXCEPT !.derived = TRUE] /\ UNCHANGED done
AddClass == /\ ~done /\ lib.language = "c++" /\ ~lib.class /\ lib' = [lib EXCEPT !.class = TRUE] /\ UNCHANGED done
UseNamespace == /\ ~done /\ lib.language = "c++" /\ ~lib.ns /\ lib' = [lib EXCEPT !.ns = TRUE] /\ UNCHANGED done
\* docs/lua.rst and the Lua inputs of the corpus cover arguments passed by value and std::string
\* references only: the Lua wrapper is selected for such libraries only
SetOption(k, v) == /\ ~done /\ ((k = "wrap_lua" /\ v = TRUE) => (LuaOK /\ NoTemplates)) /\ ((k = "wrap_python" /\ v = TRUE) => PyOK)
                   /\ lib' = [lib EXCEPT !.opts[k] = v] /\ UNCHANGED done
\* the Fortran wrapper calls the C wrapper; at least one wrapper is selected
Finish == /\ ~done /\ lib.funcs # <<>> /\ done' = TRUE
             /\ (lib.opts.wrap_fortran => lib.opts.wrap_c)
             /\ (lib.opts.wrap_c \/ lib.opts.wrap_python \/ lib.opts.wrap_lua)
             \* the C form of a std::vector argument is the "bufferify" function, which is only generated for the
             \* Fortran wrapper (generate.arg_to_buffer): a C-only wrapper of such a function is not a documented use
             /\ ((lib.opts.wrap_c /\ ~lib.opts.wrap_fortran) =>
                    \A i \in 1..Len(lib.funcs) : \A k \in 1..Len(lib.funcs[i].params) : lib.funcs[i].params[k] \notin VecRows)
             /\ UNCHANGED lib

Build ==
  \/ \E l \in Langs : SetLanguage(l)
  \/ \E res \in ResultRows, ps \in AllParamLists : AddFunction(res, ps)
  \/ \E i \in 1..MaxFuncs, n \in 1..2 : AddDefaults(i, n)
  \/ \E i \in 1..MaxFuncs, ps \in AllParamLists : AddOverload(i, ps)
  \/ AddClass \/ UseNamespace \/ AddDerived
  \/ \E i \in 1..MaxFuncs : Templatize(i) \/ Genericize(i)
  \/ \E k \in BoolOpts : \E v \in BOOLEAN : SetOption(k, v)
  \/ \E v \in {40, 72, 132} : SetOption("line", v)
  \/ Finish

\* The same steps grouped by kind.  Simulation picks a successor state uniformly; choosing the kind of
\* step first keeps the rare steps (options, language, class) as likely as the thousands of AddFunction
\* instances.  Reachable descriptions are the same as under Build.
Kinds == {"lang", "func", "func2", "func3", "defaults", "overload", "template", "generic", "class", "derived", "ns", "opt", "opt2", "line", "finish"}
Do(k) ==
  CASE k = "lang" -> \E l \in Langs : SetLanguage(l)
    [] k \in {"func", "func2", "func3"} -> \E res \in ResultRows, ps \in AllParamLists : AddFunction(res, ps)
    [] k = "defaults" -> \E i \in 1..MaxFuncs, n \in 1..2 : AddDefaults(i, n)
    [] k = "overload" -> \E i \in 1..MaxFuncs, ps \in AllParamLists : AddOverload(i, ps)
    [] k = "class" -> AddClass
    [] k = "derived" -> AddDerived
    [] k = "template" -> \E i \in 1..MaxFuncs : Templatize(i)
    [] k = "generic" -> \E i \in 1..MaxFuncs : Genericize(i)
    [] k = "ns" -> UseNamespace
    [] k \in {"opt", "opt2"} -> \E o \in BoolOpts : SetOption(o, ~lib.opts[o])
    [] k = "line" -> \E v \in {40, 72, 132} \ {lib.opts.line} : SetOption("line", v)
    [] k = "finish" -> Finish
Pick == /\ kind = "" /\ ~done /\ \E k \in Kinds : ENABLED Do(k) /\ kind' = k /\ UNCHANGED <<lib, done>>
Apply == /\ kind # "" /\ Do(kind) /\ kind' = ""
         /\ (kind = "finish" => PrintT(<<"LIBGEN", ToJson(lib)>>))
Next == Pick \/ Apply
Spec == Init /\ [][Next]_<<lib, done, kind>>

\* sanity of the domain itself
TypeOK == /\ Len(lib.funcs) <= MaxFuncs
          /\ (lib.opts.wrap_lua => LuaOK) /\ (lib.opts.wrap_python => PyOK)
          /\ \A i \in 1..Len(lib.funcs) : lib.funcs[i].ndef <= Len(lib.funcs[i].params)
          /\ (lib.language = "c" => (~lib.class /\ ~lib.ns /\ \A i \in 1..Len(lib.funcs) : lib.funcs[i].kind = "plain" /\ lib.funcs[i].ndef = 0 /\ ~lib.funcs[i].tmpl))
          /\ (lib.derived => lib.class) /\ (lib.opts.wrap_lua => NoTemplates)
=============================================================================
