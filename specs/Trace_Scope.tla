----------------------------- MODULE Trace_Scope -----------------------------
(* Trace validation for C14.                                                *)
(*  "eff":  the scope tree of a YAML description (built from the YAML       *)
(*          nesting by the harness: parent, kind, local options/format) and  *)
(*          the values the real nodes report for each tracked key;           *)
(*  "pair": two descriptions the property calls equivalent, and the digests  *)
(*          of the files each run produced.                                  *)
EXTENDS Scope, Json, IOUtils, TLCExt
Traces == JsonDeserialize(IOEnv.TRACE_FILE)
VARIABLES tid, fin
T == Traces[tid]

\* JSON trees carry loc as a sequence of [k, v]
LocOf(prs) == [k \in {prs[i].k : i \in 1..Len(prs)} |-> (CHOOSE i \in 1..Len(prs) : prs[i].k = k /\ \A j \in 1..Len(prs) : prs[j].k = k => j <= i)]
ToTree(js) == [n \in 1..Len(js) |-> [parent |-> js[n].parent, kind |-> js[n].kind,
                                     loc |-> [k \in DOMAIN LocOf(js[n].loc) |-> js[n].loc[LocOf(js[n].loc)[k]].v]]]

TInit == /\ tid \in 1..Len(Traces) /\ fin = FALSE
         /\ tree = (IF Traces[tid].kind = "eff" THEN ToTree(Traces[tid].tree) ELSE <<>>)
         /\ op = [name |-> "none"] /\ tree2 = <<>>

SetOf(s) == {s[j] : j \in 1..Len(s)}
EffVerdict ==
  LET badobs == {i \in 1..Len(T.obs) : Eff(tree, T.obs[i].n, T.obs[i].k) # T.obs[i].v} IN
  IF badobs = {} THEN <<"ACCEPT", "ok">>
  ELSE LET i == CHOOSE i \in badobs : TRUE IN
       <<"REJECT", "a setting is not in force where the scope rules put it", T.obs[i], Eff(tree, T.obs[i].n, T.obs[i].k)>>
PairVerdict ==
  IF SetOf(T.a) = SetOf(T.b) THEN <<"ACCEPT", "ok">>
  ELSE <<"REJECT", "equivalent descriptions give different output", T.family,
         CHOOSE x \in (SetOf(T.a) \cup SetOf(T.b)) \ (SetOf(T.a) \cap SetOf(T.b)) : TRUE>>

TVerdict == /\ ~fin /\ fin' = TRUE
            /\ PrintT(<<"VERDICT", tid>> \o (IF T.kind = "eff" THEN EffVerdict ELSE PairVerdict))
            /\ UNCHANGED <<svars, tid>>
TSpec == TInit /\ [][TVerdict]_<<svars, tid, fin>>
=============================================================================
