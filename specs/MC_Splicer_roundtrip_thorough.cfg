SPECIFICATION Spec
CHECK_DEADLOCK FALSE
CONSTANTS
  Mode = "roundtrip"
  MaxLines = 0
  MaxOps = 5
  Names = {"a", "b"}
INVARIANT RoundTripRead
INVARIANT RoundTripEmit
INVARIANT Precedence
INVARIANT UnsuppliedNotUser
INVARIANT ReaderOK
