SPECIFICATION Spec
CHECK_DEADLOCK FALSE
CONSTANTS
  Bases = {"int", "string", "vecint"}
  MaxLevels = 1
  MaxParams = 1
  Alphabet = {"int", "const", "*", "&", "(", ")", "[", "]", ",", "=", "+", "x", "1", "::", "<", ">"}
INVARIANT OracleSound
INVARIANT EditShape
INVARIANT BalancedPrefix
