----------------------------- MODULE MC_StrXfer -----------------------------
EXTENDS StrXfer
CONSTANT MaxN
RECURSIVE Strs(_, _)
Strs(A, n) == IF n = 0 THEN {<<>>} ELSE LET P == Strs(A, n - 1) IN P \cup {Append(p, c) : p \in {q \in P : Len(q) = n - 1}, c \in A}
Fortran(n) == {s \in Strs({97, 32}, n) : Len(s) = n}               \* CHARACTER(len=n) values
CStrings(n) == {Append(s, NUL) \o t : s \in Strs({97, 32}, n), t \in Strs({120}, 1)}   \* text, NUL, junk after it
Init ==
  \/ \E n \in 0..MaxN : \E s \in Fortran(n) : XInit("LenTrim", s, n, 0, 0, <<>>)
  \/ \E n \in 0..MaxN : \E s \in Fortran(n) : XInit("StrAlloc", s, n, 0, -1, <<>>)
  \/ \E n \in 0..MaxN, nd \in 0..MaxN : \E s \in Fortran(n) : XInit("StrCopy", s, n, nd, 0, [k \in 1..(nd + 1) |-> 255])
  \/ \E nd \in 0..MaxN : \E s \in CStrings(MaxN) : XInit("StrCopy", s, -1, nd, 0, [k \in 1..(nd + 1) |-> 255])
  \/ \E nd \in 0..MaxN : XInit("StrCopy", <<>>, -2, nd, 0, [k \in 1..(nd + 1) |-> 255])
  \/ \E nd \in 0..MaxN : \E s \in CStrings(MaxN) : (CLen(s) <= nd /\ Len(s) <= nd + 2) /\
         LET d0 == s \o [k \in 1..(nd + 2 - Len(s)) |-> 255] IN XInit("BlankFill", d0, 0, nd, 0, d0)
Spec == Init /\ [][XNext]_xvars
=============================================================================
