--------------------------- MODULE Trace_Registry ---------------------------
(* Trace validation for C07.                                                *)
(*  "history": libraries run one after another in one process; for each run  *)
(*     the digest of every registry when generation starts and the digests   *)
(*     of the files written, next to the same data from a fresh process;     *)
(*  "perturb": two runs of the same inputs that differ in one dimension of   *)
(*     the environment (hash seed, cwd, environment variables, pre-existing  *)
(*     output files) and the digests of their files.                         *)
EXTENDS Registry, Json, IOUtils, TLCExt
Traces == JsonDeserialize(IOEnv.TRACE_FILE)
VARIABLES tid, fin, i, bad
T == Traces[tid]
SetOf(s) == {s[j] : j \in 1..Len(s)}

TInit == /\ tid \in 1..Len(Traces) /\ fin = FALSE /\ i = 1 /\ bad = <<>> /\ RInit

\* one recorded run = Begin ; Initialize ; Generate ; Emit, with the registry observation bound at Generate
Leaks(run) == {r \in SetOf(run.regs) : r \notin SetOf(run.fresh_regs)}
TRun ==
  /\ ~fin /\ T.kind = "history" /\ i <= Len(T.runs)
  /\ IF pc = "idle" THEN Begin(T.runs[i].lib) /\ UNCHANGED <<i, bad>>
     ELSE IF pc = "init" THEN
        \* what the real process did at this point is visible in the digests: a registry whose digest
        \* differs from the fresh-process digest still holds foreign data
        /\ pc' = "generate" /\ UNCHANGED <<hist, cur>>
        /\ contrib' = [r \in Regs |-> IF \E x \in Leaks(T.runs[i]) : x[1] = r THEN SetOf(hist) ELSE {}]
        /\ UNCHANGED <<i, bad>>
     ELSE IF pc = "generate" THEN
        /\ Generate
        \* a registry digest that differs is only a suspicion (a table may be re-derived identically);
        \* the verdict is decided by the bytes written at Emit, the suspects are reported with it
        /\ UNCHANGED <<i, bad>>
     ELSE /\ Emit /\ i' = i + 1
          /\ bad' = IF SetOf(T.runs[i].files) # SetOf(T.runs[i].fresh_files)
                    THEN bad \o << <<"output depends on libraries processed earlier in the process", i,
                         (CHOOSE x \in (SetOf(T.runs[i].files) \cup SetOf(T.runs[i].fresh_files))
                                          \ (SetOf(T.runs[i].files) \cap SetOf(T.runs[i].fresh_files)) : TRUE)[1],
                         {r \in Regs : contrib[r] \ {cur} # {}}>> >>
                    ELSE bad
  /\ UNCHANGED <<tid, fin>>

PerturbVerdict ==
  IF SetOf(T.a) = SetOf(T.b) THEN <<"ACCEPT", "ok">>
  ELSE <<"REJECT", "output depends on " \o T.dimension,
         (CHOOSE x \in (SetOf(T.a) \cup SetOf(T.b)) \ (SetOf(T.a) \cap SetOf(T.b)) : TRUE)[1]>>
HistoryVerdict == IF bad = <<>> THEN <<"ACCEPT", "ok">> ELSE <<"REJECT">> \o bad[1] \o <<Len(bad)>>

TVerdict == /\ ~fin /\ (IF T.kind = "history" THEN i > Len(T.runs) ELSE TRUE) /\ fin' = TRUE
            /\ PrintT(<<"VERDICT", tid>> \o (IF T.kind = "history" THEN HistoryVerdict ELSE PerturbVerdict))
            /\ UNCHANGED <<rvars, tid, i, bad>>
TSpec == TInit /\ [][TRun \/ TVerdict]_<<rvars, tid, fin, i, bad>>
=============================================================================
