SPECIFICATION Spec
CHECK_DEADLOCK FALSE
CONSTANTS
  Bases = {"int", "string", "vecint"}
  MaxLevels = 2
  MaxParams = 1
INVARIANT BalancedPrefix
INVARIANT Complete
INVARIANT SameShape
