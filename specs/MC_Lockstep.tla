---------------------------- MODULE MC_Lockstep ----------------------------
(* All pairs of tiny runs: the walk accepts exactly the equal pairs.        *)
EXTENDS Lockstep
Chunks == {<<>>, <<1>>, <<1, 2>>, <<2, 1>>}
ChunkSeqs == {<<>>} \cup {<<c>> : c \in Chunks \ {<<>>}} \cup {<<c, d>> : c \in Chunks \ {<<>>}, d \in Chunks \ {<<>>}}
Files == {[name |-> n, chunks |-> cs] : n \in {"a", "b"}, cs \in ChunkSeqs}
Runs == {<<>>} \cup {<<f>> : f \in Files} \cup {<<f, g>> : f \in {x \in Files : x.name = "a"}, g \in {x \in Files : x.name = "b"}}
Init == \E a \in Runs, b \in Runs : LInit(a, b)
Spec == Init /\ [][LNext]_lvars
AcceptIffEqual == verdict # <<>> => ((verdict[1] = "ACCEPT") <=> (run1 = run2))
=============================================================================
