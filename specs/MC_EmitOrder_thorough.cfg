SPECIFICATION MSpec
CONSTANT N = 4
INVARIANT ClosureOK
INVARIANT OnceOK
INVARIANT DepsFirstOK
CHECK_DEADLOCK FALSE
