SPECIFICATION OSpec
CONSTANTS
  Vars = {"a", "b"}
  MaxObj = 5
INVARIANT TypeOK
INVARIANT AtMostOnce
INVARIANT LibraryKept
INVARIANT NoLeak
INVARIANT RefsRight
INVARIANT NoDangling
CHECK_DEADLOCK FALSE
