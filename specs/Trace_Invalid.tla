---------------------------- MODULE Trace_Invalid ----------------------------
(* Trace validation for C17.  Kinds of recorded executions:                  *)
(*  "mut"   derivation D + one token edit; the text given to the real parser *)
(*          (and to a full create_library/generate_functions pass) and the   *)
(*          outcome class;                                                   *)
(*  "raw"   an arbitrary token string and its outcome;                       *)
(*  "attr"  a target (function / argument / variable), a type shape, a set   *)
(*          of attributes and the outcome of attribute verification;         *)
(*  "yaml"  a documented-invalid or valid YAML structure and its outcome.    *)
EXTENDS DeclMutate, Json, IOUtils, TLCExt
A == INSTANCE Attrs

Traces == JsonDeserialize(IOEnv.TRACE_FILE)
VARIABLES tid, fin
T == Traces[tid]
NoD == [st |-> "", cq |-> [c |-> FALSE, v |-> FALSE, post |-> FALSE], base |-> "int", lv |-> <<>>, kind |-> "var",
        nm |-> "x", ps |-> <<>>, fc |-> FALSE, dims |-> <<>>, at |-> <<>>, ini |-> [has |-> FALSE, v |-> ""]]
NoM == [op |-> "none", pos |-> 0, tok |-> ""]

TInit == /\ tid \in 1..Len(Traces) /\ fin = FALSE
         /\ IF Traces[tid].kind = "mut" THEN MInit(Traces[tid].D, Traces[tid].mut) ELSE MInit(NoD, NoM)
TStep == /\ ~fin /\ T.kind = "mut"
         /\ ((GNext /\ UNCHANGED <<mut, mtoks>>) \/ MApply)
         /\ UNCHANGED <<tid, fin>>

\* YAML structure rows (docs/input.rst, docs/reference.rst): name -> must be accepted?
\* declaration rows that need a context (template parameters are only visible in their own declaration)
DeclValid == {"tmpl-one", "tmpl-two", "tmpl-vector-arg", "tmpl-reuse-name"}
DeclInvalid == {"tmpl-foreign-param", "tmpl-undeclared-param", "tmpl-foreign-in-vector", "tmpl-param-after-template"}
\* a declaration with a fortran_generic list is legal iff EVERY entry of the list is: an illegal +implied (unknown
\* argument, too many arguments to size) in any position makes the whole declaration illegal
GenericImplied == {<<k, w>> : k \in 1..3, w \in {"unknown-argument", "too-many-arguments"}}
GenericName(p) == "generic-implied:" \o p[2] \o ":entry" \o (CASE p[1] = 1 -> "1" [] p[1] = 2 -> "2" [] p[1] = 3 -> "3")
PairA == {"tmpl2", "tmpl1", "generic", "class"}
PairB == {"uninstT", "uninstU", "unknown"}
PairInvalid == {"pair:" \o a \o ":" \o b \o ":" \o o : a \in PairA, b \in PairB, o \in {"ab", "ba"}}
PairValid == {"pairok:" \o a \o ":" \o b : a \in PairA, b \in PairA}
YamlValid == DeclValid \cup PairValid \cup {"generic-implied:legal"} \cup {"minimal", "empty-block", "class-with-method", "namespace-decl", "language-c", "language-cxx",
              "template-list", "generic-list", "default-arg-suffix-list"}
YamlInvalid == DeclInvalid \cup PairInvalid \cup {GenericName(p) : p \in GenericImplied} \cup {"language-fortran", "decl-entry-without-decl", "cxx_template-not-list", "fortran_generic-not-list",
                "default_arg_suffix-not-list", "declarations-not-list", "decl-not-string", "options-not-mapping",
                "format-not-mapping", "attrs-not-mapping", "class-decl-with-body", "unknown-top-level-type"}

\* The type of node every key of the input file takes (docs/input.rst, docs/reference.rst) and the levels at which
\* Shroud reads it.  A value of another type is invalid input; a blank value (YAML null) and a value of the right
\* type are judged on "never an internal failure" only, since their legality depends on their content.
KeyType == [format |-> "map", options |-> "map", attrs |-> "map", fattrs |-> "map", splicer |-> "map", fstatements |-> "map",
            declarations |-> "list", cxx_template |-> "list", fortran_generic |-> "list", default_arg_suffix |-> "list",
            copyright |-> "list", typemap |-> "list",
            library |-> "str", language |-> "str", cxx_header |-> "str", namespace |-> "str"]
ReadAt == [format |-> {"library", "class", "namespace", "function"}, options |-> {"library", "class", "namespace", "function"},
           attrs |-> {"function"}, fattrs |-> {"function"}, splicer |-> {"function"}, fstatements |-> {"function"},
           declarations |-> {"library", "class", "namespace"}, cxx_template |-> {"function"}, fortran_generic |-> {"function"},
           default_arg_suffix |-> {"function"}, copyright |-> {"library"}, typemap |-> {"library"},
           library |-> {"library"}, language |-> {"library"}, cxx_header |-> {"library", "class", "namespace"},
           namespace |-> {"library"}]
KindOf(vk) == CASE vk \in {"map", "emptymap"} -> "map" [] vk \in {"list", "emptylist"} -> "list"
                [] vk \in {"str", "emptystr"} -> "str" [] OTHER -> vk
YTypeJudged(k, lv) == k \in DOMAIN KeyType /\ lv \in ReadAt[k]
YTypeWrong(k, vk) == vk # "null" /\ KindOf(vk) # KeyType[k]

Verdict0 ==
  CASE T.kind = "ytype" ->
         IF T.outcome \in {"internal", "hang"} THEN <<"REJECT", "internal Python exception / hang", T.key, T.level, T.vk>>
         ELSE IF YTypeJudged(T.key, T.level) /\ YTypeWrong(T.key, T.vk) /\ T.outcome = "accept"
              THEN <<"REJECT", "value of the wrong type silently accepted", T.key, T.level, T.vk>>
         ELSE <<"ACCEPT", T.outcome>>
    [] T.kind = "mut" ->
         IF ~Applicable(toks, mut) THEN <<"EXCLUDED", "edit position outside the sentence">>
         ELSE IF T.toks # mtoks THEN <<"BADTREE", "harness text is not the mutated sentence">>
         ELSE LET j == Judge(mtoks, T.outcome, T.msg, T.sentence \/ mut.op = "none") IN
              IF j = "" THEN <<"ACCEPT", T.outcome>> ELSE <<"REJECT", j, T.outcome>>
    [] T.kind = "raw" ->
         LET j == Judge(T.toks, T.outcome, T.msg, FALSE) IN
         IF j = "" THEN <<"ACCEPT", T.outcome>> ELSE <<"REJECT", j, T.outcome>>
    [] T.kind = "attr" ->
         LET as == {T.attrs[i] : i \in 1..Len(T.attrs)}
             j == A!Judge(T.target, T.shape, as, T.outcome, T.msg) IN
         IF j = "" THEN <<"ACCEPT", T.outcome>> ELSE <<"REJECT", j, T.outcome>>
    [] T.kind = "yaml" ->
         IF T.outcome \in {"internal", "hang"} THEN <<"REJECT", "internal Python exception / hang", T.case>>
         ELSE IF T.case \in YamlValid /\ T.outcome # "accept" THEN <<"REJECT", "documented structure rejected", T.case>>
         ELSE IF T.case \in YamlInvalid /\ T.outcome = "accept" THEN <<"REJECT", "unsupported structure silently accepted", T.case>>
         ELSE IF T.case \notin YamlValid \cup YamlInvalid THEN <<"BADTREE", "unknown yaml row">>
         ELSE <<"ACCEPT", T.outcome>>

\* the same input must get the same outcome class whatever was processed before it
Verdict == IF T.again # T.outcome /\ Verdict0[1] # "BADTREE"
           THEN <<"REJECT", "outcome depends on what was processed earlier in the process", T.outcome, T.again>>
           ELSE Verdict0

Ready == T.kind # "mut" \/ (phase = "done" /\ (mtoks # <<>> \/ ~Applicable(toks, mut)))
TVerdict == /\ ~fin /\ Ready /\ fin' = TRUE
            /\ PrintT(<<"VERDICT", tid>> \o Verdict)
            /\ UNCHANGED <<gvars, mut, mtoks, tid>>
TSpec == TInit /\ [][TStep \/ TVerdict]_<<gvars, mut, mtoks, tid, fin>>
=============================================================================
