SPECIFICATION OSpec
CONSTANTS
  Vars = {"a", "b", "c"}
  MaxObj = 6
INVARIANT TypeOK
INVARIANT AtMostOnce
INVARIANT LibraryKept
INVARIANT NoLeak
INVARIANT RefsRight
INVARIANT NoDangling
CHECK_DEADLOCK FALSE
