SPECIFICATION Spec
CHECK_DEADLOCK FALSE
CONSTANTS
  Mirror = TRUE
  Mode = "items"
  Alphabet = {120}
  MaxLen = 1
  LineLens = {3, 6}
  Indents = {0, 1}
  SpWs = {2}
  Conts <- ContsAmp
  DAlphabet = {43, 45, 64, 94, 35, 120, 32, 10, 9}
  DLen = 3
  MaxItems = 2
INVARIANT TextPreserved
INVARIANT ContOnEveryBrokenLine
INVARIANT NoDirectiveLeak
INVARIANT WithinLength
INVARIANT BreaksOnlyAtHints
INVARIANT Refines
