---------------------------- MODULE Trace_Splicer ----------------------------
(* Trace validation for C12.  Three kinds of recorded executions:          *)
(*  "reader"    a file (abstract lines) given to the real get_splicers and  *)
(*              the dictionary / error it produced;                         *)
(*  "emit"      the push/pop/replace-top/create calls an emitter made in a  *)
(*              real run, with the user store it was given and the body     *)
(*              each create call put between the markers;                   *)
(*  "roundtrip" bodies supplied by the user for named blocks and the text   *)
(*              read back from the regenerated files (code points).         *)
EXTENDS Splicer, Json, IOUtils, TLCExt
LOCAL INSTANCE Text

Traces == JsonDeserialize(IOEnv.TRACE_FILE)

VARIABLES tid, fin, bad
tvars == <<vars, tid, fin, bad>>
T == Traces[tid]

ToFun(prs) == [p \in {prs[i].p : i \in 1..Len(prs)} |->
                 (CHOOSE i \in 1..Len(prs) : prs[i].p = p /\ \A j \in 1..Len(prs) : prs[j].p = p => j <= i)
              ]
StoreOf(prs) == [p \in DOMAIN ToFun(prs) |-> prs[ToFun(prs)[p]].b]

TInit ==
  /\ tid \in 1..Len(Traces)
  /\ fin = FALSE /\ bad = ""
  /\ pc = Traces[tid].kind /\ prog = <<>> /\ pi = 1 /\ elog1 = <<>>
  /\ IF Traces[tid].kind = "reader" THEN RInit(Traces[tid].lines) ELSE RInit(<<>>)
  /\ user = IF Traces[tid].kind = "emit" THEN StoreOf(Traces[tid].user) ELSE Empty
  /\ estack = <<>> /\ elog = <<>> /\ created = Empty /\ nextid = 1000

\* ---- reader
TRead == /\ pc = "reader" /\ ~fin /\ ~RDone /\ RStep
         /\ UNCHANGED <<evars, pc, prog, pi, elog1, tid, fin, bad>>

ReaderVerdict ==
  IF ~WellFormed(rlines) THEN <<"EXCLUDED", "ill-formed splicer file", T.err>>
  ELSE IF T.err # "" THEN <<"REJECT", "well-formed file rejected", T.err>>
  ELSE IF ~ReaderContract THEN <<"REJECT", "model violates its own contract">>
  ELSE LET o == StoreOf(T.store) IN
       IF DOMAIN o # DOMAIN store THEN <<"REJECT", "set of blocks read differs">>
       ELSE IF \E p \in DOMAIN o : o[p] # store[p] THEN
            <<"REJECT", "body read differs", CHOOSE p \in DOMAIN o : o[p] # store[p]>>
       ELSE <<"ACCEPT", "exact">>

\* ---- emitter
Opt(x) == [has |-> x.has, b |-> x.b]
TEmit ==
  /\ pc = "emit" /\ ~fin /\ bad = "" /\ pi <= Len(T.ops)
  /\ LET o == T.ops[pi] IN
       /\ CASE o.op = "push" -> EPush(o.n)
            [] o.op = "pop" -> EPop
            [] o.op = "top" -> ETop(o.n)
            [] o.op = "create" -> ECreate(o.n, Opt(o.def), Opt(o.force))
       /\ bad' = IF o.op # "create" THEN ""
                 ELSE IF o.path # Path(o.n) THEN "block emitted under another path"
                 ELSE IF o.body # Chosen(Path(o.n), Opt(o.def), Opt(o.force))
                      THEN "body does not follow force > user > default"
                 ELSE IF o.added # (Source(Path(o.n), Opt(o.def), Opt(o.force)) # "none")
                      THEN "added-code flag wrong"
                 ELSE ""
  /\ pi' = pi + 1
  /\ UNCHANGED <<rvars, pc, prog, elog1, tid, fin>>

\* ---- round trip (text level)
SameLine(a, b) == Strip(a) = Strip(b)
SameBody(x, y) == Len(x) = Len(y) /\ \A i \in 1..Len(x) : SameLine(x[i], y[i])
RoundTripVerdict ==
  LET sup == T.supplied
      rb  == T.readback
      find(s) == {j \in 1..Len(rb) : rb[j].lang = s.lang /\ rb[j].p = s.p}
      miss == {i \in 1..Len(sup) : find(sup[i]) = {}}
      diff == {i \in 1..Len(sup) : find(sup[i]) # {} /\ \E j \in find(sup[i]) : ~SameBody(sup[i].b, rb[j].b)}
  IN IF miss # {} THEN <<"REJECT", "supplied block missing from output", sup[CHOOSE i \in miss : TRUE].p>>
     ELSE IF diff # {} THEN <<"REJECT", "supplied body altered", sup[CHOOSE i \in diff : TRUE].p>>
     ELSE <<"ACCEPT", "exact">>

TVerdict ==
  /\ ~fin
  /\ \/ pc = "reader" /\ RDone
     \/ pc = "emit" /\ (bad # "" \/ pi > Len(T.ops))
     \/ pc = "roundtrip"
  /\ fin' = TRUE
  /\ LET v == IF pc = "reader" THEN ReaderVerdict
              ELSE IF pc = "emit" THEN (IF bad # "" THEN <<"REJECT", bad, pi - 1>> ELSE <<"ACCEPT", "exact">>)
              ELSE RoundTripVerdict
     IN PrintT(<<"VERDICT", tid>> \o v)
  /\ UNCHANGED <<vars, tid, bad>>

TNext == TRead \/ TEmit \/ TVerdict
TSpec == TInit /\ [][TNext]_tvars
=============================================================================
