---------------------------- MODULE MC_Registry ----------------------------
EXTENDS Registry
CONSTANT MaxRuns
Bound == Len(hist) < MaxRuns \/ pc = "idle"
Spec == RInit /\ [][RNext]_rvars
=============================================================================
