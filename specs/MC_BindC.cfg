SPECIFICATION Spec
CHECK_DEADLOCK FALSE
INVARIANT ScalarStrict
INVARIANT ValueNeverPointer
INVARIANT RefNeverValue
