SPECIFICATION TSpec
CHECK_DEADLOCK FALSE
CONSTANTS
  Handles = {"h1", "h2"}
  MaxObj = 12
INVARIANT BorrowedHasNoDestructor
