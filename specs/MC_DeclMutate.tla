---------------------------- MODULE MC_DeclMutate ----------------------------
(* Soundness of the C17 oracle on the model: no sentence of the grammar is  *)
(* condemned by Judge when accepted; every single-token mutant is produced  *)
(* by MApply (the set the harness pushes through the real parser).          *)
EXTENDS DeclMutate
CONSTANTS Bases, MaxLevels, MaxParams, Alphabet

MCG == INSTANCE MC_DeclGrammar
Muts(n) == {[op |-> "none", pos |-> 0, tok |-> ""]}
           \cup {[op |-> o, pos |-> p, tok |-> ""] : o \in {"del", "swap"}, p \in 1..n}
           \cup {[op |-> o, pos |-> p, tok |-> t] : o \in {"ins", "rep"}, p \in 1..(n + 1), t \in Alphabet}
           \cup {[op |-> "app", pos |-> 0, tok |-> t] : t \in Alphabet}
Init == \E d \in MCG!Vars \cup MCG!Funcs : \E m \in Muts(Len(Tokens(d))) : MInit(d, m)
Next == (GNext /\ UNCHANGED <<mut, mtoks>>) \/ MApply
Spec == Init /\ [][Next]_<<gvars, mut, mtoks>>

OracleSound == phase = "done" => Judge(toks, "accept", "", TRUE) = ""
EditShape == mtoks # <<>> =>
   CASE mut.op \in {"none", "rep", "swap"} -> Len(mtoks) = Len(toks)
     [] mut.op = "del" -> Len(mtoks) = Len(toks) - 1
     [] OTHER -> Len(mtoks) = Len(toks) + 1
=============================================================================
