------------------------------- MODULE Text -------------------------------
(* Text as sequences of code points (TLC strings are atomic).              *)
(* Operators shared by the specs that talk about emitted source text.       *)
EXTENDS Naturals, Sequences, FiniteSets
LOCAL INSTANCE SequencesExt

TAB == 9
NL  == 10
VT  == 11
FF  == 12
CR  == 13
SP  == 32

\* what Python's str.strip()/lstrip() remove (ASCII subset)
IsWS(c) == c \in {SP, TAB, NL, VT, FF, CR, 28, 29, 30, 31}

MinOf(S) == CHOOSE x \in S : \A y \in S : x <= y
MaxOf(S) == CHOOSE x \in S : \A y \in S : x >= y

NonWSIdx(s) == {i \in 1..Len(s) : ~IsWS(s[i])}
AllBlank(s) == NonWSIdx(s) = {}
LStrip(s) == IF AllBlank(s) THEN <<>> ELSE SubSeq(s, MinOf(NonWSIdx(s)), Len(s))
RStrip(s) == IF AllBlank(s) THEN <<>> ELSE SubSeq(s, 1, MaxOf(NonWSIdx(s)))
Strip(s)  == IF AllBlank(s) THEN <<>> ELSE SubSeq(s, MinOf(NonWSIdx(s)), MaxOf(NonWSIdx(s)))
NoWS(s)   == SelectSeq(s, LAMBDA c : ~IsWS(c))

Rep(c, n) == [i \in 1..n |-> c]

IsPrefixOfT(p, s) == Len(p) <= Len(s) /\ SubSeq(s, 1, Len(p)) = p
IsSuffixOfT(p, s) == Len(p) <= Len(s) /\ SubSeq(s, Len(s) - Len(p) + 1, Len(s)) = p
DropSuffix(s, n) == SubSeq(s, 1, Len(s) - n)
DropPrefix(s, n) == SubSeq(s, n + 1, Len(s))

\* positions of separators, bracketed by 0 and Len+1, ascending (no recursion: long inputs)
SepPositions(s, IsSep(_)) ==
  SetToSortSeq({0, Len(s) + 1} \cup {i \in 1..Len(s) : IsSep(s[i])}, <)
SplitOn(s, IsSep(_)) ==
  LET P == SepPositions(s, IsSep)
  IN [k \in 1..(Len(P) - 1) |-> SubSeq(s, P[k] + 1, P[k + 1] - 1)]

RECURSIVE Flatten(_)
Flatten(ss) == IF ss = <<>> THEN <<>> ELSE Head(ss) \o Flatten(Tail(ss))

HasChar(s, c) == \E i \in 1..Len(s) : s[i] = c

\* all sequences over S of length 0..n
RECURSIVE SeqsUpTo(_, _)
SeqsUpTo(S, n) == IF n = 0 THEN {<<>>}
                  ELSE LET P == SeqsUpTo(S, n - 1)
                       IN P \cup {Append(p, c) : p \in {q \in P : Len(q) = n - 1}, c \in S}
=============================================================================
