SPECIFICATION Spec
CHECK_DEADLOCK FALSE
CONSTANTS
  Bases = {"int"}
  MaxLevels = 1
  MaxParams = 0
  Alphabet = {"(", ")", ",", "="}
INVARIANT OracleSound
INVARIANT EditShape
INVARIANT BalancedPrefix
