SPECIFICATION Spec
INVARIANT InvInnermost
INVARIANT InvNoSibling
INVARIANT InvDeclaredBefore
INVARIANT InvQualified
CHECK_DEADLOCK FALSE
