---------------------------- MODULE MC_CallBridge ----------------------------
(* Every small signature x caller values through a wrapper that follows the  *)
(* contract: the contract is total (every library input is determined by the *)
(* caller's inputs, an implied expression or a default) and positions are     *)
(* consistent on both sides.                                                  *)
EXTENDS CallBridge
NoDef == [has |-> FALSE, v |-> [t |-> "i", v |-> <<0>>]]
Pm(ty, it, api, conv, ref, d) == [ty |-> ty, intent |-> it, api |-> api, conv |-> conv, ref |-> ref, def |-> d, back |-> "id"]
ParamChoices(pos) ==
  {Pm("int", it, "arg", "id", 0, NoDef) : it \in {"in", "out", "inout"}}
  \cup {Pm("str", it, "arg", cv, 0, NoDef) : it \in {"in", "inout"}, cv \in {"id", "rtrim"}}
  \cup {Pm("int", "in", "arg", "id", 0, [has |-> TRUE, v |-> [t |-> "i", v |-> <<7>>]])}
  \cup (IF pos > 1 THEN {Pm("int", "in", a, "id", 1, NoDef) : a \in {"implied_len", "implied_len_trim", "implied_size"}} ELSE {})
  \cup {Pm("int", "out", "hidden", "id", 0, NoDef)}
Sigs == {[params |-> ps, nsup |-> n, self |-> s, result |-> r, resback |-> "id"] :
           ps \in {<<>>} \cup {<<a>> : a \in ParamChoices(1)} \cup {<<a, b>> : a \in ParamChoices(1), b \in ParamChoices(2)},
           n \in 0..2, s \in BOOLEAN, r \in {"none", "int"}}
Admitted(s) ==
  /\ s.nsup <= Len(s.params)
  /\ \A k \in 1..Len(s.params) :
        /\ (k > s.nsup => (s.params[k].def.has /\ \A j \in k..Len(s.params) : s.params[j].def.has))
        /\ (s.params[k].api \in {"implied_len", "implied_len_trim"} => (s.params[1].ty = "str" /\ s.params[1].api = "arg" /\ IsIn(s.params[1]) /\ s.nsup >= 1))
        /\ (s.params[k].api = "implied_size" => FALSE)     \* no array rows in this tiny model
Vals == {[t |-> "i", v |-> <<1>>], [t |-> "s", v |-> <<97, 32>>], [t |-> "s", v |-> <<>>]}
Obj == [t |-> "o", v |-> <<1>>]
Fits(s, ci) == /\ Len(ci) = Cardinality({k \in 1..Len(s.params) : k <= s.nsup /\ s.params[k].api = "arg" /\ IsIn(s.params[k])}) + (IF s.self THEN 1 ELSE 0)
RECURSIVE ValSeqs(_)
ValSeqs(n) == IF n = 0 THEN {<<>>} ELSE {Append(q, v) : q \in ValSeqs(n - 1), v \in Vals}
Init == \E s \in {x \in Sigs : Admitted(x)} : CInit(s)
DoInvoke == \E n \in 0..2 : \E q \in ValSeqs(n) :
               LET ci == IF sig.self THEN <<Obj>> \o q ELSE q IN
               /\ Fits(sig, ci)
               /\ \A k \in 1..Len(sig.params) : (Supplied(k) /\ IsIn(sig.params[k])) =>
                      ((sig.params[k].ty = "str") <=> (ci[CallerPos(k)].t = "s"))
               /\ Invoke("f", ci)
\* a wrapper that follows the contract
DoEnter == /\ pc = "invoked"
           /\ Enter(target, [j \in 1..NLibIn |->
                  IF sig.self /\ j = 1 THEN caller_in[1]
                  ELSE Expected(CHOOSE k \in InParams : LibPos(k) = j)])
DoExit == \E q \in ValSeqs(2) : Len(q) >= NLibOut /\ Exit(SubSeq(q, 1, NLibOut))
DoReturn == /\ pc = "exited"
            /\ Return([j \in 1..NCallerOut |->
                  IF HasRes /\ j = 1 THEN lib_out[1]
                  ELSE lib_out[LibOutPos(CHOOSE k \in OutParams : sig.params[k].api = "arg" /\ k <= sig.nsup /\ CallerOutPos(k) = j)]])
Next == DoInvoke \/ DoEnter \/ DoExit \/ DoReturn
Spec == Init /\ [][Next]_cvars
Total == pc = "invoked" => \A k \in InParams : Expected(k).t # "?"
PositionsInjective == \A j, k \in InParams : (j # k) => LibPos(j) # LibPos(k)
=============================================================================
