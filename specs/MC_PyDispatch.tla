---------------------------- MODULE MC_PyDispatch ----------------------------
(* Every way of splitting an argument list between positional and keyword    *)
(* form binds the same values: for a 3-parameter signature with one default   *)
(* and an intent(out) parameter in the middle, and for an overload set.       *)
EXTENDS PyDispatch
NoDef == [has |-> FALSE, v |-> [t |-> "i", v |-> <<0>>]]
Def7 == [has |-> TRUE, v |-> [t |-> "i", v |-> <<7>>]]
Pm(ty, it, d) == [ty |-> ty, intent |-> it, api |-> "arg", conv |-> "id", ref |-> 0, def |-> d, back |-> "id"]
S3 == [params |-> <<Pm("int", "in", NoDef), Pm("int", "out", NoDef), Pm("dbl", "in", NoDef), Pm("int", "in", Def7)>>,
       nsup |-> 0, self |-> FALSE, result |-> "int", resback |-> "id"]
C3 == [target |-> "f(int,int*,double,int)", sig |-> S3, names |-> <<"a", "x", "k">>]
Ov1 == [target |-> "g(int)", sig |-> [S3 EXCEPT !.params = <<Pm("int", "in", NoDef)>>], names |-> <<"a">>]
Ov2 == [target |-> "g(double)", sig |-> [S3 EXCEPT !.params = <<Pm("dbl", "in", NoDef)>>], names |-> <<"a">>]
Ov3 == [target |-> "g(int,str)", sig |-> [S3 EXCEPT !.params = <<Pm("int", "in", NoDef), Pm("str", "in", NoDef)>>], names |-> <<"a", "s">>]
Vals == {[t |-> "i", v |-> <<1>>], [t |-> "d", v |-> <<10>>], [t |-> "s", v |-> <<97>>]}
Names == {"a", "x", "k", "s", "zz"}
VARIABLES cands, pos, kw
RECURSIVE VSeqs(_)
VSeqs(n) == IF n = 0 THEN {<<>>} ELSE VSeqs(n - 1) \cup {Append(q, v) : q \in {x \in VSeqs(n - 1) : Len(x) = n - 1}, v \in Vals}
KwSeqs == {<<>>} \cup {<<[n |-> a, v |-> v]>> : a \in Names, v \in Vals}
          \cup {<<[n |-> a, v |-> v], [n |-> b, v |-> w]>> : a \in Names, b \in Names, v \in Vals, w \in Vals}
Init == cands \in {<<C3>>, <<Ov1, Ov2, Ov3>>} /\ pos \in VSeqs(3) /\ kw \in KwSeqs
Next == UNCHANGED <<cands, pos, kw>>
Spec == Init /\ [][Next]_<<cands, pos, kw>>
Sel == Chosen(cands, pos, kw)
\* moving the last positional argument to keyword form changes neither the overload nor the values
SplitInvariant ==
  (Sel # 0 /\ Len(pos) >= 1 /\ cands[Sel].names[Len(pos)] \notin KwNames(kw)) =>
     LET c == cands[Sel]
         pos2 == SubSeq(pos, 1, Len(pos) - 1)
         kw2 == Append(kw, [n |-> c.names[Len(pos)], v |-> pos[Len(pos)]])
     IN /\ Chosen(cands, pos2, kw2) = Sel
        /\ CallerIn(c, pos2, kw2) = CallerIn(c, pos, kw)
        /\ NSup(c, pos2, kw2) = NSup(c, pos, kw)
\* the arity passed to C++ always covers intent(out) parameters that precede an omitted default
AritySound == Sel # 0 => NSup(cands[Sel], pos, kw) \in 0..Len(cands[Sel].sig.params)
FirstMatchWins == Sel # 0 => \A j \in 1..(Sel - 1) : ~Accepts(cands[j], pos, kw)
=============================================================================
