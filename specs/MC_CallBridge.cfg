SPECIFICATION Spec
CHECK_DEADLOCK FALSE
INVARIANT Total
INVARIANT PositionsInjective
INVARIANT Delivered
INVARIANT HandedBack
