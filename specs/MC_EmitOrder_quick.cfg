SPECIFICATION MSpec
CONSTANT N = 3
INVARIANT ClosureOK
INVARIANT OnceOK
INVARIANT DepsFirstOK
CHECK_DEADLOCK FALSE
