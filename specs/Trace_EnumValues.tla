-------------------------- MODULE Trace_EnumValues --------------------------
(* Trace validation for C11: an enumeration given to the real EnumNode and  *)
(* the value text the real wrap_enum functions emitted for C and Fortran.   *)
EXTENDS EnumValues, Json, IOUtils, TLCExt

Traces == JsonDeserialize(IOEnv.TRACE_FILE)
VARIABLES tid, fin
T == Traces[tid]

TInit == /\ tid \in 1..Len(Traces) /\ fin = FALSE /\ DInit(Traces[tid].members)

TStep == ~fin /\ ~Done /\ Derive /\ UNCHANGED <<tid, fin>>

SameTok(a, b) == a.t = b.t /\ a.v = b.v
SameToks(x, y) == Len(x) = Len(y) /\ \A i \in 1..Len(x) : SameTok(x[i], y[i])
Exact ==
  /\ Len(T.cout) = Len(cout) /\ Len(T.fout) = Len(fout)
  /\ \A i \in 1..Len(cout) : T.cout[i].has = cout[i].has /\ SameToks(T.cout[i].ts, cout[i].ts)
  /\ \A i \in 1..Len(fout) : SameToks(T.fout[i], fout[i])

Verdict ==
  LET n  == Len(members)
      tv == TrueVals(members, n)
      \* harness guard: each value tree must be the parse of its own text
      faithful == \A i \in 1..n : members[i].has =>
                     LET a == EvalCxx(members[i].e, SubSeq(tv.vs, 1, i - 1))
                         b == EvalTok(PrintE(members[i].e), SubSeq(tv.vs, 1, i - 1))
                     IN a.ok = b.ok /\ (a.ok => a.v = b.v)
  IN IF ~tv.ok THEN <<"EXCLUDED", "value undefined in C++ (division by zero)">>
     ELSE IF ~faithful THEN <<"BADTREE", "tree is not the parse of its text">>
     ELSE IF T.cxx # <<>> /\ T.cxx # tv.vs THEN <<"REJECT", "spec evaluator disagrees with g++", tv.vs>>
     ELSE IF Len(T.cout) # n \/ Len(T.fout) # n THEN <<"REJECT", "member missing from output">>
     ELSE IF T.corder # [i \in 1..n |-> i] \/ T.forder # [i \in 1..n |-> i]
          THEN <<"REJECT", "members emitted under other names or in another order">>
     ELSE LET c == CVals(T.cout, n)
              f == FVals(T.fout, n)
              t == IF T.tree = <<>> THEN [ok |-> TRUE, vs |-> tv.vs] ELSE FVals(T.tree, n)
          IN IF ~t.ok \/ t.vs # tv.vs
             \* the harness prints the parser's own tree with every operation parenthesised: grouping (precedence,
             \* associativity) is then explicit in the text
             THEN <<"REJECT", "the expression tree the parser built does not denote the C++ value", t.vs, tv.vs>>
             ELSE IF ~c.ok THEN <<"REJECT", "C value text is not an expression over earlier members">>
             ELSE IF c.vs # tv.vs THEN <<"REJECT", "C header value differs from C++", c.vs, tv.vs>>
             ELSE IF ~f.ok THEN <<"REJECT", "Fortran value text is not an expression over earlier members">>
             ELSE IF f.vs # tv.vs THEN <<"REJECT", "Fortran parameter differs from C++", f.vs, tv.vs>>
             ELSE <<"ACCEPT", IF Exact THEN "exact" ELSE "deviates">>

TVerdict == /\ ~fin /\ Done /\ fin' = TRUE
            /\ PrintT(<<"VERDICT", tid>> \o Verdict)
            /\ UNCHANGED <<dvars, tid>>
TSpec == TInit /\ [][TStep \/ TVerdict]_<<dvars, tid, fin>>
=============================================================================
