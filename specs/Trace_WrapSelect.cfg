SPECIFICATION TSpec
CHECK_DEADLOCK FALSE
INVARIANT OffMeansNoFiles
INVARIANT InItsDirectory
