------------------------------ MODULE StmtTree ------------------------------
(* The statement tables (shroud/statements.py): how the list of statement     *)
(* dictionaries becomes a search tree (update_stmt_tree) and how a wrapper    *)
(* finds the entry for (language, type group, indirection, intent, generated  *)
(* suffix, deref ...) in it (lookup_stmts_tree).  Every conversion the C and  *)
(* Fortran wrappers perform is selected through this lookup (C01, C02, C05).  *)
(*                                                                           *)
(* A statement: [alts  |-> Seq(Seq(part))   name split at "_", each position  *)
(*                                          with its "/" alternatives,        *)
(*               base  |-> name or <<>>,    inherit the *resolved* entry,     *)
(*               mixin |-> Seq(name),       copy the *raw* fields of entries, *)
(*               own   |-> [Fields -> value or Unset]]                        *)
(* A name is a sequence of parts; the first part is the language (c / f).     *)
EXTENDS Naturals, Sequences, FiniteSets, TLC

Unset == "<unset>"

\* --- expansion of "/" alternatives, in the order of compute_stmt_permutations
RECURSIVE Perms(_)
PrefixAll(x, ss) == [i \in 1..Len(ss) |-> <<x>> \o ss[i]]
RECURSIVE Concat(_)
Concat(sss) == IF sss = <<>> THEN <<>> ELSE Head(sss) \o Concat(Tail(sss))
Perms(alts) == IF alts = <<>> THEN << <<>> >>
               ELSE LET rest == Perms(Tail(alts)) IN
                    Concat([k \in 1..Len(Head(alts)) |-> PrefixAll(Head(alts)[k], rest)])

\* --- building: st = [names: Seq(name) in insertion order, scope: name -> fields, raw: name -> fields, err: STRING]
Overlay(under, over) == [f \in DOMAIN under |-> IF over[f] # Unset THEN over[f] ELSE under[f]]
Known(st, n) == \E i \in 1..Len(st.names) : st.names[i] = n

RECURSIVE MixAll(_, _, _)
MixAll(sc, ms, st) == IF ms = <<>> THEN sc ELSE MixAll(Overlay(sc, st.raw[Head(ms)]), Tail(ms), st)

AddOne(st, name, s, defaults) ==
  IF st.err # "" THEN st
  ELSE IF Known(st, name) THEN [st EXCEPT !.err = "duplicate key"]
  ELSE IF s.base # <<>> /\ ~Known(st, s.base) THEN [st EXCEPT !.err = "base not defined before use"]
  ELSE IF s.base = <<>> /\ \E k \in 1..Len(s.mixin) : ~Known(st, s.mixin[k]) THEN [st EXCEPT !.err = "mixin not defined before use"]
  ELSE LET under == IF s.base # <<>> THEN st.scope[s.base]
                    ELSE MixAll(defaults[name[1]], s.mixin, st)
           sc == Overlay(under, s.own)
       IN [names |-> Append(st.names, name),
           scope |-> [n \in DOMAIN st.scope \cup {name} |-> IF n = name THEN sc ELSE st.scope[n]],
           raw |-> [n \in DOMAIN st.raw \cup {name} |-> IF n = name THEN s.own ELSE st.raw[n]],
           err |-> ""]

RECURSIVE AddNames(_, _, _, _), AddStmts(_, _, _)
AddNames(st, ns, s, defaults) == IF ns = <<>> THEN st ELSE AddNames(AddOne(st, Head(ns), s, defaults), Tail(ns), s, defaults)
AddStmts(st, ss, defaults) == IF ss = <<>> THEN st
                              ELSE AddStmts(AddNames(st, Perms(Head(ss).alts), Head(ss), defaults), Tail(ss), defaults)
Empty == [names |-> <<>>, scope |-> <<>>, raw |-> <<>>, err |-> ""]
Build(stmts, defaults) == AddStmts(Empty, stmts, defaults)

\* --- the tree: a step exists for every prefix of an entry's name
IsPrefixOf(p, n) == Len(p) <= Len(n) /\ \A i \in 1..Len(p) : p[i] = n[i]
HasStep(st, p) == \E i \in 1..Len(st.names) : IsPrefixOf(p, st.names[i])

\* --- lookup: follow the parts that lead somewhere, skip the others, remember the last entry passed
RECURSIVE Walk(_, _, _, _)
Walk(st, path, step, found) ==
  IF path = <<>> THEN found
  ELSE LET part == Head(path)  next == Append(step, part) IN
       IF part = "" \/ ~HasStep(st, next) THEN Walk(st, Tail(path), step, found)
       ELSE Walk(st, Tail(path), next, IF Known(st, next) THEN next ELSE found)
\* <<>> stands for "the default entry of the language"
LookupName(st, path) == Walk(st, path, <<>>, <<>>)
Lookup(st, path, defaults) == LET n == LookupName(st, path) IN IF n = <<>> THEN defaults[path[1]] ELSE st.scope[n]

\* --- properties of the design
\* an entry is found under its own name
FindsItself(st) == \A i \in 1..Len(st.names) : LookupName(st, st.names[i]) = st.names[i]
\* what is found is spelled by parts of the path, in order (nothing is invented), and ends at an entry
RECURSIVE IsSubseq(_, _)
IsSubseq(a, b) == IF a = <<>> THEN TRUE ELSE IF b = <<>> THEN FALSE
                  ELSE IF Head(a) = Head(b) THEN IsSubseq(Tail(a), Tail(b)) ELSE IsSubseq(a, Tail(b))
FoundIsOnPath(st, path) == LET n == LookupName(st, path) IN n = <<>> \/ (Known(st, n) /\ IsSubseq(n, path))
\* a more specific entry wins over the general one it extends, when both are on the path
SpecificWins(st, path) ==
  LET n == LookupName(st, path) IN
  \A i \in 1..Len(st.names) : (IsPrefixOf(st.names[i], path) /\ \A k \in 1..Len(path) : path[k] # "")
       => (n # <<>> /\ Len(n) >= Len(st.names[i]))
\* empty parts never matter
RECURSIVE Squeeze(_)
Squeeze(p) == IF p = <<>> THEN <<>> ELSE (IF Head(p) = "" THEN <<>> ELSE <<Head(p)>>) \o Squeeze(Tail(p))
BlanksIgnored(st, path) == LookupName(st, path) = LookupName(st, Squeeze(path))
=============================================================================
