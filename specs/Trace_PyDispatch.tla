--------------------------- MODULE Trace_PyDispatch ---------------------------
(* Trace validation for C03: one Python call of a real, compiled extension    *)
(* module (positional and keyword values), the events of the instrumented     *)
(* library, and what Python got back (values or an exception class).          *)
EXTENDS CallBridge, Json, IOUtils, TLCExt
PD == INSTANCE PyDispatch
Traces == JsonDeserialize(IOEnv.TRACE_FILE)
VARIABLES tid, fin, i, bad
T == Traces[tid]
Idx(t) == PD!Chosen(t.cands, t.pos, t.kw)
NoSig == [params |-> <<>>, nsup |-> 0, self |-> FALSE, result |-> "none", resback |-> "id"]
SigOf(t) == IF Idx(t) = 0 THEN NoSig
            ELSE [t.cands[Idx(t)].sig EXCEPT !.nsup = PD!NSup(t.cands[Idx(t)], t.pos, t.kw)]

TInit == /\ tid \in 1..Len(Traces) /\ fin = FALSE /\ i = 1 /\ bad = <<>> /\ CInit(SigOf(Traces[tid]))

C == T.cands[Idx(T)]
SelfVals == IF sig.self THEN <<T.self>> ELSE <<>>
LibEvents == SelectSeq(T.events, LAMBDA e : e.ev \in {"LibEnter", "LibExit"})

EnterPending == pc \in {"entered", "exited", "returned"} /\ EnterWhy # ""
RetPending == pc = "returned" /\ ReturnWhy # ""

\* the Python call itself is the CallerInvoke; the library events follow; the Python result is the CallerReturn
TStep ==
  /\ ~fin /\ bad = <<>> /\ Idx(T) # 0 /\ ~EnterPending /\ ~RetPending
  /\ \/ /\ pc = "idle" /\ Invoke(C.target, SelfVals \o PD!CallerIn(C, T.pos, T.kw)) /\ UNCHANGED <<i, bad>>
     \/ /\ pc = "invoked"
        /\ IF i <= Len(LibEvents) /\ LibEvents[i].ev = "LibEnter"
           THEN Enter(LibEvents[i].target, LibEvents[i].vals) /\ i' = i + 1 /\ UNCHANGED bad
           ELSE bad' = <<"the call did not reach the library", T.exc>> /\ UNCHANGED <<cvars, i>>
     \/ /\ pc = "entered"
        /\ IF i <= Len(LibEvents) /\ LibEvents[i].ev = "LibExit"
           THEN Exit(LibEvents[i].vals) /\ i' = i + 1 /\ UNCHANGED bad
           ELSE bad' = <<"library call did not return">> /\ UNCHANGED <<cvars, i>>
     \/ /\ pc = "exited"
        /\ IF T.exc # "" THEN bad' = <<"exception raised after the library had been called", T.exc>> /\ UNCHANGED <<cvars, i>>
           ELSE Return(T.ret) /\ UNCHANGED <<i, bad>>
  /\ UNCHANGED <<tid, fin>>

TJudge ==
  /\ ~fin /\ bad = <<>> /\ Idx(T) # 0
  /\ \/ (EnterPending /\ bad' = <<EnterWhy>> \o (IF EnterWhy = "library did not receive the value the caller supplied"
                                                 THEN <<BadIn, lib_in[LibPos(BadIn)], Expected(BadIn)>> ELSE <<entry, target>>))
     \/ (~EnterPending /\ RetPending /\ bad' = <<ReturnWhy>>)
  /\ UNCHANGED <<cvars, tid, fin, i>>

\* Reference counts (the driver measures them around the call): a call leaves every argument object with the count it
\* had, plus one per place the object itself appears in what was returned; an object made for the result is referenced
\* by the result only.  The same holds when the call raises.  T.refs.args / T.refs.res are the surpluses.
RefWhy == IF \E k \in 1..Len(T.refs.args) : T.refs.args[k] # 0
          THEN <<"reference count of an argument object changed across the call",
                 CHOOSE k \in 1..Len(T.refs.args) : T.refs.args[k] # 0, T.refs.args>>
          ELSE IF \E k \in 1..Len(T.refs.res) : T.refs.res[k] # 0
          THEN <<"a returned object carries references nobody holds (leak) or too few", T.refs.res>>
          ELSE <<>>

ErrVerdict ==   \* no overload accepts the arguments
  IF LibEvents # <<>> THEN <<"REJECT", "a call that matches no signature reached the library", LibEvents[1].target>>
  ELSE IF T.exc \notin {"TypeError", "ValueError"} THEN
       <<"REJECT", "a call that matches no signature did not raise TypeError/ValueError", T.exc>>
  ELSE IF RefWhy # <<>> THEN <<"REJECT">> \o RefWhy
  ELSE <<"ACCEPT", "rejected cleanly">>

TVerdict ==
  /\ ~fin
  /\ IF Idx(T) = 0 THEN TRUE ELSE (IF bad # <<>> THEN TRUE ELSE (pc = "returned" /\ ~EnterPending /\ ~RetPending))
  /\ fin' = TRUE
  /\ PrintT(<<"VERDICT", tid>> \o
       (IF Idx(T) = 0 THEN ErrVerdict
        ELSE IF bad # <<>> THEN <<"REJECT">> \o bad
        ELSE IF i <= Len(LibEvents) THEN <<"REJECT", "library was called more than once">>
        ELSE IF RefWhy # <<>> THEN <<"REJECT">> \o RefWhy
        ELSE <<"ACCEPT", "ok">>))
  /\ UNCHANGED <<cvars, tid, i, bad>>
TSpec == TInit /\ [][TStep \/ TJudge \/ TVerdict]_<<cvars, tid, fin, i, bad>>
=============================================================================
