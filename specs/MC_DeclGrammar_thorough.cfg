SPECIFICATION Spec
CHECK_DEADLOCK FALSE
CONSTANTS
  Bases = {"int", "uint", "double", "char", "string", "vecint", "cls"}
  MaxLevels = 2
  MaxParams = 2
INVARIANT BalancedPrefix
INVARIANT Complete
INVARIANT SameShape
