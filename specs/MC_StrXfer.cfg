SPECIFICATION Spec
CHECK_DEADLOCK FALSE
CONSTANTS
  MaxN = 4
INVARIANT NoOOB
INVARIANT LenTrimRule
INVARIANT AllocRule
INVARIANT CopyRule
INVARIANT FillRule
