-------------------------------- MODULE Attrs --------------------------------
(* Attribute legality (property C17), transcribed from docs/input.rst         *)
(* "Attributes".  A row is a declaration target with a type shape and a set  *)
(* of attributes; Legal says whether the documented rules allow it.           *)
EXTENDS Naturals, Sequences, FiniteSets, TLC

\* documented attribute names per target
ArgAttrs  == {"allocatable", "assumedtype", "capsule", "cdesc", "charlen", "deref", "dimension", "external",
              "hidden", "implied", "intent", "len", "len_trim", "name", "owner", "pass", "rank", "size", "value"}
FuncAttrs == {"allocatable", "cdesc", "deref", "dimension", "free_pattern", "len", "name", "owner", "pure", "rank"}
VarAttrs  == {"name", "readonly", "dimension"}
Known(target) == CASE target = "arg" -> ArgAttrs [] target = "func" -> FuncAttrs [] target = "var" -> VarAttrs

\* attribute: [n |-> name, bare |-> BOOLEAN, v |-> value string]
Has(as, n) == \E a \in as : a.n = n
Get(as, n) == CHOOSE a \in as : a.n = n
Lower(s) == CASE s = "IN" -> "in" [] s = "OUT" -> "out" [] s = "INOUT" -> "inout" [] s = "In" -> "in" [] OTHER -> s
IsNat(s) == s \in {"0", "1", "2", "3", "4", "5", "6", "7", "8", "9", "10", "12"}
NatOf(s) == CASE s = "0" -> 0 [] s = "1" -> 1 [] s = "2" -> 2 [] s = "3" -> 3 [] s = "4" -> 4 [] s = "5" -> 5
              [] s = "6" -> 6 [] s = "7" -> 7 [] s = "8" -> 8 [] s = "9" -> 9 [] s = "10" -> 10 [] s = "12" -> 12

\* shape: [ptr |-> 0..2, base |-> "int"|"double"|"char"|"void"|"string", const |-> BOOLEAN]
Why(target, shape, as) ==
  IF \E a \in as : a.n \notin Known(target) THEN "unknown attribute"
  ELSE IF target = "arg" /\ Has(as, "intent") /\
          (Get(as, "intent").bare \/ Lower(Get(as, "intent").v) \notin {"in", "out", "inout"}) THEN "bad intent value"
  ELSE IF target = "arg" /\ Has(as, "intent") /\ shape.ptr = 0 /\ Lower(Get(as, "intent").v) # "in"
       THEN "intent out/inout on a non-pointer"
  ELSE IF Has(as, "deref") /\ target # "var" /\
          (Get(as, "deref").bare \/ Get(as, "deref").v \notin {"allocatable", "pointer", "raw", "scalar"}) THEN "bad deref value"
  ELSE IF Has(as, "deref") /\ target # "var" /\ shape.ptr = 0 THEN "deref on a non-pointer"
  ELSE IF Has(as, "rank") /\ target # "var" /\ (Get(as, "rank").bare \/ ~IsNat(Get(as, "rank").v)) THEN "rank is not an integer"
  ELSE IF Has(as, "rank") /\ target # "var" /\ NatOf(Get(as, "rank").v) > 7 THEN "rank above 7"
  ELSE IF Has(as, "rank") /\ target # "var" /\ NatOf(Get(as, "rank").v) > 0 /\ shape.ptr = 0 THEN "rank on a non-pointer"
  ELSE IF Has(as, "dimension") /\ Get(as, "dimension").bare THEN "dimension without a value"
  ELSE IF Has(as, "dimension") /\ Has(as, "value") THEN "value and dimension"
  ELSE IF Has(as, "dimension") /\ Has(as, "rank") /\ target # "var" THEN "rank and dimension"
  ELSE IF Has(as, "dimension") /\ shape.ptr = 0 THEN "dimension on a non-pointer"
  ELSE IF Has(as, "owner") /\ target # "var" /\
          (Get(as, "owner").bare \/ Get(as, "owner").v \notin {"caller", "library"}) THEN "bad owner value"
  ELSE IF Has(as, "free_pattern") /\ target = "func" THEN "free_pattern not defined in patterns"
  ELSE IF target = "arg" /\ Has(as, "charlen") /\ (shape.base # "char" \/ shape.ptr # 1) THEN "charlen not on char *"
  ELSE IF target = "arg" /\ Has(as, "charlen") /\ Get(as, "charlen").bare THEN "charlen without a value"
  ELSE IF target = "arg" /\ Has(as, "assumedtype") /\ Has(as, "value") THEN "assumedtype and value"
  ELSE ""
Legal(target, shape, as) == Why(target, shape, as) = ""

\* rows whose legality the documentation leaves open: not judged
Open(target, shape, as) ==
  \* "rank of 0 implies scalar": what else may accompany it is left open -- except dimension, which the
  \* documentation excludes for every rank
  \/ Has(as, "rank") /\ ~Get(as, "rank").bare /\ Get(as, "rank").v = "0" /\ ~Has(as, "dimension")
  \/ Has(as, "external") /\ ~shape.fptr
  \/ Has(as, "assumedtype") /\ shape.base # "void"
  \/ Has(as, "pass")
  \/ Has(as, "implied") /\ Get(as, "implied").bare
  \/ Has(as, "name") /\ Get(as, "name").bare
  \/ Has(as, "len") /\ shape.base \notin {"char", "string"}
  \/ Has(as, "len_trim") /\ shape.base \notin {"char", "string"}
  \/ Has(as, "size") \/ Has(as, "capsule") \/ Has(as, "cdesc") \/ Has(as, "allocatable")
  \/ Has(as, "hidden") /\ shape.ptr = 0
  \/ Has(as, "readonly") /\ ~Get(as, "readonly").bare
  \/ Has(as, "pure") /\ ~Get(as, "pure").bare
  \/ Has(as, "value") /\ ~Get(as, "value").bare
  \/ target = "func" /\ Has(as, "len") /\ shape.base \notin {"char", "string"}
  \* array attributes are documented for numeric pointers; other element types are left open
  \/ (Has(as, "dimension") \/ Has(as, "rank") \/ Has(as, "deref")) /\ shape.base \notin {"int", "double"}
  \/ Has(as, "charlen") /\ shape.base = "string"
  \/ Has(as, "owner") /\ shape.ptr = 0
  \/ target = "var" /\ shape.base = "string"

Judge(target, shape, as, outcome, msg) ==
  IF outcome = "hang" THEN "hang"
  ELSE IF outcome = "internal" THEN "internal Python exception"
  ELSE IF Open(target, shape, as) THEN ""
  ELSE IF Legal(target, shape, as) /\ outcome = "reject" THEN "documented attribute use rejected"
  ELSE IF ~Legal(target, shape, as) /\ outcome = "accept" THEN "illegal attribute use accepted: " \o Why(target, shape, as)
  ELSE IF outcome = "reject" /\ msg = "" THEN "rejected without a message"
  ELSE ""
=============================================================================
