------------------------------ MODULE Splicer ------------------------------
(* Splicer blocks (property C12).                                           *)
(*                                                                          *)
(*  R  the splicer-file reader  (splicer.get_splicers): a two-state machine *)
(*     over the lines of a file;                                            *)
(*  E  the block emitter (util.WrapperMixin._push_splicer/_pop_splicer/     *)
(*     _update_splicer_top/_create_splicer) with the documented precedence  *)
(*     force (on the declaration) > user store > generated default;         *)
(*  M  the merge of the three sources into the user store (main.py).        *)
(*                                                                          *)
(* A line is a record [k, tag, id, col]:  k in {"begin","end","text"},      *)
(* tag the dotted block name as a sequence of names, id the identity of the *)
(* line's text, col the column at which the marker words start (the reader  *)
(* only recognises markers that do not start the line).                     *)
EXTENDS Naturals, Sequences, FiniteSets, TLC

VARIABLES
  \* R
  rlines, ri, rst, btag, save, store, rerr,
  \* E
  user, estack, elog, created, nextid,
  \* driver
  pc, prog, pi, elog1

rvars == <<rlines, ri, rst, btag, save, store, rerr>>
evars == <<user, estack, elog, created, nextid>>
vars  == <<rvars, evars, pc, prog, pi, elog1>>

Empty == <<>>                        \* the empty function / sequence
Put(f, k, v) == [x \in (DOMAIN f) \cup {k} |-> IF x = k THEN v ELSE f[x]]

-----------------------------------------------------------------------------
(* R *)

IsBegin(l) == l.k = "begin" /\ l.col > 0
IsEnd(l)   == l.k = "end" /\ l.col > 0

RInit(ls) ==
  /\ rlines = ls /\ ri = 1 /\ rst = "look" /\ btag = <<>> /\ save = <<>>
  /\ store = Empty /\ rerr = ""

RSeeBegin ==
  /\ rerr = "" /\ ri <= Len(rlines) /\ rst = "look" /\ IsBegin(rlines[ri])
  /\ rst' = "collect" /\ btag' = rlines[ri].tag /\ save' = <<>>
  /\ ri' = ri + 1 /\ UNCHANGED <<rlines, store, rerr>>

RIgnore ==                           \* text outside any block is ignored
  /\ rerr = "" /\ ri <= Len(rlines) /\ rst = "look" /\ ~IsBegin(rlines[ri])
  /\ ri' = ri + 1 /\ UNCHANGED <<rlines, rst, btag, save, store, rerr>>

RCollect ==                          \* every line up to the end marker belongs to the body
  /\ rerr = "" /\ ri <= Len(rlines) /\ rst = "collect" /\ ~IsEnd(rlines[ri])
  /\ save' = Append(save, rlines[ri].id)
  /\ ri' = ri + 1 /\ UNCHANGED <<rlines, rst, btag, store, rerr>>

RSeeEnd ==
  /\ rerr = "" /\ ri <= Len(rlines) /\ rst = "collect" /\ IsEnd(rlines[ri])
  /\ IF rlines[ri].tag # btag
     THEN /\ rerr' = "mismatch" /\ UNCHANGED <<store, rst>>
     ELSE /\ store' = Put(store, btag, save) /\ rst' = "look" /\ UNCHANGED rerr
  /\ ri' = ri + 1 /\ UNCHANGED <<rlines, btag, save>>

RDone == rerr # "" \/ ri > Len(rlines)
RStep == RSeeBegin \/ RIgnore \/ RCollect \/ RSeeEnd

\* declarative statement of the reader's contract on well-formed files
WellFormed(ls) ==
  /\ \A i \in 1..Len(ls) : IsBegin(ls[i]) =>
        \E j \in (i + 1)..Len(ls) :
           /\ IsEnd(ls[j]) /\ ls[j].tag = ls[i].tag
           /\ \A m \in (i + 1)..(j - 1) : ls[m].k = "text"
  /\ \A i, j \in 1..Len(ls) : (IsBegin(ls[i]) /\ IsBegin(ls[j]) /\ i # j) => ls[i].tag # ls[j].tag
  /\ \A i \in 1..Len(ls) : IsEnd(ls[i]) =>
        \E j \in 1..(i - 1) : IsBegin(ls[j]) /\ ls[j].tag = ls[i].tag
                               /\ \A m \in (j + 1)..(i - 1) : ls[m].k = "text"
  /\ \A i \in 1..Len(ls) : ls[i].k # "text" => ls[i].col > 0
  \* a name is either a block or a scope of blocks, not both
  /\ \A i, j \in 1..Len(ls) : (IsBegin(ls[i]) /\ IsBegin(ls[j]) /\ Len(ls[i].tag) < Len(ls[j].tag)) =>
        SubSeq(ls[j].tag, 1, Len(ls[i].tag)) # ls[i].tag

BlockBody(ls, i) ==      \* ids between the begin marker at i and its end marker
  LET j == CHOOSE j \in (i + 1)..Len(ls) : IsEnd(ls[j]) /\ \A m \in (i + 1)..(j - 1) : ~IsEnd(ls[m])
  IN [m \in 1..(j - i - 1) |-> ls[i + m].id]

ReaderContract ==
  (RDone /\ WellFormed(rlines)) =>
     /\ rerr = ""
     /\ DOMAIN store = {rlines[i].tag : i \in {i \in 1..Len(rlines) : IsBegin(rlines[i])}}
     /\ \A i \in 1..Len(rlines) : IsBegin(rlines[i]) => store[rlines[i].tag] = BlockBody(rlines, i)

OutsideIgnored ==        \* nothing but lines strictly inside a block is ever stored
  \A p \in DOMAIN store : \A k \in 1..Len(store[p]) :
     \E i \in 1..Len(rlines) : rlines[i].id = store[p][k] /\ ~(i = 1) /\
        \E b \in 1..(i - 1) : IsBegin(rlines[b]) /\ \A m \in (b + 1)..i : ~IsEnd(rlines[m])

-----------------------------------------------------------------------------
(* E *)

Path(name) == Append(estack, name)

EPush(n) == /\ estack' = Append(estack, n) /\ UNCHANGED <<user, elog, created, nextid>>
EPop     == /\ estack # <<>> /\ estack' = SubSeq(estack, 1, Len(estack) - 1)
            /\ UNCHANGED <<user, elog, created, nextid>>
ETop(n)  == /\ estack # <<>> /\ estack' = [estack EXCEPT ![Len(estack)] = n]
            /\ UNCHANGED <<user, elog, created, nextid>>

\* def / force are [has |-> BOOLEAN, b |-> body (sequence of ids)]
Source(p, def, force) ==
  IF force.has THEN "force" ELSE IF p \in DOMAIN user THEN "user"
  ELSE IF def.has THEN "default" ELSE "none"

Chosen(p, def, force) ==
  CASE Source(p, def, force) = "force" -> force.b
    [] Source(p, def, force) = "user" -> user[p]
    [] Source(p, def, force) = "default" -> def.b
    [] OTHER -> <<>>

TextLines(b) == [k \in 1..Len(b) |-> [k |-> "text", tag |-> <<>>, id |-> b[k], col |-> 1]]

ECreate(name, def, force) ==
  LET p == Path(name)
      body == Chosen(p, def, force)
  IN /\ elog' = elog \o << [k |-> "begin", tag |-> p, id |-> nextid, col |-> 3] >>
                     \o TextLines(body)
                     \o << [k |-> "end", tag |-> p, id |-> nextid + 1, col |-> 3] >>
     /\ nextid' = nextid + 2
     /\ created' = Put(created, p, [src |-> Source(p, def, force), body |-> body])
     /\ UNCHANGED <<user, estack>>

\* properties of the emitter
Precedence ==
  \A p \in DOMAIN created :
     created[p].src = "user" => (p \in DOMAIN user /\ created[p].body = user[p])
UnsuppliedNotUser ==
  \A p \in DOMAIN created : (created[p].src \in {"default", "none"}) => p \notin DOMAIN user

=============================================================================
