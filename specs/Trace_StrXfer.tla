---------------------------- MODULE Trace_StrXfer ----------------------------
(* Trace validation for C10: one recorded call of a real string helper       *)
(* (compiled from the text in whelpers.CHelpers, C and C++ variants, under    *)
(* AddressSanitizer) with exact-size buffers: arguments, bytes left behind,   *)
(* return value.  The byte machine is run on the same arguments.              *)
EXTENDS StrXfer, Json, IOUtils, TLCExt
Traces == JsonDeserialize(IOEnv.TRACE_FILE)
VARIABLES tid, fin
T == Traces[tid]

TInit == /\ tid \in 1..Len(Traces) /\ fin = FALSE
         /\ LET t == Traces[tid] IN
            IF t.h = "ArrayAlloc" THEN XInit("none", <<>>, 0, 0, 0, <<>>)
            ELSE XInit(t.h, t.src, t.nsrc, t.ndst, t.ntrim, t.dst0)
TStep == ~fin /\ helper # "none" /\ pc # "done" /\ XNext /\ UNCHANGED <<tid, fin>>

\* ArrayAlloc is judged by its rule directly: element k is the trimmed k-th CHARACTER(len) chunk
ArrayVerdict ==
  LET n == T.nsrc  L == T.len IN
  IF Len(T.out) # n THEN <<"REJECT", "wrong number of strings">>
  ELSE IF \E k \in 1..n : T.out[k] # SubSeq(T.src, (k - 1) * L + 1, (k - 1) * L + RTrimLen(SubSeq(T.src, (k - 1) * L + 1, k * L), L))
       THEN <<"REJECT", "array element is not the trimmed text of its slot">>
  ELSE <<"ACCEPT", "ok">>

Verdict ==
  IF T.asan # "" THEN <<"REJECT", "memory error reported by the sanitizer", T.asan>>
  ELSE IF T.h = "ArrayAlloc" THEN ArrayVerdict
  ELSE IF ~NoOOB THEN <<"REJECT", "model touches memory outside its buffers">>
  ELSE IF T.h = "LenTrim" THEN (IF T.ret = ret THEN <<"ACCEPT", "ok">> ELSE <<"REJECT", "wrong trimmed length", T.ret, ret>>)
  ELSE IF T.h = "StrAlloc" THEN
       (IF Len(T.dst) = ret + 1 /\ T.dst = SubSeq(ExpectedDst, 1, ret + 1) THEN <<"ACCEPT", "ok">>
        ELSE <<"REJECT", "C copy is not the trimmed, NUL-terminated text", T.dst, SubSeq(ExpectedDst, 1, ret + 1)>>)
  ELSE IF T.dst = SubSeq(ExpectedDst, 1, Len(T.dst)) THEN <<"ACCEPT", "ok">>
  ELSE <<"REJECT", "destination is not the truncated / blank padded text", T.dst, SubSeq(ExpectedDst, 1, Len(T.dst))>>

TVerdict == /\ ~fin /\ (helper = "none" \/ pc = "done") /\ fin' = TRUE
            /\ PrintT(<<"VERDICT", tid>> \o Verdict) /\ UNCHANGED <<xvars, tid>>
TSpec == TInit /\ [][TStep \/ TVerdict]_<<xvars, tid, fin>>
=============================================================================
