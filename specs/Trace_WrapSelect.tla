-------------------------- MODULE Trace_WrapSelect --------------------------
(* Trace validation for C15.                                                *)
(*  "run":    configuration + every file the emitters wrote (probe on       *)
(*            write_output_file, in order), the --cfiles/--ffiles contents,  *)
(*            the directory listings and which declarations appear in each   *)
(*            language's output;                                             *)
(*  "toggle": digests of the C and Fortran files of two runs that differ     *)
(*            only in wrap_python / wrap_lua.                                *)
EXTENDS WrapSelect, Json, IOUtils, TLCExt
Traces == JsonDeserialize(IOEnv.TRACE_FILE)
VARIABLES tid, fin, i, bad
T == Traces[tid]
KindOf(cls) == CASE cls = "Wrapc" -> "c" [] cls = "Wrapf" -> "f" [] cls = "Wrapp" -> "py" [] cls = "Wrapl" -> "lua"
                 [] OTHER -> "yaml"
Rank(k) == CASE k = "c" -> 1 [] k = "f" -> 2 [] k = "util" -> 3 [] k = "py" -> 4 [] k = "lua" -> 5 [] k = "done" -> 6
NoCfg == [lib |-> [c |-> FALSE, f |-> FALSE, py |-> FALSE, lua |-> FALSE], decls |-> <<>>,
          dirs |-> [cf |-> "", py |-> "", lua |-> "", yaml |-> ""]]

TInit == /\ tid \in 1..Len(Traces) /\ fin = FALSE /\ i = 1 /\ bad = ""
         /\ WInit(IF Traces[tid].kind = "run" THEN Traces[tid].cfg ELSE NoCfg)

\* consume the next recorded write: advance passes until it is that emitter's turn
TWrite ==
  /\ ~fin /\ bad = "" /\ T.kind = "run" /\ i <= Len(T.writes)
  /\ LET w == T.writes[i]
         k == KindOf(w.cls)
         tg == IF k = "c" /\ Rank(pc) > 1 THEN "util" ELSE k     \* C files after the C pass: the utility file
     IN IF k = "yaml" THEN i' = i + 1 /\ UNCHANGED <<wvars, bad>>
        ELSE IF ~On(k) THEN bad' = "file written for a language that is switched off: " \o w.fname /\ UNCHANGED <<wvars, i>>
        ELSE IF w.dir # DirOf(k) THEN bad' = "file written outside its designated directory: " \o w.fname /\ UNCHANGED <<wvars, i>>
        ELSE IF Rank(pc) < Rank(tg) THEN NextPass /\ UNCHANGED <<i, bad>>
        ELSE IF Rank(pc) > Rank(tg) THEN bad' = "emitter ran out of order: " \o w.fname /\ UNCHANGED <<wvars, i>>
        ELSE IF tg = "util" THEN WriteUtil(w.fname, w.dir) /\ i' = i + 1 /\ UNCHANGED bad
        ELSE Write(k, w.fname, w.dir) /\ i' = i + 1 /\ UNCHANGED bad
  /\ UNCHANGED <<tid, fin>>

SetOf(s) == {s[j] : j \in 1..Len(s)}
Paths(kind) == {<<w.dir, w.file>> : w \in {x \in written : x.kind = kind}}
RunVerdict ==
  IF bad # "" THEN <<"REJECT", bad>>
  ELSE IF SetOf(T.cfiles) # Paths("c") \/ Len(T.cfiles) # Cardinality(Paths("c"))
       THEN <<"REJECT", "--cfiles does not list exactly the C/C++ files written">>
  ELSE IF SetOf(T.ffiles) # Paths("f") \/ Len(T.ffiles) # Cardinality(Paths("f"))
       THEN <<"REJECT", "--ffiles does not list exactly the Fortran files written">>
  ELSE IF ~ListsExact THEN <<"REJECT", "a file was registered twice or not at all">>
  ELSE IF \E j \in 1..Len(T.listing) : T.listing[j] \notin {<<w.dir, w.file>> : w \in written} \cup SetOf(T.aux)
       THEN <<"REJECT", "a file appeared that no emitter reported",
              CHOOSE x \in SetOf(T.listing) : x \notin {<<w.dir, w.file>> : w \in written} \cup SetOf(T.aux)>>
  ELSE IF \E w \in written : <<w.dir, w.file>> \notin SetOf(T.listing) THEN <<"REJECT", "a reported file is not on disk">>
  ELSE IF \E j \in 1..Len(T.present) :
            LET p == T.present[j]
                d == CHOOSE x \in SetOf(cfg.decls) : x.name = p.decl
            IN p.present # Eff(d, p.lang)
       THEN LET j == CHOOSE j \in 1..Len(T.present) :
                        T.present[j].present # Eff(CHOOSE x \in SetOf(cfg.decls) : x.name = T.present[j].decl, T.present[j].lang)
            IN <<"REJECT", "declaration presence does not follow its wrap flag", T.present[j]>>
  \* a namespace whose wrapper for a language is off (with nothing inside that turns it on again) gets no file of
  \* that language; one whose wrapper is on gets its file
  ELSE IF \E j \in 1..Len(T.scopes) : \E w \in written : w.file = T.scopes[j].file /\ ~T.scopes[j].on
       THEN <<"REJECT", "a file was written for a namespace whose wrapper is switched off",
              (CHOOSE j \in 1..Len(T.scopes) : \E w \in written : w.file = T.scopes[j].file /\ ~T.scopes[j].on)>>
  ELSE IF \E j \in 1..Len(T.scopes) : T.scopes[j].on /\ ~\E w \in written : w.file = T.scopes[j].file
       THEN <<"REJECT", "no file was written for a namespace whose wrapper is on">>
  ELSE <<"ACCEPT", "ok">>

ToggleVerdict ==
  IF SetOf(T.a) # SetOf(T.b) THEN <<"REJECT", "switching the Python/Lua wrapper changes C or Fortran files",
                                    CHOOSE x \in (SetOf(T.a) \cup SetOf(T.b)) \ (SetOf(T.a) \cap SetOf(T.b)) : TRUE>>
  ELSE <<"ACCEPT", "ok">>

TVerdict == /\ ~fin /\ (IF T.kind # "run" THEN TRUE ELSE (IF bad # "" THEN TRUE ELSE i > Len(T.writes))) /\ fin' = TRUE
            /\ PrintT(<<"VERDICT", tid>> \o (IF T.kind = "run" THEN RunVerdict ELSE ToggleVerdict))
            /\ UNCHANGED <<wvars, tid, i, bad>>
TSpec == TInit /\ [][TWrite \/ TVerdict]_<<wvars, tid, fin, i, bad>>
=============================================================================
