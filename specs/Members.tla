------------------------------- MODULE Members -------------------------------
(* Member variables of a wrapped class or struct (docs/classes.rst "Member    *)
(* Variables", docs/struct.rst).  A declaration inside a class that is not a   *)
(* function gives the wrappers a getter and -- unless it is +readonly -- a     *)
(* setter (C: <class>_get_<name>/_set_<name>, Fortran: type-bound procedures,  *)
(* Python: descriptors).  They are the object's member itself, not a copy:     *)
(* what the wrapper writes the library's own methods see, what the library     *)
(* writes the getter returns, another object and another member stay as they  *)
(* were, and a read-only member has no way to be written from outside.         *)
(*                                                                             *)
(* Abstract state: the member values of every live object.  Actions are the    *)
(* five things that can happen to them; the conformance harness logs each of   *)
(* them from a driver (wrapper side) and from the instrumented library         *)
(* (library side) and Trace_Members replays the log.                           *)
EXTENDS Naturals, Integers, FiniteSets, TLC

CONSTANTS Obj,        \* object identities
          Member,     \* member names
          ReadOnly,   \* subset of Member declared +readonly
          Val         \* values

VARIABLES live,       \* set of constructed objects
          val         \* val[o][m]

mvars == <<live, val>>

\* what the library's constructor stores for its argument v (the harness knows the library)
InitOf(m, v) == v

MInit == live = {} /\ val = [o \in Obj |-> [m \in Member |-> 0]]

\* a constructor of the library ran (through a wrapper or inside the library: clone, factory)
New(o, init) == /\ o \notin live /\ live' = live \cup {o}
                /\ val' = [val EXCEPT ![o] = init]
\* the library destroyed an object
Delete(o) == /\ o \in live /\ live' = live \ {o} /\ UNCHANGED val
\* wrapper setter: only for members that are not read-only
WSet(o, m, v) == /\ o \in live /\ m \in Member \ ReadOnly
                 /\ val' = [val EXCEPT ![o][m] = v] /\ UNCHANGED live
\* wrapper getter returning r
WGet(o, m, r) == /\ o \in live /\ m \in Member /\ r = val[o][m] /\ UNCHANGED mvars
\* an assignment of a value of the wrong type through a wrapper that checks types (Python): it is refused with an
\* exception and the member keeps its value
WBad(o, m, raised) == /\ o \in live /\ m \in Member /\ raised = 1 /\ UNCHANGED mvars
\* a method of the library writes / reads the member
LSet(o, m, v) == /\ o \in live /\ m \in Member
                 /\ val' = [val EXCEPT ![o][m] = v] /\ UNCHANGED live
LGet(o, m, r) == /\ o \in live /\ m \in Member /\ r = val[o][m] /\ UNCHANGED mvars

MNext == \/ \E o \in Obj, v \in Val : New(o, [m \in Member |-> v])
         \/ \E o \in Obj : Delete(o)
         \/ \E o \in Obj, m \in Member, v \in Val : WSet(o, m, v) \/ LSet(o, m, v)
         \/ \E o \in Obj, m \in Member, r \in Val : WGet(o, m, r) \/ LGet(o, m, r)
MSpec == MInit /\ [][MNext]_mvars

TypeOK == /\ live \subseteq Obj
          /\ \A o \in Obj, m \in Member : val[o][m] \in Val \cup {0}
\* a step changes at most one member of one object (constructors aside)
OneCell == [][\/ live' # live
              \/ Cardinality({<<o, m>> \in Obj \X Member : val'[o][m] # val[o][m]}) <= 1]_mvars
\* a read-only member changes only when the library changes it; the spec offers the wrapper no action for it:
\* stated as an action property over the wrapper-side actions
ReadOnlyKept == [][\A o \in Obj, m \in ReadOnly :
                     (val'[o][m] # val[o][m]) => (\/ o \notin live
                                                  \/ \E v \in Val : LSet(o, m, v))]_mvars
=============================================================================
