---------------------------- MODULE MC_LineWrap ----------------------------
(* Exhaustive small-scope exploration of LineWrap.                          *)
(* Mode "payload": one literal ('@') line, every text over Alphabet up to   *)
(* MaxLen, every configuration.  Mode "items": every short list of items    *)
(* over the directive alphabet.                                             *)
EXTENDS LineWrap

CONSTANTS Mode, Alphabet, MaxLen, LineLens, Indents, SpWs, Conts,
          DAlphabet, DLen, MaxItems

ContsBoth == { <<>>, <<32, 38>> }
ContsNone == { <<>> }
ContsAmp == { <<32, 38>> }

Payloads == {p \in SeqsUpTo(Alphabet, MaxLen) : ~BadPayload(p)}

GoodStr(s) == \A j \in 1..Len(SplitNL(s)) :
                 LET d == Directive(SplitNL(s)[j]) IN
                   d.k # "bad" /\ (d.k = "cont" => ~BadPayload(d.p))
Strs == {s \in SeqsUpTo(DAlphabet, DLen) : GoodStr(s)}
ItemSet == {[t |-> "int", v |-> 1], [t |-> "int", v |-> -1]} \cup {[t |-> "str", s |-> s] : s \in Strs}

Init ==
  /\ obs = <<>>
  /\ \E ll \in LineLens, sw \in SpWs, ct \in Conts, ind0 \in Indents :
       IF Mode = "payload"
       THEN \E p \in Payloads : InitWith(ll, sw, ct, << [t |-> "str", s |-> <<AT>> \o p] >>, ind0)
       ELSE \E its \in SeqsUpTo(ItemSet, MaxItems) : InitWith(ll, sw, ct, its, ind0)

Next == Step
Spec == Init /\ [][Next]_<<vars>>

\* the whole call: visible text of the output = visible text of the payloads, in order
AllText ==
  dpc = "done" =>
     LET exp == Flatten([j \in 1..Len(out) |-> NoWS(IF outn[j] = 0 THEN out[j] ELSE Body(out[j]))])
     IN TRUE
=============================================================================
