---------------------------- MODULE MC_StmtTree ----------------------------
(* Every table of up to NStmts statements over a small alphabet of parts,    *)
(* every path of up to 4 parts: the lookup properties hold whenever the      *)
(* table builds.                                                             *)
EXTENDS StmtTree
CONSTANTS NStmts, Wide
Parts == {"c", "a", "b", "in"}
Fields == {"x"}
Alts1 == {<<p>> : p \in Parts} \cup {<<"a", "b">>}
NameAlts == {<<a>> : a \in {<<"c">>}} \cup {<<<<"c">>, a>> : a \in Alts1} \cup {<<<<"c">>, a, b>> : a \in Alts1, b \in {<<"in">>, <<"a">>}}
Names == {<<"c">>, <<"c", "a">>, <<"c", "b">>, <<"c", "a", "in">>}
Bases == IF Wide THEN {<<>>} \cup Names ELSE {<<>>, <<"c">>, <<"c", "a">>}
Mixins == IF Wide THEN {<<>>} \cup {<<n>> : n \in Names} ELSE {<<>>, <<<<"c", "a">>>>}
Stmt == [alts : NameAlts, base : Bases, mixin : Mixins, own : [Fields -> {Unset, "1", "2"}]]
Defaults == [l \in {"c"} |-> [f \in Fields |-> "0"]]
Paths == {<<"c">>} \cup {<<"c", p>> : p \in Parts \cup {""}} \cup {<<"c", p, q>> : p \in Parts \cup {""}, q \in Parts}
         \cup {<<"c", p, q, r>> : p \in {"a", "b", ""}, q \in {"a", "in", "z"}, r \in {"in", "b"}}

VARIABLES stmts, built
Init == /\ stmts \in [1..NStmts -> Stmt] /\ built = Build(stmts, Defaults)
Next == UNCHANGED <<stmts, built>>
Spec == Init /\ [][Next]_<<stmts, built>>

OK == built.err = ""
InvFindsItself == OK => FindsItself(built)
InvOnPath == OK => \A p \in Paths : FoundIsOnPath(built, p)
InvSpecific == OK => \A p \in Paths : SpecificWins(built, p)
InvBlanks == OK => \A p \in Paths : BlanksIgnored(built, p)
\* a base resolves to the value the base entry resolved to, unless overridden
InvBase == OK => \A i \in 1..NStmts : \A n \in {Perms(stmts[i].alts)[k] : k \in 1..Len(Perms(stmts[i].alts))} :
              (stmts[i].base # <<>> /\ stmts[i].own["x"] = Unset) => built.scope[n]["x"] = built.scope[stmts[i].base]["x"]
=============================================================================
