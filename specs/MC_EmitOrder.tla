---------------------------- MODULE MC_EmitOrder ----------------------------
(* Every dependency relation on N helpers (cycles included: the generator's  *)
(* `done` mark must break them) x every requested set.                       *)
EXTENDS EmitOrder
CONSTANT N
VARIABLES deps, req
H == 1..N
\* each helper depends on at most two others, in either listed order
DepLists == {<<>>} \cup {<<a>> : a \in H} \cup {<<a, b>> : a \in H, b \in H}
MInit == /\ deps \in [H -> DepLists] /\ req \in SUBSET H /\ EInit
MNext == UNCHANGED <<deps, req, evars>>
MSpec == MInit /\ [][MNext]_<<deps, req, evars>>
Acyclic == \A n \in H : \A k \in 1..Len(deps[n]) : n \notin Reach({deps[n][k]}, deps)
ClosureOK == Closure(req, deps)
OnceOK == Once(req, deps)
DepsFirstOK == Acyclic => DepsFirst(req, deps)
=============================================================================
