------------------------------ MODULE Registry ------------------------------
(* Output is a pure function of the inputs (property C07).                  *)
(*                                                                          *)
(* The generator keeps process-wide registries (type registry, statement    *)
(* tables resolved for a language, helper tables, capsule tables).  A run   *)
(* is Initialize ; Generate ; Emit.  Each registry is abstracted to the set *)
(* of earlier libraries whose data it still holds ("contributors").         *)
(* Pure: when generation starts, no registry holds data of another library, *)
(* so the output of a run does not depend on the history of the process.    *)
EXTENDS Naturals, Sequences, FiniteSets, TLC

CONSTANTS Libs, Regs

VARIABLES hist,        \* libraries run so far in this process, in order
          contrib,     \* registry -> set of libraries whose data it holds
          cur, pc      \* current library, phase

rvars == <<hist, contrib, cur, pc>>

RInit == hist = <<>> /\ contrib = [r \in Regs |-> {}] /\ cur = "none" /\ pc = "idle"

Begin(l) == /\ pc = "idle" /\ cur' = l /\ pc' = "init" /\ UNCHANGED <<hist, contrib>>
\* the design: every registry is re-created (or restored to its pristine content) at the start of a run
Initialize == /\ pc = "init"
              /\ contrib' = [r \in Regs |-> {}]
              /\ pc' = "generate" /\ UNCHANGED <<hist, cur>>
\* generation and emission read every registry and leave the library's data in them
Generate == /\ pc = "generate"
            /\ contrib' = [r \in Regs |-> contrib[r] \cup {cur}]
            /\ pc' = "emit" /\ UNCHANGED <<hist, cur>>
Emit == /\ pc = "emit"
        /\ hist' = Append(hist, cur) /\ pc' = "idle" /\ cur' = "none" /\ UNCHANGED contrib

RNext == (\E l \in Libs : Begin(l)) \/ Initialize \/ Generate \/ Emit

Pure == pc \in {"generate"} => \A r \in Regs : contrib[r] = {}
NoForeignAtEmit == pc = "emit" => \A r \in Regs : contrib[r] \subseteq {cur}
=============================================================================
