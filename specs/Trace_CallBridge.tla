--------------------------- MODULE Trace_CallBridge ---------------------------
(* Trace validation for C01 / C02 (and the call part of C03, C18): one       *)
(* recorded wrapper call = the events logged by the driver and by the         *)
(* instrumented subject library, with the signature of the declaration.       *)
EXTENDS CallBridge, Json, IOUtils, TLCExt
Traces == JsonDeserialize(IOEnv.TRACE_FILE)
VARIABLES tid, fin, i, bad
T == Traces[tid]

TInit == /\ tid \in 1..Len(Traces) /\ fin = FALSE /\ i = 1 /\ bad = <<>> /\ CInit(Traces[tid].sig)

Expect == CASE pc = "idle" -> "CallerInvoke" [] pc = "invoked" -> "LibEnter" [] pc = "entered" -> "LibExit"
            [] pc = "exited" -> "CallerReturn" [] OTHER -> "none"

EnterPending == pc \in {"entered", "exited", "returned"} /\ EnterWhy # ""
RetPending == pc = "returned" /\ ReturnWhy # ""

TEvent ==
  /\ ~fin /\ bad = <<>> /\ i <= Len(T.events) /\ ~EnterPending /\ ~RetPending
  /\ LET e == T.events[i] IN
     IF e.ev # Expect THEN bad' = <<"event out of protocol order", e.ev, Expect>> /\ UNCHANGED <<cvars, i>>
     ELSE /\ CASE e.ev = "CallerInvoke" -> Invoke(e.target, e.vals)
               [] e.ev = "LibEnter" -> Enter(e.target, e.vals)
               [] e.ev = "LibExit" -> Exit(e.vals)
               [] e.ev = "CallerReturn" -> Return(e.vals)
          /\ i' = i + 1 /\ UNCHANGED bad
  /\ UNCHANGED <<tid, fin>>

\* judged after each consumed event
TJudge ==
  /\ ~fin /\ bad = <<>>
  /\ \/ (EnterPending /\
         bad' = <<EnterWhy>> \o (IF EnterWhy = "library did not receive the value the caller supplied"
                                 THEN <<BadIn, lib_in[LibPos(BadIn)], Expected(BadIn)>> ELSE <<entry, target>>))
     \/ (~EnterPending /\ RetPending /\
         bad' = <<ReturnWhy>> \o (IF ReturnWhy = "caller did not receive the output argument the library produced"
                                  THEN <<BadOut>> ELSE <<>>))
  /\ UNCHANGED <<cvars, tid, fin, i>>

Stuck == i > Len(T.events) /\ pc # "returned"
TVerdict ==
  /\ ~fin /\ (IF bad # <<>> THEN TRUE ELSE (i > Len(T.events) /\ ~EnterPending /\ ~RetPending))
  /\ fin' = TRUE
  /\ PrintT(<<"VERDICT", tid>> \o
       (IF bad # <<>> THEN <<"REJECT">> \o bad
        ELSE IF Stuck THEN <<"REJECT", "call did not complete the protocol", pc>>
        ELSE <<"ACCEPT", "ok">>))
  /\ UNCHANGED <<cvars, tid, i, bad>>

TSpec == TInit /\ [][TEvent \/ TJudge \/ TVerdict]_<<cvars, tid, fin, i, bad>>
=============================================================================
