--------------------------- MODULE Trace_LineWrap ---------------------------
(* Trace validation for C13: every recorded call of write_lines /          *)
(* write_continue (items, configuration, physical lines written) is        *)
(* replayed through LineWrap; the acceptor decides, W gives exactness.     *)
EXTENDS LineWrap, Json, IOUtils, TLCExt

Traces == JsonDeserialize(IOEnv.TRACE_FILE)

VARIABLES tid, fin
tvars == <<vars, tid, fin>>

TInit ==
  /\ tid \in 1..Len(Traces)
  /\ fin = FALSE
  /\ LET t == Traces[tid] IN
       /\ obs = t.obs
       /\ InitWith(t.linelen, t.spw, t.cont, t.items, t.indent)

Running == ~fin /\ apc # "reject" /\ dpc # "done"

TStep == Running /\ Step /\ UNCHANGED <<tid, fin>>

TVerdict ==
  /\ ~fin /\ ~Running
  /\ fin' = TRUE
  /\ IF Traces[tid].want # Traces[tid].linelen
     \* C_line_length governs the C, C++, Python and Lua files, F_line_length the Fortran files (docs/reference.rst)
     THEN PrintT(<<"VERDICT", tid, "REJECT", "the emitter wraps at another language's line length", Traces[tid].linelen, Traces[tid].want>>)
     ELSE IF apc = "reject"
     THEN PrintT(<<"VERDICT", tid, "REJECT", why, ak>>)
     ELSE IF apc = "excluded" THEN PrintT(<<"VERDICT", tid, "EXCLUDED", "outside the helper's documented domain">>)
     ELSE PrintT(<<"VERDICT", tid, "ACCEPT",
                   IF out = obs /\ indent = Traces[tid].indent_end THEN "exact" ELSE "deviates">>)
  /\ UNCHANGED <<vars, obs, tid>>

TNext == TStep \/ TVerdict
TSpec == TInit /\ [][TNext]_tvars
=============================================================================
