------------------------------ MODULE PyDispatch ------------------------------
(* The Python front-end of the call contract (property C03).                 *)
(*                                                                           *)
(* A Python call supplies positional values and keyword values.  The wrapper *)
(* (1) parses them against the declared input parameters (intent in/inout,   *)
(*     in declaration order, by position or by name; intent(out), implied    *)
(*     and hidden parameters are not taken from the call),                   *)
(* (2) for an overloaded name tries the overloads in declaration order and   *)
(*     takes the first whose parameters accept the arguments,                *)
(* (3) calls the library with the supplied values and the C++ defaults of    *)
(*     omitted trailing parameters,                                          *)
(* (4) returns the result followed by every out/inout argument.              *)
(* A call that matches no overload raises TypeError or ValueError and never  *)
(* reaches the library.                                                      *)
(* cands: sequence of [target, sig, names (of the input parameters)]         *)
EXTENDS Integers, Sequences, FiniteSets, TLC

IsIn(p) == p.intent \in {"in", "inout"} /\ p.api = "arg"
InIdx(s) == {k \in 1..Len(s.params) : IsIn(s.params[k])}
\* the k-th input parameter (declaration order)
NthIn(s, j) == CHOOSE k \in InIdx(s) : Cardinality({i \in InIdx(s) : i <= k}) = j
NIn(s) == Cardinality(InIdx(s))

KwNames(kw) == {kw[i].n : i \in 1..Len(kw)}
KwVal(kw, n) == kw[CHOOSE i \in 1..Len(kw) : kw[i].n = n].v

\* does a Python value fit a parameter type?  (an int is accepted where a float is expected)
Fits(ty, val) ==
  \/ ty = "int" /\ val.t = "i"
  \/ ty = "dbl" /\ val.t \in {"d", "i"}
  \/ ty = "bool" /\ val.t = "b"            \* parsed with O! and PyBool_Type: only a bool
  \/ ty = "str" /\ val.t = "s"
  \/ ty = "obj" /\ val.t = "o"
  \/ ty = "arri" /\ val.t = "ai"          \* a list of integers
  \/ ty = "arrd" /\ val.t = "ad"          \* a list of floats
  \/ ty = "pt" /\ val.t = "ai"            \* an instance of the struct's Python class (logged field by field)

\* how the j-th input parameter is supplied by (pos, kw):  "pos" | "kw" | "both" | "none"
How(c, pos, kw, j) ==
  LET nm == c.names[j] IN
  IF j <= Len(pos) /\ nm \in KwNames(kw) THEN "both"
  ELSE IF j <= Len(pos) THEN "pos" ELSE IF nm \in KwNames(kw) THEN "kw" ELSE "none"
ValOf(c, pos, kw, j) == IF j <= Len(pos) THEN pos[j] ELSE KwVal(kw, c.names[j])

\* a candidate accepts the call
Accepts(c, pos, kw) ==
  LET s == c.sig  n == NIn(s) IN
  /\ Len(pos) <= n
  /\ KwNames(kw) \subseteq {c.names[j] : j \in 1..n}
  /\ Cardinality(KwNames(kw)) = Len(kw)
  /\ \A j \in 1..n : How(c, pos, kw, j) # "both"
  /\ \A j \in 1..n : How(c, pos, kw, j) = "none" => s.params[NthIn(s, j)].def.has
  \* the supplied parameters are a prefix: an omitted defaulted parameter is followed by omitted ones only
  /\ \A j \in 1..n : How(c, pos, kw, j) = "none" => \A m \in j..n : How(c, pos, kw, m) = "none"
  /\ \A j \in 1..n : How(c, pos, kw, j) \in {"pos", "kw"} =>
        Fits(s.params[NthIn(s, j)].ty, ValOf(c, pos, kw, j))

Chosen(cands, pos, kw) ==
  LET ok == {i \in 1..Len(cands) : Accepts(cands[i], pos, kw)} IN
  IF ok = {} THEN 0 ELSE CHOOSE i \in ok : \A j \in ok : i <= j

\* the values the wrapper hands to the call contract: supplied inputs in declaration order
NSupplied(c, pos, kw) == Cardinality({j \in 1..NIn(c.sig) : How(c, pos, kw, j) # "none"})
CallerIn(c, pos, kw) == [j \in 1..NSupplied(c, pos, kw) |->
                           LET v == ValOf(c, pos, kw, j)  ty == c.sig.params[NthIn(c.sig, j)].ty IN
                           \* Python numbers are converted to the parameter's C type
                           IF ty = "dbl" /\ v.t = "i" THEN [t |-> "d", v |-> <<v.v[1] * 4>>]
                           ELSE IF ty = "bool" /\ v.t = "i" THEN [t |-> "b", v |-> <<IF v.v[1] = 0 THEN 0 ELSE 1>>]
                           ELSE v]
\* number of *declared* parameters covered by the supplied inputs (arity of the C++ call)
NSup(c, pos, kw) ==
  LET s == c.sig  k == NSupplied(c, pos, kw) IN
  IF k = NIn(s) THEN Len(s.params)
  ELSE (NthIn(s, k + 1)) - 1
=============================================================================
