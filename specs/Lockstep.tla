------------------------------ MODULE Lockstep ------------------------------
(* Documentation and debug options change comments only (property C16).     *)
(*                                                                          *)
(* Non-interference by self-composition: two runs of the generator on the   *)
(* same library that differ only in "low" inputs (debug, doxygen,           *)
(* show_splicer_comments, version stamp, literalinclude on individual       *)
(* declarations) are walked in lock step.  Each run is a set of files; a    *)
(* file is its comment-free token stream cut into chunks.  The only step    *)
(* the specification allows is Both: the two runs offer the same file and   *)
(* the same next chunk.                                                     *)
EXTENDS Naturals, Sequences, FiniteSets, TLC

VARIABLES run1, run2,     \* sequences of [name, chunks]; files sorted by name
          fi, ci,          \* current file, current chunk
          verdict

lvars == <<run1, run2, fi, ci, verdict>>

LInit(a, b) == run1 = a /\ run2 = b /\ fi = 1 /\ ci = 1 /\ verdict = <<>>

Names(r) == [i \in 1..Len(r) |-> r[i].name]
SameFiles == Names(run1) = Names(run2)

FirstDiff(x, y) == LET n == IF Len(x) < Len(y) THEN Len(x) ELSE Len(y)
                       d == {k \in 1..n : x[k] # y[k]}
                   IN IF d = {} THEN n + 1 ELSE CHOOSE k \in d : \A j \in d : k <= j

Start == /\ verdict = <<>> /\ fi = 1 /\ ci = 1 /\ ~SameFiles
         /\ verdict' = <<"REJECT", "the two runs do not produce the same set of files",
                         CHOOSE n \in ({Names(run1)[i] : i \in 1..Len(run1)} \cup {Names(run2)[i] : i \in 1..Len(run2)})
                                      \ ({Names(run1)[i] : i \in 1..Len(run1)} \cap {Names(run2)[i] : i \in 1..Len(run2)}) : TRUE>>
         /\ UNCHANGED <<run1, run2, fi, ci>>

Both == /\ verdict = <<>> /\ SameFiles /\ fi <= Len(run1)
        /\ LET c1 == run1[fi].chunks
               c2 == run2[fi].chunks
           IN IF ci > Len(c1) /\ ci > Len(c2) THEN fi' = fi + 1 /\ ci' = 1 /\ UNCHANGED verdict
              ELSE IF ci > Len(c1) \/ ci > Len(c2) THEN
                   /\ verdict' = <<"REJECT", "one run has more code than the other in file", run1[fi].name, ci>>
                   /\ UNCHANGED <<fi, ci>>
              ELSE IF c1[ci] = c2[ci] THEN ci' = ci + 1 /\ UNCHANGED <<fi, verdict>>
              ELSE /\ verdict' = <<"REJECT", "token streams differ in file", run1[fi].name, ci, FirstDiff(c1[ci], c2[ci])>>
                   /\ UNCHANGED <<fi, ci>>
        /\ UNCHANGED <<run1, run2>>

Done == /\ verdict = <<>> /\ SameFiles /\ fi > Len(run1)
        /\ verdict' = <<"ACCEPT", "ok">> /\ UNCHANGED <<run1, run2, fi, ci>>

LNext == Start \/ Both \/ Done

\* low-equivalence is kept at every step: everything consumed so far was equal
InStep == verdict = <<>> => (SameFiles => \A f \in 1..(fi - 1) : f <= Len(run1) => run1[f].chunks = run2[f].chunks)
=============================================================================
