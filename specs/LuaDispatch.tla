------------------------------ MODULE LuaDispatch ------------------------------
(* The Lua front-end of the call contract (property C18).                     *)
(*                                                                            *)
(* A binding is entered with a stack of Lua values (slot 1 is the object for  *)
(* methods).  The callable signatures of a name -- every overload and every   *)
(* admissible number of trailing defaulted arguments, in generation order --  *)
(* are tried in order; the first whose argument count and Lua types match is  *)
(* called with the stack values in order; its results are pushed and their    *)
(* number is returned.  No match: a Lua error.                                *)
(* cands: sequence of [target, sig, ltypes]; sig.self says slot 1 is the object *)
EXTENDS Integers, Sequences, FiniteSets, TLC

LType(v) == CASE v.t \in {"i", "d"} -> "number" [] v.t = "s" -> "string" [] v.t = "b" -> "boolean"
              [] v.t = "o" -> "userdata" [] OTHER -> "nil"
Off(c) == IF c.sig.self THEN 1 ELSE 0
Accepts(c, st) ==
  /\ Len(st) = Len(c.ltypes) + Off(c)
  /\ (c.sig.self => LType(st[1]) = "userdata")
  /\ \A j \in 1..Len(c.ltypes) : LType(st[j + Off(c)]) = c.ltypes[j]
Chosen(cands, st) ==
  LET ok == {i \in 1..Len(cands) : Accepts(cands[i], st)} IN
  IF ok = {} THEN 0 ELSE CHOOSE i \in ok : \A j \in ok : i <= j
\* a number that is not integral handed to an integer parameter has no faithful C++ value: not judged
Lossy(c, st) == \E j \in 1..Len(c.ltypes) : c.ptys[j] = "int" /\ st[j + Off(c)].t = "d"
Conv(ty, v) == IF ty = "dbl" /\ v.t = "i" THEN [t |-> "d", v |-> <<v.v[1] * 4>>] ELSE v
CallerIn(c, st) == [j \in 1..Len(st) |-> IF c.sig.self /\ j = 1 THEN st[1] ELSE Conv(c.ptys[j - Off(c)], st[j])]
=============================================================================
