------------------------------- MODULE Symtab -------------------------------
(* Name resolution of type names (property C09, "qualified names"): which    *)
(* declaration a (possibly qualified) type name written in some scope refers *)
(* to.  C++ rule for the documented subset (namespaces, classes, structs,    *)
(* enums, typedefs; no using-directives in the YAML):                        *)
(*  - declarations are seen in the order they are written;                   *)
(*  - the first component of a name is searched in the scope of use, then in *)
(*    the enclosing scopes, innermost first; a leading "::" starts at the    *)
(*    global scope;                                                          *)
(*  - every further component is searched only in the scope the previous one *)
(*    named (which must be a namespace or a class).                          *)
(* decls: sequence (= order of writing) of                                   *)
(*   [id, parent (id of enclosing scope, 0 = global), name, kind]            *)
(*   kind in {"namespace", "class", "struct", "enum", "typedef", "use"}      *)
(* A "use" entry is the point where a name is written; its position in the   *)
(* sequence is the point of use.                                             *)
EXTENDS Naturals, Sequences, FiniteSets, TLC

IsScope(k) == k \in {"namespace", "class"}
Idx(decls, id) == CHOOSE i \in 1..Len(decls) : decls[i].id = id
ParentOf(decls, id) == IF id = 0 THEN 0 ELSE decls[Idx(decls, id)].parent
RECURSIVE Ancestors(_, _)
Ancestors(decls, id) == IF id = 0 THEN <<0>> ELSE <<id>> \o Ancestors(decls, ParentOf(decls, id))

\* declared directly in scope sc under that name, before position pos
Found(decls, sc, name, pos) ==
  {i \in 1..(pos - 1) : decls[i].parent = sc /\ decls[i].name = name /\ decls[i].kind # "use"}
\* the declaration a name refers to when several are written (a later one re-opens a namespace): the first
First(S) == CHOOSE i \in S : \A j \in S : i <= j

RECURSIVE Outward(_, _, _, _)
Outward(decls, scopes, name, pos) ==
  IF scopes = <<>> THEN 0
  ELSE LET f == Found(decls, Head(scopes), name, pos) IN
       IF f # {} THEN First(f) ELSE Outward(decls, Tail(scopes), name, pos)

RECURSIVE Inward(_, _, _, _)
\* cur: index of the declaration found so far; rest: remaining components
Inward(decls, cur, rest, pos) ==
  IF rest = <<>> THEN cur
  ELSE IF cur = 0 \/ ~IsScope(decls[cur].kind) THEN 0
  ELSE LET f == Found(decls, decls[cur].id, Head(rest), pos) IN
       IF f = {} THEN 0 ELSE Inward(decls, First(f), Tail(rest), pos)

\* ref: [global |-> BOOLEAN, parts |-> Seq(name)] written at position pos in scope decls[pos].parent
Resolve(decls, pos, ref) ==
  LET start == IF ref.global THEN <<0>> ELSE Ancestors(decls, decls[pos].parent)
      first == Outward(decls, start, ref.parts[1], pos)
  IN Inward(decls, first, Tail(ref.parts), pos)

RECURSIVE QualName(_, _)
QualName(decls, i) == IF decls[i].parent = 0 THEN <<decls[i].name>>
                      ELSE QualName(decls, Idx(decls, decls[i].parent)) \o <<decls[i].name>>
\* the fully qualified name of what a reference denotes; <<>> if it denotes nothing or not a type
Denotes(decls, pos, ref) ==
  LET i == Resolve(decls, pos, ref) IN
  IF i = 0 \/ decls[i].kind = "namespace" THEN <<>> ELSE QualName(decls, i)

\* design properties
\* a fully qualified reference resolves independently of where it is written (given the declaration precedes it)
\* an unqualified reference never resolves to a declaration of a sibling scope
NoSibling(decls, pos, ref) ==
  LET i == Resolve(decls, pos, ref) IN
  (i # 0 /\ ~ref.global /\ Len(ref.parts) = 1) =>
     \E k \in 1..Len(Ancestors(decls, decls[pos].parent)) : Ancestors(decls, decls[pos].parent)[k] = decls[i].parent
Innermost(decls, pos, ref) ==
  LET i == Resolve(decls, pos, ref)  anc == Ancestors(decls, decls[pos].parent) IN
  (i # 0 /\ ~ref.global /\ Len(ref.parts) = 1) =>
     \A k \in 1..Len(anc) : (Found(decls, anc[k], ref.parts[1], pos) # {}) =>
        \E m \in 1..k : anc[m] = decls[i].parent
=============================================================================
