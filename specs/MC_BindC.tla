------------------------------ MODULE MC_BindC ------------------------------
(* The relation itself, exhaustively: every Fortran dummy shape against every *)
(* C parameter shape.  A dummy is interoperable with C parameters of exactly  *)
(* one (class, size, indirection) up to the documented freedoms (type(C_PTR)  *)
(* accepts any object pointer).                                               *)
EXTENDS BindC
Sizes == {1, 2, 4, 8}
FArgs == {[cls |-> c, size |-> s, value |-> v, dim |-> d, tname |-> ""] : c \in Scalar \cup {"cptr", "funptr", "assumedtype", "cfi"},
            s \in Sizes, v \in BOOLEAN, d \in BOOLEAN}
CArgs == {[cls |-> c, size |-> s, ptr |-> p, sname |-> "", arr |-> FALSE] : c \in Scalar \cup {"void", "funptr", "cfi"}, s \in Sizes, p \in 0..2}
VARIABLES f, c
Init == BInit /\ f \in FArgs /\ c \in CArgs
Next == UNCHANGED <<bvars, f, c>>
Spec == Init /\ [][Next]_<<bvars, f, c>>
\* a scalar dummy never matches a parameter of another class, size or passing mode
ScalarStrict == (f.cls \in Scalar /\ ArgInterop(f, c)) =>
                   \/ (c.cls = f.cls /\ (c.cls = "char" \/ c.size = f.size) /\ c.ptr = (IF f.value /\ ~f.dim THEN 0 ELSE 1))
                   \/ (c.cls = "void" /\ c.ptr = 1 /\ ~f.value)        \* generic void * receives typed data by reference
ValueNeverPointer == (f.cls \in Scalar /\ f.value /\ ~f.dim /\ c.ptr > 0) => ~ArgInterop(f, c)
RefNeverValue == (f.cls \in Scalar /\ ~f.value /\ c.ptr = 0) => ~ArgInterop(f, c)
=============================================================================
