----------------------------- MODULE LibGenPairs -----------------------------
(* One wide member of the LibGen domain: every parameter list of length 1    *)
(* and 2 over the rows (arrays as their pairs) with the result rows cycling,  *)
(* plus every result row with every single parameter.  Printed once at start  *)
(* up; the harness materialises it (or its restriction to the rows a wrapper  *)
(* supports) for the checks that need every pairing of statement-table        *)
(* entries in one library (C16, C05, C01/C02 thorough).                       *)
EXTENDS LibGen, SequencesExt

Results == SetToSeq(ResultRows)
\* the rows of the other native scalar types (KindRows, KindResults) differ from int_v / int only in the type's
\* typemap: they are paired with int_v, int and themselves only, which keeps the member at a size the compilers handle
Core(r) == r \notin KindRows
Lists == SetToSeq({ps \in AllParamLists : /\ Len(ps) >= 1
                                           /\ (Len(ps) = 2 => \/ (Core(ps[1]) /\ Core(ps[2]))
                                                               \/ ps[1] = "int_v" \/ ps[2] = "int_v" \/ ps[1] = ps[2])})
Singles == SetToSeq({x \in {<<r, <<a>>>> : r \in ResultRows, a \in Single} :
                        /\ (x[1] \in KindResults => x[2][1] = "int_v")
                        /\ (x[2][1] \in KindRows => x[1] = "int")})
Funcs == [i \in 1..Len(Lists) |-> [kind |-> "plain", result |-> Results[(i % Len(Results)) + 1], params |-> Lists[i], ndef |-> 0, tmpl |-> FALSE, gen |-> FALSE]]
         \o [i \in 1..Len(Singles) |-> [kind |-> "plain", result |-> Singles[i][1], params |-> Singles[i][2], ndef |-> 0, tmpl |-> FALSE, gen |-> FALSE]]
Wide == [language |-> "c++", funcs |-> Funcs, class |-> TRUE, derived |-> TRUE, ns |-> TRUE,
         opts |-> [F_CFI |-> FALSE, debug |-> TRUE, doxygen |-> TRUE, literalinclude |-> FALSE,
                   show_splicer_comments |-> TRUE, line |-> 72, wrap_c |-> TRUE,
                   wrap_python |-> FALSE, wrap_lua |-> FALSE, wrap_fortran |-> TRUE]]
ASSUME PrintT(<<"LIBGEN", ToJson(Wide)>>)
Stop == FALSE /\ UNCHANGED <<lib, done, kind>>
=============================================================================
