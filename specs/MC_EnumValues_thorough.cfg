SPECIFICATION Spec
CHECK_DEADLOCK FALSE
CONSTANTS
  MaxMembers = 4
  Lits = {3}
  Depth = 1
INVARIANT CKeepsValues
INVARIANT FKeepsValues
INVARIANT PrefixKeepsValues
