------------------------------- MODULE Naming -------------------------------
(* Wrapper names (property C08).                                            *)
(*                                                                          *)
(* Input: the functions declared in one scope, in declaration order:        *)
(*   [name, params (type names), ndef (trailing defaults), sfx (explicit    *)
(*    function_suffix or ""), dsfx (default_arg_suffix list or <<>>),       *)
(*    insts (template instantiations [ty, sfx]; the template parameter is   *)
(*    the type "T" in params), gens (fortran_generic variants [params,sfx])]*)
(*                                                                          *)
(* A *callable signature* is [name, params]: each overload, each admissible *)
(* number of trailing defaulted arguments, each template instantiation;     *)
(* Fortran additionally has one specific per fortran_generic variant.       *)
(*                                                                          *)
(* The expansion machine mirrors generate.GenFunctions.define_function_     *)
(* suffix phase by phase (Defaults, Templates, Number, Generics); the       *)
(* properties are stated on the table it produces and, for real runs, on    *)
(* the tables read back from the generated files.                           *)
EXTENDS Naturals, Sequences, FiniteSets, TLC
LOCAL INSTANCE Text

VARIABLES funcs, phase, entries, fentries

nvars == <<funcs, phase, entries, fentries>>

\* an entry: [name, params, sfx, local (suffix fixed by the user), tsfx, origin (index in funcs)]
Subst(ps, ty) == [i \in 1..Len(ps) |-> IF ps[i] = "T" THEN ty ELSE ps[i]]
IsTemplate(f) == f.insts # <<>>

NInit(fs) == funcs = fs /\ phase = "defaults" /\ entries = <<>> /\ fentries = <<>>

\* Defaults: one clone per admissible arity, fewest arguments first, then the function itself
ArityEntries(f, o) ==
  LET n == Len(f.params)
      \* default_arg_suffix names the forms from the fewest arguments upwards; a list that is shorter than the
      \* number of forms leaves the remaining forms to the numbering
      mk(k, j) == [name |-> f.name, params |-> SubSeq(f.params, 1, k),
                   sfx |-> IF j <= Len(f.dsfx) THEN f.dsfx[j] ELSE f.sfx,
                   local |-> j <= Len(f.dsfx) \/ f.sfx # "",
                   tsfx |-> "", origin |-> o, tmpl |-> IsTemplate(f)]
  IN [j \in 1..(f.ndef + 1) |-> mk(n - f.ndef + j - 1, j)]

RECURSIVE AllArity(_, _)
AllArity(fs, o) == IF o > Len(fs) THEN <<>> ELSE ArityEntries(fs[o], o) \o AllArity(fs, o + 1)

PDefaults == /\ phase = "defaults"
             /\ entries' = AllArity(funcs, 1)
             /\ phase' = "number" /\ UNCHANGED <<funcs, fentries>>

\* Number: overloads of one C++ name (templates excluded) get _0, _1, ... unless fixed by the user
Group(es, nm) == {i \in 1..Len(es) : es[i].name = nm /\ ~es[i].tmpl}
Rank(S, i) == Cardinality({j \in S : j < i})
Digits(n) == ToString(n)
PNumber == /\ phase = "number"
           /\ entries' = [i \in 1..Len(entries) |->
                 LET e == entries[i]
                     g == Group(entries, e.name)
                 IN IF ~e.tmpl /\ Cardinality(g) > 1 /\ ~e.local
                    THEN [e EXCEPT !.sfx = "_" \o Digits(Rank(g, i))] ELSE e]
           /\ phase' = "templates" /\ UNCHANGED <<funcs, fentries>>

\* Templates: one entry per instantiation, template_suffix explicit or "_" + flat type name
RECURSIVE Instantiate(_, _)
Instantiate(es, i) ==
  IF i > Len(es) THEN <<>>
  ELSE LET e == es[i]
           f == funcs[e.origin]
       IN (IF e.tmpl
           THEN [k \in 1..Len(f.insts) |->
                   [e EXCEPT !.params = Subst(e.params, f.insts[k].ty),
                             !.tsfx = IF f.insts[k].sfx # "" THEN f.insts[k].sfx ELSE "_" \o f.insts[k].ty]]
           ELSE <<e>>) \o Instantiate(es, i + 1)
PTemplates == /\ phase = "templates"
              /\ entries' = Instantiate(entries, 1)
              /\ phase' = "generics" /\ UNCHANGED <<funcs, fentries>>

\* Generics: Fortran gets one specific per fortran_generic variant of the full-arity entry
RECURSIVE Generic(_, _)
Generic(es, i) ==
  IF i > Len(es) THEN <<>>
  ELSE LET e == es[i]
           f == funcs[e.origin]
       IN (IF f.gens # <<>> /\ Len(e.params) = Len(f.params)
           THEN [k \in 1..Len(f.gens) |->
                   [e EXCEPT !.params = f.gens[k].params,
                             !.sfx = e.sfx \o (IF f.gens[k].sfx # "" THEN f.gens[k].sfx ELSE "_" \o Digits(k - 1))]]
           ELSE <<e>>) \o Generic(es, i + 1)
PGenerics == /\ phase = "generics"
             /\ fentries' = Generic(entries, 1)
             /\ phase' = "done" /\ UNCHANGED <<funcs, entries>>

NNext == PDefaults \/ PNumber \/ PTemplates \/ PGenerics

\* names (without prefix / scope, which are constant within a scope)
CSuffix(e) == e.sfx \o e.tsfx
Sig(e) == [name |-> e.name, params |-> e.params]

\* the callable signatures of the input
ArityRange(f) == (Len(f.params) - f.ndef)..Len(f.params)
ExpectedC ==
  UNION {IF IsTemplate(funcs[o])
         THEN {[name |-> funcs[o].name, params |-> Subst(SubSeq(funcs[o].params, 1, k), funcs[o].insts[t].ty)] :
                  k \in ArityRange(funcs[o]), t \in 1..Len(funcs[o].insts)}
         ELSE {[name |-> funcs[o].name, params |-> SubSeq(funcs[o].params, 1, k)] : k \in ArityRange(funcs[o])}
         : o \in 1..Len(funcs)}
ExpectedF ==
  UNION {IF funcs[o].gens # <<>>
         THEN {[name |-> funcs[o].name, params |-> SubSeq(funcs[o].params, 1, k)] :
                  k \in ArityRange(funcs[o]) \ {Len(funcs[o].params)}}
              \cup {[name |-> funcs[o].name, params |-> funcs[o].gens[g].params] : g \in 1..Len(funcs[o].gens)}
         ELSE IF IsTemplate(funcs[o])
         THEN {[name |-> funcs[o].name, params |-> Subst(SubSeq(funcs[o].params, 1, k), funcs[o].insts[t].ty)] :
                  k \in ArityRange(funcs[o]), t \in 1..Len(funcs[o].insts)}
         ELSE {[name |-> funcs[o].name, params |-> SubSeq(funcs[o].params, 1, k)] : k \in ArityRange(funcs[o])}
         : o \in 1..Len(funcs)}

\* properties of a name table  (rows: [name, params, sfx-or-cname])
Injective(rows, key(_)) == \A i, j \in 1..Len(rows) : key(rows[i]) = key(rows[j]) => i = j

Complete == phase = "done" =>
   /\ {Sig(entries[i]) : i \in 1..Len(entries)} = ExpectedC /\ Injective(entries, Sig)
   /\ {Sig(fentries[i]) : i \in 1..Len(fentries)} = ExpectedF /\ Injective(fentries, Sig)
NameKey(e) == <<e.name, CSuffix(e)>>
UniqueC == phase = "done" => Injective(entries, NameKey)
UniqueF == phase = "done" => Injective(fentries, NameKey)

-----------------------------------------------------------------------------
(* un_camel (util.un_camel) on code points *)
IsUpper(c) == c >= 65 /\ c <= 90
IsLower(c) == c >= 97 /\ c <= 122
ToLower(c) == IF IsUpper(c) THEN c + 32 ELSE c
UnCamel(s) ==
  LET piece(p) ==
        IF IsUpper(s[p])
        THEN IF (p - 1 > 1 /\ IsLower(s[p - 1])) \/ (p - 1 > 1 /\ p + 1 <= Len(s) /\ IsLower(s[p + 1]))
             THEN <<95, ToLower(s[p])>> ELSE <<ToLower(s[p])>>
        ELSE <<s[p]>>
  IN Flatten([p \in 1..Len(s) |-> piece(p)])
=============================================================================
