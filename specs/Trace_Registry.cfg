SPECIFICATION TSpec
CHECK_DEADLOCK FALSE
CONSTANTS
  Libs = {"x"}
  Regs = {"typemap.shared_typedict", "statements.fc_statements", "statements.cf_tree", "statements.fc_dict", "wrapp.py_statements", "wrapp.py_tree", "wrapl.lua_statements", "wrapl.lua_tree", "whelpers.CHelpers", "whelpers.FHelpers", "whelpers.PyHelpers", "Wrapc.capsule_code", "Wrapc.capsule_order", "Wrapc.capsule_include"}
