------------------------------- MODULE Capsule -------------------------------
(* Ownership of wrapped objects (property C06).                              *)
(*                                                                           *)
(* The caller holds *handles* (the capsule struct of the C API, the derived  *)
(* type of the Fortran API): [addr, idtor].  The library's heap maps object  *)
(* ids to [live, owner].  Wrapper calls:                                     *)
(*   Ctor(h)        construct: new caller-owned object, handle gets its      *)
(*                  address and the destructor index of its class            *)
(*   Make(h)        function returning a pointer with owner(caller)          *)
(*   MakeArr(h)     function with an argument 'T **arg +intent(out)+owner(caller)':  *)
(*                  a caller-owned block recorded in the array descriptor    *)
(*   Pooled(h)      function returning a pointer with owner(caller) and a    *)
(*                  free_pattern: must be given back to the library's pool   *)
(*   Borrow(h)      function returning a pointer with owner(library):        *)
(*                  idtor = 0, nothing to release                            *)
(*   Clone(h, g)    method of g returning a new caller-owned object into h   *)
(*   Method(h)      any other method: touches nothing                        *)
(*   Copy(h, g)     the caller copies handle g into h (shallow, as struct    *)
(*                  assignment / Fortran assignment do)                      *)
(*   Dtor(h)        the class's destructor wrapper: deletes the object the   *)
(*                  handle points to and clears the address                  *)
(*   Release(h)     the generic release function: dispatch on idtor, then    *)
(*                  addr := 0 and idtor := 0 -- releasing again does nothing *)
(* `released` counts how often each object was destroyed.                    *)
EXTENDS Naturals, Sequences, FiniteSets, TLC

CONSTANTS Handles, MaxObj
NoObj == 0
LibObj == 1                      \* the object the library owns (returned by Borrow)

VARIABLES hnd, heap, released, nobj, callerError,
          how          \* per object: the deallocators applied to it, in order

kvars == <<hnd, heap, released, nobj, callerError, how>>

\* idtor: "none" | "delete" | "pool"   (what the generated release function does for that index)
KInit == /\ hnd = [h \in Handles |-> [addr |-> NoObj, idtor |-> "none"]]
         /\ heap = [o \in 1..MaxObj |-> IF o = LibObj THEN [live |-> TRUE, owner |-> "lib", alloc |-> "new"]
                                                      ELSE [live |-> FALSE, owner |-> "none", alloc |-> "new"]]
         /\ how = [o \in 1..MaxObj |-> <<>>]
         /\ released = [o \in 1..MaxObj |-> 0]
         /\ nobj = 1 /\ callerError = FALSE

New(h, al) == /\ nobj < MaxObj
              /\ nobj' = nobj + 1
              /\ heap' = [heap EXCEPT ![nobj + 1] = [live |-> TRUE, owner |-> "caller", alloc |-> al]]
              /\ hnd' = [hnd EXCEPT ![h] = [addr |-> nobj + 1, idtor |-> IF al = "pool" THEN "pool" ELSE "delete"]]
              /\ UNCHANGED <<released, callerError, how>>
Ctor(h) == New(h, "new")
Make(h) == New(h, "new")
Pooled(h) == New(h, "pool")
\* an intent(out) argument 'T **arg +owner(caller)': the wrapper records the block and its release code in the
\* array descriptor's capsule
MakeArr(h) == New(h, "new")
Clone(h, g) == hnd[g].addr # NoObj /\ heap[hnd[g].addr].live /\ New(h, "new")
Borrow(h) == /\ hnd' = [hnd EXCEPT ![h] = [addr |-> LibObj, idtor |-> "none"]]
             /\ UNCHANGED <<heap, released, nobj, callerError, how>>
Method(h) == hnd[h].addr # NoObj /\ heap[hnd[h].addr].live /\ UNCHANGED kvars
Copy(h, g) == /\ hnd' = [hnd EXCEPT ![h] = hnd[g]] /\ UNCHANGED <<heap, released, nobj, callerError, how>>

Destroy(o, with) == /\ heap' = [heap EXCEPT ![o].live = FALSE]
                    /\ released' = [released EXCEPT ![o] = released[o] + 1]
                    /\ how' = [how EXCEPT ![o] = Append(how[o], with)]
\* the destructor wrapper deletes whatever the handle points to
Dtor(h) == /\ hnd[h].addr # NoObj
           /\ Destroy(hnd[h].addr, "delete")
           /\ hnd' = [hnd EXCEPT ![h].addr = NoObj]
           \* deleting library-owned or pool memory directly is the caller's own mistake
           /\ callerError' = (callerError \/ ~heap[hnd[h].addr].live \/ heap[hnd[h].addr].owner = "lib"
                                         \/ heap[hnd[h].addr].alloc = "pool")
           /\ UNCHANGED nobj
\* the generic release function
Release(h) == /\ IF hnd[h].addr # NoObj /\ hnd[h].idtor # "none"
                 THEN /\ Destroy(hnd[h].addr, hnd[h].idtor)
                      /\ callerError' = (callerError \/ ~heap[hnd[h].addr].live)
                 ELSE UNCHANGED <<heap, released, callerError, how>>
              /\ hnd' = [hnd EXCEPT ![h] = [addr |-> NoObj, idtor |-> "none"]]
              /\ UNCHANGED nobj

KNext == \E h \in Handles : \/ Ctor(h) \/ Make(h) \/ Pooled(h) \/ MakeArr(h) \/ Borrow(h) \/ Method(h) \/ Dtor(h) \/ Release(h)
                            \/ \E g \in Handles : Clone(h, g) \/ (g # h /\ Copy(h, g))

\* properties (for callers that do not release an alias twice or destroy library memory themselves)
ReleasedAtMostOnce == ~callerError => \A o \in 1..MaxObj : released[o] <= 1
LibraryOwnedNeverFreed == ~callerError => released[LibObj] = 0
BorrowedHasNoDestructor == \A h \in Handles : hnd[h].addr = LibObj => hnd[h].idtor = "none"
\* memory is given back the way it was obtained: pool objects to the pool, everything else deleted
\* (the class's own destructor wrapper is the caller's explicit delete and is not judged here)
MatchingDeallocator == ~callerError =>
   \A o \in 1..MaxObj : \A k \in 1..Len(how[o]) :
      how[o][k] = "pool" <=> heap[o].alloc = "pool"
ReleasedHandleInert == \A h \in Handles : hnd[h].addr = NoObj => TRUE
OwnedHasDestructor == \A h \in Handles : (hnd[h].addr \notin {NoObj, LibObj}) => hnd[h].idtor # "none"
=============================================================================
