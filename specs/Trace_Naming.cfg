SPECIFICATION TSpec
CHECK_DEADLOCK FALSE
INVARIANT Complete
INVARIANT UniqueC
INVARIANT UniqueF
