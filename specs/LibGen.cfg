SPECIFICATION Spec
CHECK_DEADLOCK FALSE
CONSTANTS
  ParamRows = {"int_phidden", "cstrv_in", "ushortint_v", "short_v", "ushort_v", "uint_v", "ulong_v", "llong_v", "float_v", "size_v", "i8_v", "i64_v", "u16_v", "u32_v", "tdint_v", "tdstr_in", "int_v", "long_v", "double_v", "bool_v", "enum_v", "int_pin", "int_pout", "int_pinout", "int_ref", "dbl_cref", "dbl_pout", "bool_pinout", "cstr_in", "str_cref", "str_ref_inout", "str_ref_out", "pt_v", "pt_pinout", "pt_cref", "arr_in", "arr_n", "arr_out", "out_n", "vec_in", "vec_inout", "vec_out_alloc", "vec_inout_alloc"}
  ResultRows = {"char1", "char3", "ushortint", "short", "ushort", "uint", "ulong", "llong", "float", "size", "i8", "i64", "u16", "u32", "tdint", "void", "int", "double", "bool", "enum", "cstr", "str_cref", "pt", "iptr3", "cptr_raw", "iptr23"}
  CRows = {"int_phidden", "cstrv_in", "ushortint_v", "short_v", "ushort_v", "uint_v", "ulong_v", "llong_v", "float_v", "size_v", "i8_v", "i64_v", "u16_v", "u32_v", "tdint_v", "tdstr_in", "int_v", "long_v", "double_v", "bool_v", "int_pin", "int_pout", "int_pinout", "dbl_pout", "bool_pinout", "cstr_in", "pt_v", "pt_pinout", "arr_in", "arr_n", "arr_out", "out_n"}
  CResults = {"char1", "char3", "ushortint", "short", "ushort", "uint", "ulong", "llong", "float", "size", "i8", "i64", "u16", "u32", "tdint", "void", "int", "double", "bool", "cstr", "pt", "iptr3", "cptr_raw", "iptr23"}
  LuaRows = {"short_v", "ushort_v", "uint_v", "ulong_v", "llong_v", "float_v", "size_v", "i8_v", "i64_v", "u16_v", "u32_v", "tdint_v", "int_v", "long_v", "double_v", "bool_v", "enum_v", "str_cref"}
  PyRows = {"short_v", "ushort_v", "uint_v", "ulong_v", "llong_v", "float_v", "size_v", "i8_v", "i64_v", "u16_v", "u32_v", "tdint_v", "tdstr_in", "int_v", "long_v", "double_v", "bool_v", "enum_v", "int_pin", "int_pout", "int_pinout", "int_ref", "dbl_cref", "dbl_pout", "bool_pinout", "cstr_in", "str_cref", "str_ref_inout", "str_ref_out", "pt_v", "pt_pinout", "pt_cref", "arr_in", "arr_n", "arr_out", "out_n", "vec_in", "vec_out_alloc"}
  VecRows = {"vec_in", "vec_inout", "vec_out_alloc", "vec_inout_alloc"}
  KindRows = {"ushortint_v", "short_v", "ushort_v", "uint_v", "ulong_v", "llong_v", "float_v", "size_v", "i8_v", "i64_v", "u16_v", "u32_v"}
  KindResults = {"char1", "char3", "ushortint", "short", "ushort", "uint", "ulong", "llong", "float", "size", "i8", "i64", "u16", "u32"}
  TInt = {"int_phidden", "enum_v", "i64_v", "i8_v", "int_pin", "int_pinout", "int_pout", "int_ref", "int_v", "llong_v", "long_v", "short_v", "size_v", "tdint_v", "u16_v", "u32_v", "uint_v", "ulong_v", "ushort_v", "ushortint_v"}
  TReal = {"dbl_cref", "dbl_pout", "double_v", "float_v"}
  TLogical = {"bool_pinout", "bool_v"}
  TChar = {"cstr_in", "str_cref", "str_ref_inout", "str_ref_out", "tdstr_in"}
  TStruct = {"pt_cref", "pt_pinout", "pt_v"}
  MaxFuncs = 8
  MaxParams = 2
INVARIANT TypeOK
