-------------------------------- MODULE PyOwn --------------------------------
(* Ownership in the Python front (property C06, shroud/wrapp.py: the           *)
(* PyObject of a wrapped class holds {obj, idtor}; tp_del releases obj         *)
(* through the library-wide release function when idtor is not 0).             *)
(*                                                                             *)
(* Python variables are bound to wrapper objects; several variables may be     *)
(* bound to one wrapper (b = a); a wrapper is finalised when its last          *)
(* variable goes away.  A wrapper made by a constructor or by a function       *)
(* declared +owner(caller) owns its C++ object and releases it exactly once,   *)
(* when it is finalised -- with the release code of its declaration            *)
(* (delete, or the free_pattern).  A wrapper of a +owner(library) result       *)
(* never releases anything.  Functions returning caller-owned plain memory     *)
(* (char *, int * converted to str / list) release that memory before they     *)
(* return: Python holds a copy.                                                *)
EXTENDS Naturals, FiniteSets, Sequences, TLC

CONSTANTS Vars,        \* Python variable names
          MaxObj       \* objects 1..MaxObj; object LibObj belongs to the library

LibObj == MaxObj
Objs == 1..MaxObj
Wrappers == 1..MaxObj

VARIABLES heap,        \* heap[o] = [live : BOOLEAN, how : "" | "delete" | "pool" | "free"] how it was released
          released,    \* released[o]: number of times o was released
          wrap,        \* wrap[w] = [obj : 0..MaxObj, owns : BOOLEAN, how : STRING, refs : Nat]; obj = 0: unused wrapper
          bind,        \* bind[v] : 0..MaxObj  (0 = unbound), a wrapper id
          nextObj, nextWrap

ovars == <<heap, released, wrap, bind, nextObj, nextWrap>>

NoWrap == [obj |-> 0, owns |-> FALSE, how |-> "", refs |-> 0]
OInit == /\ heap = [o \in Objs |-> [live |-> (o = LibObj), how |-> ""]]
         /\ released = [o \in Objs |-> 0]
         /\ wrap = [w \in Wrappers |-> NoWrap]
         /\ bind = [v \in Vars |-> 0]
         /\ nextObj = 1 /\ nextWrap = 1

Unbound(v) == bind[v] = 0
Bound(v) == bind[v] # 0
Room == nextObj < LibObj /\ nextWrap <= MaxObj

\* a fresh C++ object owned by a fresh wrapper bound to v; `how` is its release code
NewOwned(v, how) ==
  /\ Unbound(v) /\ Room
  /\ heap' = [heap EXCEPT ![nextObj] = [live |-> TRUE, how |-> ""]]
  /\ wrap' = [wrap EXCEPT ![nextWrap] = [obj |-> nextObj, owns |-> TRUE, how |-> how, refs |-> 1]]
  /\ bind' = [bind EXCEPT ![v] = nextWrap]
  /\ nextObj' = nextObj + 1 /\ nextWrap' = nextWrap + 1
  /\ UNCHANGED released
Ctor(v) == NewOwned(v, "delete")          \* Cls(5)
Make(v) == NewOwned(v, "delete")          \* make(9)   +owner(caller)
Pooled(v) == NewOwned(v, "pool")          \* pooled(3) +owner(caller)+free_pattern(pool_release)
\* w = v.clone()  +owner(caller)
Clone(v, w) == /\ Bound(v) /\ heap[wrap[bind[v]].obj].live /\ NewOwned(w, "delete")
\* borrow()  +owner(library): a wrapper that owns nothing
Borrow(v) ==
  /\ Unbound(v) /\ nextWrap <= MaxObj
  /\ wrap' = [wrap EXCEPT ![nextWrap] = [obj |-> LibObj, owns |-> FALSE, how |-> "", refs |-> 1]]
  /\ bind' = [bind EXCEPT ![v] = nextWrap]
  /\ nextWrap' = nextWrap + 1
  /\ UNCHANGED <<heap, released, nextObj>>
\* w = v
Alias(v, w) ==
  /\ Bound(v) /\ Unbound(w)
  /\ bind' = [bind EXCEPT ![w] = bind[v]]
  /\ wrap' = [wrap EXCEPT ![bind[v]].refs = @ + 1]
  /\ UNCHANGED <<heap, released, nextObj, nextWrap>>
\* v.get(): the object must still be there
Method(v) == /\ Bound(v) /\ heap[wrap[bind[v]].obj].live /\ UNCHANGED ovars
\* del v
Del(v) ==
  /\ Bound(v)
  /\ LET w == bind[v] o == wrap[w].obj IN
     /\ bind' = [bind EXCEPT ![v] = 0]
     /\ IF wrap[w].refs > 1
        THEN /\ wrap' = [wrap EXCEPT ![w].refs = @ - 1] /\ UNCHANGED <<heap, released>>
        ELSE /\ wrap' = [wrap EXCEPT ![w] = [@ EXCEPT !.refs = 0]]
             /\ IF wrap[w].owns
                THEN /\ heap' = [heap EXCEPT ![o] = [live |-> FALSE, how |-> wrap[w].how]]
                     /\ released' = [released EXCEPT ![o] = @ + 1]
                ELSE UNCHANGED <<heap, released>>
  /\ UNCHANGED <<nextObj, nextWrap>>
\* dupname() / newints(): caller-owned plain memory that Python receives as a copy -- allocated and released by the
\* same call
Temp(how) ==
  /\ nextObj < LibObj
  /\ heap' = [heap EXCEPT ![nextObj] = [live |-> FALSE, how |-> how]]
  /\ released' = [released EXCEPT ![nextObj] = @ + 1]
  /\ nextObj' = nextObj + 1
  /\ UNCHANGED <<wrap, bind, nextWrap>>

ONext == \/ \E v \in Vars : Ctor(v) \/ Make(v) \/ Pooled(v) \/ Borrow(v) \/ Method(v) \/ Del(v)
         \/ \E v, w \in Vars : Clone(v, w) \/ Alias(v, w)
         \/ Temp("free")
OSpec == OInit /\ [][ONext]_ovars

TypeOK == /\ \A o \in Objs : released[o] \in 0..2
          /\ \A v \in Vars : bind[v] \in 0..MaxObj
AtMostOnce == \A o \in Objs : released[o] <= 1
LibraryKept == released[LibObj] = 0 /\ heap[LibObj].live
\* every live object other than the library's is owned by exactly one wrapper that some variable still reaches
NoLeak == \A o \in Objs \ {LibObj} : heap[o].live =>
             Cardinality({w \in Wrappers : wrap[w].obj = o /\ wrap[w].owns /\ wrap[w].refs > 0}) = 1
RefsRight == \A w \in Wrappers : wrap[w].refs = Cardinality({v \in Vars : bind[v] = w})
\* no variable reaches a released object
NoDangling == \A v \in Vars : Bound(v) => heap[wrap[bind[v]].obj].live
=============================================================================
