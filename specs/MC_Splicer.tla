----------------------------- MODULE MC_Splicer -----------------------------
(* Bounded exploration of Splicer.                                          *)
(*  Mode "reader": every file of up to MaxLines lines over LineSet.         *)
(*  Mode "roundtrip": every emitter program of up to MaxOps operations over *)
(*  Names x {default present/absent} x {force present/absent} x every user  *)
(*  store over the paths of depth <= 2; the emitted text is read back by R  *)
(*  and emitted again with what was read as the user store.                 *)
EXTENDS Splicer

CONSTANTS Mode, MaxLines, MaxOps, Names

Tags == {<<n>> : n \in Names} \cup {<<n, m>> : n \in Names, m \in Names}

\* reader mode: ids 1..MaxLines are assigned by position so that every line is distinguishable
LineKinds == {[k |-> "text", tag |-> <<>>, col |-> 1]}
             \cup {[k |-> kk, tag |-> t, col |-> c] : kk \in {"begin", "end"}, t \in {<<"a">>, <<"a", "b">>}, c \in {0, 3}}
RECURSIVE LineSeqs(_)
LineSeqs(n) == IF n = 0 THEN {<<>>}
               ELSE LET P == LineSeqs(n - 1) IN
                    P \cup {Append(p, [k |-> lk.k, tag |-> lk.tag, col |-> lk.col, id |-> n]) :
                              p \in {q \in P : Len(q) = n - 1}, lk \in LineKinds}

Bodies == {<<>>, <<101>>, <<102, 103>>}
UserStores == UNION {[S -> {<<201>>, <<202, 203>>}] : S \in SUBSET {<<"a">>, <<"a", "b">>, <<"b", "a">>}}
NoneOr(S) == {[has |-> FALSE, b |-> <<>>]} \cup {[has |-> TRUE, b |-> x] : x \in S}

VARIABLE created1

Init ==
  IF Mode = "reader"
  THEN /\ \E ls \in LineSeqs(MaxLines) : RInit(ls)
       /\ user = Empty /\ estack = <<>> /\ elog = <<>> /\ created = Empty /\ nextid = 1000
       /\ pc = "read" /\ prog = <<>> /\ pi = 1 /\ elog1 = <<>> /\ created1 = Empty
  ELSE /\ \E u \in UserStores : user = u
       /\ estack = <<>> /\ elog = <<>> /\ created = Empty /\ nextid = 1000
       /\ RInit(<<>>)
       /\ pc = "emit" /\ prog = <<>> /\ pi = 1 /\ elog1 = <<>> /\ created1 = Empty

Op(o) ==
  CASE o.op = "push" -> EPush(o.n)
    [] o.op = "pop" -> EPop
    [] o.op = "top" -> ETop(o.n)
    [] o.op = "create" -> ECreate(o.n, o.def, o.force)

Ops == {[op |-> "push", n |-> n] : n \in Names} \cup {[op |-> "pop"]}
       \cup {[op |-> "top", n |-> n] : n \in Names}
       \cup {[op |-> "create", n |-> n, def |-> d, force |-> f] :
                n \in Names, d \in NoneOr({<<301>>}), f \in NoneOr({<<401, 402>>})}

Emit ==
  /\ pc = "emit" /\ Len(prog) < MaxOps
  /\ \E o \in Ops :
       /\ (o.op = "create" => Path(o.n) \notin DOMAIN created)
       /\ (o.op = "push" => Len(estack) < 2)
       /\ (o.op = "create" => Len(estack) < 2)
       /\ Op(o)
       /\ prog' = Append(prog, o)
  /\ UNCHANGED <<rvars, pc, pi, elog1, created1>>

StartRead ==
  /\ pc = "emit"
  /\ pc' = "read" /\ elog1' = elog /\ created1' = created
  /\ rlines' = elog /\ ri' = 1 /\ rst' = "look" /\ btag' = <<>> /\ save' = <<>> /\ store' = Empty /\ rerr' = ""
  /\ UNCHANGED <<evars, prog, pi>>

Read ==
  /\ pc = "read" /\ ~RDone /\ RStep
  /\ UNCHANGED <<evars, pc, prog, pi, elog1, created1>>

StartReemit ==
  /\ pc = "read" /\ RDone /\ Mode = "roundtrip"
  /\ pc' = "reemit" /\ pi' = 1
  /\ user' = store /\ estack' = <<>> /\ elog' = <<>> /\ created' = Empty /\ nextid' = 1000
  /\ UNCHANGED <<rvars, prog, elog1, created1>>

Reemit ==
  /\ pc = "reemit" /\ pi <= Len(prog)
  /\ Op(prog[pi]) /\ pi' = pi + 1
  /\ UNCHANGED <<rvars, pc, prog, elog1, created1>>

Finish ==
  /\ pc = "reemit" /\ pi > Len(prog)
  /\ pc' = "done"
  /\ UNCHANGED <<rvars, evars, prog, pi, elog1, created1>>

Next == Emit \/ StartRead \/ Read \/ StartReemit \/ Reemit \/ Finish
Spec == Init /\ [][Next]_<<vars, created1>>

\* reading back what was emitted returns every emitted body
RoundTripRead ==
  (pc \in {"reemit", "done"}) =>
     /\ rerr = ""
     /\ DOMAIN store = DOMAIN created1
     /\ \A p \in DOMAIN created1 : store[p] = created1[p].body
\* regenerating with the read-back store reproduces the text
RoundTripEmit == pc = "done" => elog = elog1
ReaderOK == pc = "read" => (ReaderContract /\ OutsideIgnored)
NoOtherError == rerr \in {"", "mismatch"}
=============================================================================
