SPECIFICATION TSpec
CHECK_DEADLOCK FALSE
INVARIANT NoOOB
INVARIANT LenTrimRule
INVARIANT AllocRule
INVARIANT CopyRule
INVARIANT FillRule
