-------------------------------- MODULE BindC --------------------------------
(* Fortran bind(C) interfaces agree with the C side (property C04).          *)
(*                                                                           *)
(* The interoperability relation of Fortran 2003 section 15 / 2018 section   *)
(* 18, as data.  A C parameter or result is                                   *)
(*    [cls, size, ptr, sname]   cls in int / real / bool / char / complex /   *)
(*                              void / struct / funptr / cfi ; ptr = levels   *)
(* a Fortran dummy or result is                                               *)
(*    [cls, size, value, dim, tname]  cls in int / real / bool / char /       *)
(*                              complex / cptr / funptr / type / assumedtype  *)
(*                              / cfi ; value = VALUE attribute ; dim = array *)
(* Struct and derived-type layouts are sequences of such records.             *)
(* A library is a stream of events: Define (a C function), DefineStruct,      *)
(* BindType (a bind(C) derived type), Bind (an interface body).               *)
EXTENDS Naturals, Sequences, FiniteSets, TLC

Scalar == {"int", "real", "bool", "char", "complex"}

VARIABLES cfuncs, cstructs, ftypes, problems

bvars == <<cfuncs, cstructs, ftypes, problems>>
BInit == cfuncs = <<>> /\ cstructs = <<>> /\ ftypes = <<>> /\ problems = <<>>

Lookup(seq, nm) == {i \in 1..Len(seq) : seq[i].name = nm}
HasStruct(nm) == Lookup(cstructs, nm) # {}
HasType(nm) == Lookup(ftypes, nm) # {}
StructOf(nm) == cstructs[CHOOSE i \in Lookup(cstructs, nm) : TRUE]
TypeOf(nm) == ftypes[CHOOSE i \in Lookup(ftypes, nm) : TRUE]

\* a field / component pair
FieldInterop(f, c) ==
  \/ f.cls \in Scalar /\ ~f.dim /\ c.ptr = 0 /\ c.cls = f.cls /\ c.size = f.size
  \/ f.cls \in Scalar /\ f.dim /\ c.ptr = 0 /\ c.cls = f.cls /\ c.size = f.size /\ c.arr     \* fixed-size array member
  \/ f.cls = "cptr" /\ c.ptr >= 1
  \/ f.cls = "cptr" /\ c.cls = "union_of_pointers"
  \/ f.cls = "funptr" /\ c.cls = "funptr"
  \/ f.cls = "type" /\ c.cls = "struct" /\ c.ptr = 0       \* nested: by name, checked where defined
LayoutInterop(fl, cl) == Len(fl) = Len(cl) /\ \A i \in 1..Len(fl) : FieldInterop(fl[i], cl[i])

StructMatches(tname, sname) ==
  HasType(tname) /\ HasStruct(sname) /\ LayoutInterop(TypeOf(tname).fields, StructOf(sname).fields)

\* a dummy argument against a C parameter
ArgInterop(f, c) ==
  \/ f.cls \in Scalar /\ f.value /\ ~f.dim /\ c.ptr = 0 /\ c.cls = f.cls /\ c.size = f.size
  \/ f.cls \in Scalar /\ ~f.value /\ c.ptr = 1 /\ c.cls = f.cls /\ c.size = f.size           \* by reference / array
  \/ f.cls = "char" /\ ~f.value /\ c.ptr = 1 /\ c.cls = "char"
  \/ f.cls \in Scalar /\ ~f.value /\ c.ptr = 1 /\ c.cls = "void"                            \* typed data handed to a generic void *
  \/ f.cls = "cptr" /\ f.value /\ ~f.dim /\ (c.ptr >= 1 \/ c.cls = "funptr")
  \/ f.cls = "cptr" /\ ~f.value /\ c.ptr >= 2                                              \* type(C_PTR) by reference: T**
  \/ f.cls = "cptr" /\ ~f.value /\ f.dim /\ c.ptr >= 2
  \/ f.cls = "funptr" /\ c.cls = "funptr"
  \/ f.cls = "assumedtype" /\ c.ptr = 1
  \/ f.cls = "cfi" /\ c.cls = "cfi" /\ c.ptr = 1
  \/ f.cls = "type" /\ f.value /\ c.ptr = 0 /\ c.cls = "struct" /\ StructMatches(f.tname, c.sname)
  \/ f.cls = "type" /\ ~f.value /\ c.ptr = 1 /\ c.cls = "struct" /\ StructMatches(f.tname, c.sname)

ResultInterop(f, c) ==
  \/ f.cls = "none" /\ c.cls = "void" /\ c.ptr = 0
  \/ f.cls \in Scalar /\ c.ptr = 0 /\ c.cls = f.cls /\ c.size = f.size
  \/ f.cls = "cptr" /\ c.ptr >= 1
  \/ f.cls = "funptr" /\ c.cls = "funptr"
  \/ f.cls = "type" /\ c.ptr = 0 /\ c.cls = "struct" /\ StructMatches(f.tname, c.sname)

Define(fn) == cfuncs' = Append(cfuncs, fn) /\ UNCHANGED <<cstructs, ftypes, problems>>
DefineStruct(s) == cstructs' = Append(cstructs, s) /\ UNCHANGED <<cfuncs, ftypes, problems>>
BindType(t) == ftypes' = Append(ftypes, t) /\ UNCHANGED <<cfuncs, cstructs, problems>>

BindWhy(b) ==
  IF Lookup(cfuncs, b.cname) = {} THEN <<"interface binds to a C function that is not defined", b.cname>>
  ELSE LET c == cfuncs[CHOOSE i \in Lookup(cfuncs, b.cname) : TRUE] IN
       IF Len(b.args) # Len(c.params) THEN <<"number of arguments differs", b.cname, Len(b.args), Len(c.params)>>
       ELSE IF \E i \in 1..Len(b.args) : ~ArgInterop(b.args[i], c.params[i])
            THEN LET i == CHOOSE i \in 1..Len(b.args) : ~ArgInterop(b.args[i], c.params[i]) IN
                 <<"argument is not interoperable with the C parameter", b.cname, i, b.args[i], c.params[i]>>
       ELSE IF ~ResultInterop(b.result, c.result) THEN <<"result is not interoperable", b.cname, b.result, c.result>>
       ELSE <<>>
Bind(b) == /\ problems' = IF BindWhy(b) = <<>> THEN problems ELSE Append(problems, BindWhy(b))
           /\ UNCHANGED <<cfuncs, cstructs, ftypes>>
=============================================================================
