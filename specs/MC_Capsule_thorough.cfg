SPECIFICATION Spec
CHECK_DEADLOCK FALSE
CONSTANTS
  Handles = {"h1", "h2", "h3"}
  MaxObj = 5
CONSTRAINT Bound
INVARIANT ReleasedAtMostOnce
INVARIANT LibraryOwnedNeverFreed
INVARIANT BorrowedHasNoDestructor
INVARIANT OwnedHasDestructor
INVARIANT MatchingDeallocator
