SPECIFICATION TSpec
CHECK_DEADLOCK FALSE
INVARIANT Precedence
