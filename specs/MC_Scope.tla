------------------------------ MODULE MC_Scope ------------------------------
EXTENDS Scope
CONSTANTS MaxNodes, Keys
Vals == {"1", "2"}
Locs == UNION {[S -> Vals] : S \in SUBSET Keys}
Kinds == {"ns", "class", "block", "func"}
RECURSIVE Trees(_)
Trees(n) == IF n = 1 THEN {<<[parent |-> 0, kind |-> "lib", loc |-> l]>> : l \in Locs}
            ELSE LET P == Trees(n - 1) IN
                 P \cup {Append(t, [parent |-> p, kind |-> kd, loc |-> l]) :
                           t \in {x \in P : Len(x) = n - 1}, p \in 1..(n - 1), kd \in Kinds, l \in Locs}
WellFormed(t) == \A n \in 2..Len(t) : t[t[n].parent].kind # "func"
Init == /\ tree \in {t \in Trees(MaxNodes) : WellFormed(t)}
        /\ op = [name |-> "none"] /\ tree2 = tree
DoPushDown == /\ op.name = "none"
              /\ \E c \in 1..Len(tree), k \in Keys :
                   /\ tree[c].kind # "func" /\ k \in DOMAIN tree[c].loc
                   /\ op' = [name |-> "pushdown", c |-> c, k |-> k] /\ tree2' = PushDown(tree, c, k)
              /\ UNCHANGED tree
DoBlock == /\ op.name = "none"
           /\ \E p \in 1..Len(tree) : tree[p].kind # "func"
                   /\ op' = [name |-> "block", c |-> p] /\ tree2' = WrapInBlock(tree, p)
           /\ UNCHANGED tree
DoSet == /\ op.name = "none"
         /\ \E c \in 1..Len(tree), k \in Keys, v \in Vals :
                   op' = [name |-> "set", c |-> c, k |-> k, v |-> v] /\ tree2' = SetOn(tree, c, k, v)
         /\ UNCHANGED tree
Next == DoPushDown \/ DoBlock \/ DoSet
Spec == Init /\ [][Next]_svars
=============================================================================
