-------------------------------- MODULE Scope --------------------------------
(* Scoped options and format fields (property C14).                         *)
(*                                                                          *)
(* A description is a tree of scopes: node 1 is the library, every other    *)
(* node has a parent with a smaller index and a kind (namespace, class,     *)
(* block, function); each node carries local settings, a partial map from   *)
(* keys to values.  Eff(t, n, k) is the value in force at node n: the       *)
(* nearest enclosing local setting (util.Scope.__getattr__).                *)
(* The equivalences of the property are operations on trees that must keep  *)
(* Eff unchanged at every declaration: PushDown, EmptyBlock; and a setting  *)
(* must not be visible outside the subtree where it is made.                *)
EXTENDS Naturals, Sequences, FiniteSets, TLC

\* node: [parent |-> 0..n, kind |-> STRING, loc |-> [keys -> values]]
NoVal == "<unset>"
RECURSIVE Eff(_, _, _)
Eff(t, n, k) == IF n = 0 THEN NoVal
                ELSE IF k \in DOMAIN t[n].loc THEN t[n].loc[k]
                ELSE Eff(t, t[n].parent, k)

RECURSIVE InSub(_, _, _)
InSub(t, n, c) == n # 0 /\ (n = c \/ InSub(t, t[n].parent, c))       \* n in the subtree rooted at c
Children(t, c) == {n \in 1..Len(t) : t[n].parent = c}
Leaves(t) == {n \in 1..Len(t) : t[n].kind = "func"}

Restrict(f, S) == [x \in S |-> f[x]]
Put(f, k, v) == [x \in (DOMAIN f) \cup {k} |-> IF x = k THEN v ELSE f[x]]

\* move the setting of k from container c down to each of its children that does not set k itself
PushDown(t, c, k) ==
  [n \in 1..Len(t) |->
     IF n = c THEN [t[n] EXCEPT !.loc = Restrict(t[n].loc, (DOMAIN t[n].loc) \ {k})]
     ELSE IF t[n].parent = c /\ k \notin DOMAIN t[n].loc THEN [t[n] EXCEPT !.loc = Put(t[n].loc, k, t[c].loc[k])]
     ELSE t[n]]

\* wrap the children of p in a new empty block appended at the end
\* (children keep their order; the block has no settings of its own)
WrapInBlock(t, p) ==
  LET b == Len(t) + 1 IN
  [n \in 1..b |-> IF n = b THEN [parent |-> p, kind |-> "block", loc |-> <<>>]
                  ELSE IF t[n].parent = p THEN [t[n] EXCEPT !.parent = b] ELSE t[n]]
\* (the block index exceeds its children's: Eff only follows parent pointers, order is immaterial here)

SetOn(t, c, k, v) == [t EXCEPT ![c].loc = Put(t[c].loc, k, v)]

VARIABLES tree, op, tree2
svars == <<tree, op, tree2>>

PushDownKeeps == op.name = "pushdown" =>
   \A n \in Leaves(tree) : Eff(tree2, n, op.k) = Eff(tree, n, op.k)
BlockTransparent == op.name = "block" =>
   \A n \in Leaves(tree) : \A k \in {"a", "b"} : Eff(tree2, n, k) = Eff(tree, n, k)
SiblingUntouched == op.name = "set" =>
   \A n \in 1..Len(tree) : ~InSub(tree, n, op.c) => Eff(tree2, n, op.k) = Eff(tree, n, op.k)
SetReaches == op.name = "set" =>
   \A n \in 1..Len(tree) : (InSub(tree, n, op.c) /\ \A m \in 1..Len(tree) :
                               (InSub(tree, n, m) /\ InSub(tree, m, op.c) /\ m # op.c) => op.k \notin DOMAIN tree[m].loc)
                           => Eff(tree2, n, op.k) = op.v
=============================================================================
