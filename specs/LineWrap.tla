----------------------------- MODULE LineWrap -----------------------------
(* Line output layer of every Shroud emitter (property C13).               *)
(*                                                                          *)
(* Three cooperating machines over one state:                               *)
(*  D  the directive layer (util.WrapperMixin.write_lines): takes the next  *)
(*     item of the output list, adjusts `indent`, and hands a payload either*)
(*     to a direct write or to the continuation splitter;                   *)
(*  W  the continuation splitter (write_continue), implementation shaped:   *)
(*     Split, one Step per part, Finish; it appends the physical lines the  *)
(*     design produces to `out`;                                            *)
(*  A  the acceptor: consumes *observed* physical lines `obs` and accepts   *)
(*     exactly the layouts the property allows for the payload (text        *)
(*     preserved up to white space at break points, continuation marker on  *)
(*     every broken line, breaks only at hints, length respected whenever a *)
(*     break point allows).  A is deliberately more permissive than W: a    *)
(*     different but legal layout is accepted (reported as `deviates`).     *)
(*                                                                          *)
(* In model-checking mode obs mirrors out, so "A never rejects" is the      *)
(* refinement  W => A  on every bounded input.  In trace mode obs is what   *)
(* the real code wrote.                                                     *)
EXTENDS Text, Integers, TLC

CONSTANT Mirror   \* TRUE: obs mirrors out (model checking); FALSE: obs is a recorded trace

VARIABLES
  linelen, spw, cont,       \* configuration: line length, width of one indent unit, continuation marker
  items, subs, indent,      \* D: remaining items, remaining sublines of the current item, indent level
  dpc,                      \* D: "next" | "cont" (W running) | "acc" (A running) | "done"
  payload, kind, after,     \* D: current payload, "direct"|"cont", indent delta applied after the write
  line, dbl, parts, wi, subline, nparts, wpc,   \* W
  out, outn,                \* physical lines produced by W/D, and nparts of each (0 for direct)
  obs, ak, ai, cur, an, apc, why                \* A

vars == <<linelen, spw, cont, items, subs, indent, dpc, payload, kind, after,
          line, dbl, parts, wi, subline, nparts, wpc, out, outn,
          obs, ak, ai, cur, an, apc, why>>

ObsNext == obs' = IF Mirror THEN out' ELSE obs

Spaces(n) == IF n > 0 THEN Rep(SP, n) ELSE <<>>    \* Python: "    " * negative = ""

-----------------------------------------------------------------------------
(* Items: [t |-> "int", v |-> n]  or  [t |-> "str", s |-> text].            *)

SplitNL(s) == SplitOn(s, LAMBDA c : c = NL)        \* str.split("\n")

HASH == 35  AT == 64  CARET == 94  PLUS == 43  MINUS == 45

RECURSIVE LeadMinus(_)
LeadMinus(s) == IF s # <<>> /\ s[1] = MINUS THEN 1 + LeadMinus(Tail(s)) ELSE 0

(* The documented meaning of one subline:                                    *)
(*  [k, p, pre, post] = kind, payload, indent change before and after write  *)
Directive(s) ==
  IF s = <<>> THEN [k |-> "direct", p |-> <<>>, pre |-> 0, post |-> 0]
  ELSE IF s[1] = HASH THEN [k |-> "direct", p |-> s, pre |-> 0, post |-> 0]
  ELSE IF s[1] = AT THEN [k |-> "cont", p |-> Tail(s), pre |-> 0, post |-> 0]
  ELSE IF s[1] = CARET THEN [k |-> "direct", p |-> Tail(s), pre |-> 0, post |-> 0]
  ELSE IF s[1] = PLUS THEN
         IF s[Len(s)] = MINUS
         THEN [k |-> "cont", p |-> SubSeq(s, 2, Len(s) - 1), pre |-> 1, post |-> -1]
         ELSE [k |-> "cont", p |-> Tail(s), pre |-> 1, post |-> 0]
  ELSE LET m == LeadMinus(s)
           r == SubSeq(s, m + 1, Len(s))
       IN IF r = <<>> THEN [k |-> "bad", p |-> <<>>, pre |-> -m, post |-> 0]
          ELSE IF r[Len(r)] = PLUS
          THEN [k |-> "cont", p |-> SubSeq(r, 1, Len(r) - 1), pre |-> -m, post |-> 1]
          ELSE [k |-> "cont", p |-> r, pre |-> -m, post |-> 0]

-----------------------------------------------------------------------------
(* W: the splitter.                                                          *)

\* the loop "Find tabs and formfeeds": text between hints, a lone <<FF>> part for each form feed
SplitParts(l) ==
  LET P  == SepPositions(l, LAMBDA c : c = TAB \/ c = FF)
      n  == Len(P) - 1
      raw == [k \in 1..(2 * n) |->
                IF k % 2 = 1 THEN SubSeq(l, P[(k + 1) \div 2] + 1, P[(k + 1) \div 2 + 1] - 1)
                ELSE IF P[k \div 2 + 1] <= Len(l) /\ l[P[k \div 2 + 1]] = FF THEN <<FF>> ELSE <<>>]
  IN SelectSeq(raw, LAMBDA p : p # <<>>)

StripCR(l) == IF l # <<>> /\ l[1] = CR THEN Tail(l) ELSE l

(* inputs outside the documented domain of the helper *)
BadPayload(p) ==
  \/ p = <<>>                                         \* IndexError in the code
  \/ HasChar(StripCR(p), CR)                         \* \r is a leading hint only
  \/ HasChar(p, NL)
  \/ LET ps == SplitParts(StripCR(p)) IN ps # <<>> /\ ps[Len(ps)] = <<FF>>   \* "must not be the last part"

WSplit_ ==
  /\ dpc = "cont" /\ wpc = "split"
  /\ dbl' = (IF line[1] = CR THEN 2 ELSE 1)
  /\ parts' = SplitParts(StripCR(line))
  /\ wi' = 1
  /\ subline' = Spaces(spw * indent)
  /\ nparts' = 0
  /\ wpc' = "step"
  /\ UNCHANGED <<linelen, spw, cont, items, subs, indent, dpc, payload, kind, after, line,
                 out, outn, ak, ai, cur, an, apc, why>>

WStep_ ==
  /\ dpc = "cont" /\ wpc = "step" /\ wi <= Len(parts)
  /\ LET part == parts[wi]
         isff == part = <<FF>>
         dump == isff \/ (Len(subline) + Len(part) > linelen /\ nparts > 0)
         p2   == IF dump THEN LStrip(part) ELSE part
         save == ~isff /\ p2 # <<>>
         base == IF dump THEN Spaces(spw * (indent + dbl)) ELSE subline
         n0   == IF dump THEN 0 ELSE nparts
     IN /\ out'  = IF dump THEN Append(out, subline \o cont) ELSE out
        /\ outn' = IF dump THEN Append(outn, nparts) ELSE outn
        /\ subline' = IF save THEN base \o p2 ELSE base
        /\ nparts' = IF save THEN n0 + 1 ELSE n0
  /\ wi' = wi + 1
  /\ UNCHANGED <<linelen, spw, cont, items, subs, indent, dpc, payload, kind, after, line, dbl,
                 parts, wpc, ak, ai, cur, an, apc, why>>

WFinish_ ==
  /\ dpc = "cont" /\ wpc = "step" /\ wi > Len(parts)
  /\ out' = Append(out, subline)
  /\ outn' = Append(outn, nparts)
  /\ wpc' = "idle"
  /\ dpc' = "acc" /\ apc' = "run" /\ ai' = 1 /\ cur' = <<>> /\ an' = 0
  /\ UNCHANGED <<linelen, spw, cont, items, subs, indent, payload, kind, after, line, dbl, parts,
                 wi, subline, nparts, ak, why>>

-----------------------------------------------------------------------------
(* A: the acceptor for one "cont" payload, over obs[ak..].                   *)

HasCont(l) == IsSuffixOfT(cont, l)
Body(l) == IF HasCont(l) THEN DropSuffix(l, Len(cont)) ELSE l
NoHint(l) == ~HasChar(l, TAB) /\ ~HasChar(l, FF) /\ ~HasChar(l, CR) /\ ~HasChar(l, NL)

Reject(msg) == /\ apc' = "reject" /\ why' = msg
               /\ UNCHANGED <<ak, ai, cur, an>>

AStep_ ==
  /\ dpc = "acc" /\ apc = "run"
  /\ IF ak > Len(obs) THEN Reject("physical lines missing")
     ELSE IF ~NoHint(obs[ak]) THEN Reject("hint character leaked into output")
     ELSE IF ai > Len(parts) THEN
        \* all parts consumed: obs[ak] must be the final line of this payload
        IF Strip(obs[ak]) # Strip(cur) THEN Reject("text of final line differs")
        ELSE IF Len(obs[ak]) > linelen /\ an > 1 THEN Reject("final line too long although a break point exists")
        ELSE /\ apc' = "ok" /\ ak' = ak + 1 /\ UNCHANGED <<ai, cur, an, why>>
     ELSE IF ak < Len(obs) /\ AllBlank(Body(obs[ak])) /\ HasCont(obs[ak]) /\ cur = <<>> THEN
        \* an all-blank continued line (leading blank part dumped): layout only
        /\ ak' = ak + 1 /\ UNCHANGED <<ai, cur, an, apc, why>>
     ELSE LET part == parts[ai]
              isff == part = <<FF>>
              drop == isff \/ (cur = <<>> /\ AllBlank(part))      \* white space at a break point
              c2   == IF drop THEN cur ELSE cur \o part
              n2   == IF drop THEN an ELSE an + 1
              rest == {j \in (ai + 1)..Len(parts) : parts[j] # <<FF>>}
              more == \E j \in rest : ~AllBlank(parts[j])
              match == c2 # <<>> /\ ak < Len(obs) /\ Strip(c2) = Strip(Body(obs[ak]))
              \* a break here is certain when text follows; when only blank parts follow, the
              \* code may or may not have broken (blank last line): both are explored on a
              \* recorded trace; when obs mirrors W's own output a following line means W broke
              brks == IF match /\ more THEN {TRUE}
                      ELSE IF match /\ rest # {} THEN (IF Mirror THEN {TRUE} ELSE {TRUE, FALSE})
                      ELSE {FALSE}
          IN \E brk \in brks :
             IF brk THEN
               IF ~HasCont(obs[ak]) THEN Reject("broken line without continuation marker")
               ELSE IF Len(Body(obs[ak])) > linelen /\ n2 > 1 THEN Reject("line too long although a break point exists")
               ELSE /\ ak' = ak + 1 /\ ai' = ai + 1 /\ cur' = <<>> /\ an' = 0 /\ UNCHANGED <<apc, why>>
             ELSE /\ ai' = ai + 1 /\ cur' = c2 /\ an' = n2 /\ UNCHANGED <<ak, apc, why>>
  /\ UNCHANGED <<linelen, spw, cont, items, subs, indent, dpc, payload, kind, after, line, dbl,
                 parts, wi, subline, nparts, wpc, out, outn>>

-----------------------------------------------------------------------------
(* D: the directive layer.                                                   *)

DTakeItem_ ==
  /\ dpc = "next" /\ subs = <<>> /\ items # <<>>
  /\ LET it == Head(items) IN
       IF it.t = "int"
       THEN /\ indent' = indent + it.v /\ subs' = <<>>
       ELSE /\ subs' = SplitNL(it.s) /\ UNCHANGED indent
  /\ items' = Tail(items)
  /\ UNCHANGED <<linelen, spw, cont, dpc, payload, kind, after, line, dbl, parts, wi, subline,
                 nparts, wpc, out, outn, ak, ai, cur, an, apc, why>>

InDomain(d) == d.k # "bad" /\ (d.k = "cont" => ~BadPayload(d.p))

\* a subline outside the documented domain of the helper ends the run: "excluded"
DOutOfDomain_ ==
  /\ dpc = "next" /\ subs # <<>> /\ apc \notin {"reject", "excluded"}
  /\ ~InDomain(Directive(Head(subs)))
  /\ apc' = "excluded" /\ dpc' = "done"
  /\ UNCHANGED <<linelen, spw, cont, items, subs, indent, payload, kind, after, line, dbl, parts, wi,
                 subline, nparts, wpc, out, outn, ak, ai, cur, an, why>>

DSubline_ ==
  /\ dpc = "next" /\ subs # <<>> /\ apc # "reject"
  /\ InDomain(Directive(Head(subs)))
  /\ LET d == Directive(Head(subs)) IN
       /\ kind' = d.k /\ payload' = d.p /\ after' = d.post
       /\ indent' = indent + d.pre
       /\ IF d.k = "direct"
          THEN /\ out' = Append(out, d.p) /\ outn' = Append(outn, 0)
               /\ dpc' = "acc" /\ apc' = "direct"
               /\ UNCHANGED <<line, wpc>>
          ELSE /\ line' = d.p /\ wpc' = "split" /\ dpc' = "cont"
               /\ UNCHANGED <<out, outn, apc>>
  /\ subs' = Tail(subs)
  /\ UNCHANGED <<linelen, spw, cont, items, dbl, parts, wi, subline, nparts, ak, ai, cur, an, why>>

\* direct writes ('#', '^', empty): the physical line is the payload, verbatim
ADirect_ ==
  /\ dpc = "acc" /\ apc = "direct"
  /\ IF ak > Len(obs) THEN Reject("physical lines missing")
     ELSE IF obs[ak] # payload THEN Reject("column-one / literal line altered")
     ELSE /\ apc' = "ok" /\ ak' = ak + 1 /\ UNCHANGED <<ai, cur, an, why>>
  /\ UNCHANGED <<linelen, spw, cont, items, subs, indent, dpc, payload, kind, after, line, dbl,
                 parts, wi, subline, nparts, wpc, out, outn>>

DAfter_ ==
  /\ dpc = "acc" /\ apc = "ok"
  /\ indent' = indent + after
  /\ dpc' = "next" /\ apc' = "idle"
  /\ UNCHANGED <<linelen, spw, cont, items, subs, payload, kind, after, line, dbl, parts, wi,
                 subline, nparts, wpc, out, outn, ak, ai, cur, an, why>>

DDone_ ==
  /\ dpc = "next" /\ subs = <<>> /\ items = <<>>
  /\ dpc' = "done"
  /\ IF ak = Len(obs) + 1 \/ apc = "excluded" THEN UNCHANGED <<apc, why>>
     ELSE /\ apc' = "reject" /\ why' = "extra physical lines"
  /\ UNCHANGED <<linelen, spw, cont, items, subs, indent, payload, kind, after, line, dbl, parts, wi,
                 subline, nparts, wpc, out, outn, ak, ai, cur, an>>

WSplit == WSplit_ /\ ObsNext
WStep == WStep_ /\ ObsNext
WFinish == WFinish_ /\ ObsNext
AStep == AStep_ /\ ObsNext
DTakeItem == DTakeItem_ /\ ObsNext
DOutOfDomain == DOutOfDomain_ /\ ObsNext
DSubline == DSubline_ /\ ObsNext
ADirect == ADirect_ /\ ObsNext
DAfter == DAfter_ /\ ObsNext
DDone == DDone_ /\ ObsNext

Step == DTakeItem \/ DOutOfDomain \/ DSubline \/ WSplit \/ WStep \/ WFinish \/ AStep \/ ADirect \/ DAfter \/ DDone

InitWith(ll, sw, ct, its, ind0) ==
  /\ linelen = ll /\ spw = sw /\ cont = ct /\ items = its /\ indent = ind0
  /\ subs = <<>> /\ dpc = "next" /\ payload = <<>> /\ kind = "none" /\ after = 0
  /\ line = <<>> /\ dbl = 1 /\ parts = <<>> /\ wi = 1 /\ subline = <<>> /\ nparts = 0 /\ wpc = "idle"
  /\ out = <<>> /\ outn = <<>>
  /\ ak = 1 /\ ai = 1 /\ cur = <<>> /\ an = 0 /\ apc = "idle" /\ why = ""

-----------------------------------------------------------------------------
(* Properties of the design, stated on the splitter's own output for the     *)
(* payload just finished (evaluated when W hands over to A).                 *)

AtHandOver == dpc = "acc" /\ apc = "run" /\ ai = 1 /\ cur = <<>> /\ an = 0

\* index of first line of the current payload in out: lines after ak-1 consumed ones (obs mirrors out in MC)
CurLines == SubSeq(out, ak, Len(out))
CurN == SubSeq(outn, ak, Len(outn))
BodyOf(ls) == [j \in 1..Len(ls) |-> IF j < Len(ls) THEN Body(ls[j]) ELSE ls[j]]

PayloadText == SelectSeq(StripCR(line), LAMBDA c : c # TAB /\ c # FF)

TextPreserved ==
  AtHandOver => NoWS(Flatten(BodyOf(CurLines))) = NoWS(PayloadText)

ContOnEveryBrokenLine ==
  AtHandOver => \A j \in 1..(Len(CurLines) - 1) : HasCont(CurLines[j])

NoDirectiveLeak ==
  AtHandOver => \A j \in 1..Len(CurLines) : NoHint(CurLines[j])

WithinLength ==
  AtHandOver => \A j \in 1..Len(CurLines) :
                   Len(BodyOf(CurLines)[j]) <= linelen \/ CurN[j] <= 1

\* every physical line boundary falls on a hint position of the payload
HintPrefixes ==
  LET l == StripCR(line) IN
  {NoWS(SelectSeq(SubSeq(l, 1, p - 1), LAMBDA c : c # TAB /\ c # FF)) :
       p \in {q \in 1..Len(l) : l[q] = TAB \/ l[q] = FF}}
BreaksOnlyAtHints ==
  AtHandOver => \A j \in 1..(Len(CurLines) - 1) :
                   NoWS(Flatten(SubSeq(BodyOf(CurLines), 1, j))) \in HintPrefixes

Refines == apc # "reject"          \* W's layout is always one the acceptor allows

=============================================================================
