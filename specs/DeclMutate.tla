----------------------------- MODULE DeclMutate -----------------------------
(* Invalid input (property C17), declaration part.                          *)
(*                                                                          *)
(* A valid sentence Tokens(D) is damaged by one token edit; the outcome     *)
(* class of the real parser is judged against what any C/C++ declaration    *)
(* must satisfy:                                                            *)
(*   - the outcome is Accept or CleanReject, never Internal or Hang;        *)
(*   - an accepted sentence is balanced in () [] <> ;                       *)
(*   - an accepted sentence does not end in a token that cannot end a       *)
(*     declaration, and contains no empty list slot "(," ",," ",)" ;        *)
(*   - a sentence of the documented grammar is accepted (the unmutated      *)
(*     sentence, and mutants the harness knows to be sentences).            *)
(* CleanReject must carry a message.                                        *)
EXTENDS DeclGrammar

Edit(ts, m) ==
  CASE m.op = "none" -> ts
    [] m.op = "del"  -> SubSeq(ts, 1, m.pos - 1) \o SubSeq(ts, m.pos + 1, Len(ts))
    [] m.op = "ins"  -> SubSeq(ts, 1, m.pos - 1) \o <<m.tok>> \o SubSeq(ts, m.pos, Len(ts))
    [] m.op = "rep"  -> [ts EXCEPT ![m.pos] = m.tok]
    [] m.op = "swap" -> [ts EXCEPT ![m.pos] = ts[m.pos + 1], ![m.pos + 1] = ts[m.pos]]
    [] m.op = "app"  -> Append(ts, m.tok)

Applicable(ts, m) ==
  CASE m.op = "none" -> TRUE
    [] m.op \in {"del", "rep"} -> m.pos \in 1..Len(ts)
    [] m.op = "ins" -> m.pos \in 1..(Len(ts) + 1)
    [] m.op = "swap" -> m.pos \in 1..(Len(ts) - 1)
    [] m.op = "app" -> TRUE

\* '<' '>' are not matched: inside an attribute value they may be comparison operators
Open(x) == x \in {"(", "["}
Close(x) == x \in {")", "]"}
Match(o, c) == (o = "(" /\ c = ")") \/ (o = "[" /\ c = "]")

\* bracket matching with an explicit stack, token by token
RECURSIVE Bal(_, _, _)
Bal(ts, i, stk) ==
  IF i > Len(ts) THEN stk = <<>>
  ELSE IF Open(ts[i]) THEN Bal(ts, i + 1, Append(stk, ts[i]))
  ELSE IF Close(ts[i]) THEN
         stk # <<>> /\ Match(stk[Len(stk)], ts[i]) /\ Bal(ts, i + 1, SubSeq(stk, 1, Len(stk) - 1))
  ELSE Bal(ts, i + 1, stk)
Balanced(ts) == Bal(ts, 1, <<>>)

CannotEnd == {"(", "[", "<", ",", "=", "+", "::", "~", "-", "/"}
EmptySlot(ts) == \E i \in 1..(Len(ts) - 1) :
                    <<ts[i], ts[i + 1]>> \in {<<"(", ",">>, <<",", ",">>, <<",", ")">>}
Trailing(ts) == ts # <<>> /\ ts[Len(ts)] \in CannotEnd

\* the sentence with the text of every attribute value "+name( ... )" removed (up to the
\* parenthesis that closes it, as the parser collects it)
RECURSIVE Strip(_, _, _)
Strip(ts, i, dp) ==
  IF i > Len(ts) THEN <<>>
  ELSE IF dp > 0 THEN
         IF ts[i] = "(" THEN Strip(ts, i + 1, dp + 1)
         ELSE IF ts[i] = ")" THEN (IF dp = 1 THEN <<")">> ELSE <<>>) \o Strip(ts, i + 1, dp - 1)
         ELSE Strip(ts, i + 1, dp)
  ELSE IF i + 2 <= Len(ts) /\ ts[i] = "+" /\ ts[i + 2] = "(" /\ ts[i + 1] \notin {"(", ")", "+", ","}
       THEN <<ts[i], ts[i + 1], "(">> \o Strip(ts, i + 3, 1)
  ELSE <<ts[i]>> \o Strip(ts, i + 1, 0)
NoAttrValues(ts) == Strip(ts, 1, 0)

Defect(ts) == IF ~Balanced(ts) THEN "unbalanced text accepted"
              ELSE IF Trailing(ts) THEN "trailing text accepted"
              ELSE IF EmptySlot(ts) THEN "empty list slot accepted"
              ELSE ""

\* what the property demands of an outcome  (returns "" when satisfied)
Judge(ts, outcome, msg, sentence) ==
  IF outcome = "hang" THEN "hang"
  ELSE IF outcome = "internal" THEN "internal Python exception"
  ELSE IF outcome = "accept" /\ Defect(ts) # "" /\ Defect(NoAttrValues(ts)) = ""
       THEN "attribute value: " \o Defect(ts)
  ELSE IF outcome = "accept" /\ Defect(ts) # "" THEN Defect(ts)
  ELSE IF outcome = "reject" /\ sentence THEN "sentence of the documented grammar rejected"
  ELSE IF outcome = "reject" /\ msg = "" THEN "rejected without a message"
  ELSE ""

VARIABLES mut, mtoks
MInit(d, m) == GInit(d) /\ mut = m /\ mtoks = <<>>
\* the mutation is applied once the whole sentence has been emitted
MApply == phase = "done" /\ mtoks = <<>> /\ Applicable(toks, mut) /\ mtoks' = Edit(toks, mut)
          /\ UNCHANGED <<gvars, mut>>
=============================================================================
