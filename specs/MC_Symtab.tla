----------------------------- MODULE MC_Symtab -----------------------------
(* Every placement of three type declarations and one use in the scopes      *)
(* global > n1 > n3 (and n2 beside n1), every small reference.               *)
EXTENDS Symtab
VARIABLES decls, upos
Names == {"A", "B"}
TKinds == {"struct", "typedef", "enum"}
Refs == {[global |-> FALSE, parts |-> p] : p \in {<<"A">>, <<"B">>, <<"n1", "A">>, <<"n3", "A">>, <<"n1", "n3", "A">>, <<"n2", "B">>, <<"n1", "B">>}}
T(id, par, nm, k) == [id |-> id, parent |-> par, name |-> nm, kind |-> k]
U(id, par, r) == [id |-> id, parent |-> par, name |-> "use", kind |-> "use", ref |-> r]
\* writing order: t1 (global), n1 {, t2 (global or n1), n3 { t3 (anywhere open) }, } n2, use (anywhere) -- the use may also
\* come before t3
Init == \E n1 \in Names, n2 \in Names, n3 \in Names, k1 \in TKinds, k2 \in TKinds, k3 \in TKinds,
           p2 \in {0, 1}, p3 \in {0, 1, 2, 6}, pu \in {0, 1, 2, 6}, r \in Refs, early \in BOOLEAN :
        /\ decls = IF early
                   THEN <<T(3, 0, n1, k1), T(1, 0, "n1", "namespace"), T(4, p2, n2, k2), T(2, 1, "n3", "namespace"),
                          T(6, 0, "n2", "namespace"), U(7, pu, r), T(5, p3, n3, k3)>>
                   ELSE <<T(3, 0, n1, k1), T(1, 0, "n1", "namespace"), T(4, p2, n2, k2), T(2, 1, "n3", "namespace"),
                          T(6, 0, "n2", "namespace"), T(5, p3, n3, k3), U(7, pu, r)>>
        /\ upos = IF early THEN 6 ELSE 7
Next == UNCHANGED <<decls, upos>>
Spec == Init /\ [][Next]_<<decls, upos>>
R == decls[upos].ref
InvInnermost == Innermost(decls, upos, R)
InvNoSibling == NoSibling(decls, upos, R)
\* nothing written after the point of use is ever found
InvDeclaredBefore == LET i == Resolve(decls, upos, R) IN i = 0 \/ i < upos
\* a name qualified from the global scope downwards denotes the same thing wherever it is written
InvQualified == (Len(R.parts) = 3) =>
                  \A pu \in {0, 1, 2, 6} : Denotes([decls EXCEPT ![upos].parent = pu], upos, R) = Denotes(decls, upos, R)
=============================================================================
