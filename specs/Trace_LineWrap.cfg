SPECIFICATION TSpec
CHECK_DEADLOCK FALSE
CONSTANTS
  Mirror = FALSE
