SPECIFICATION TSpec
CHECK_DEADLOCK FALSE
CONSTANTS
  Obj = {1, 2, 3, 4, 5, 6, 7, 8}
  Member = {"value", "ro", "alt", "us", "u8", "ll", "fl", "flag", "tint"}
  ReadOnly = {"ro"}
  Val = {0}
