--------------------------- MODULE Trace_Members ---------------------------
(* Trace validation for member accessors (C01, C02, C03): the log of a driver  *)
(* that constructs objects, calls the generated getters and setters and the    *)
(* library's own methods.  Wrapper-side events carry the object the driver     *)
(* named and the value it passed or got; library-side events come from the     *)
(* instrumented library.  Each event must be an enabled Members action.        *)
EXTENDS Members, Sequences, Json, IOUtils, TLCExt
Traces == JsonDeserialize(IOEnv.TRACE_FILE)
VARIABLES tid, fin, i, bad
T == Traces[tid]
TInit == tid \in 1..Len(Traces) /\ fin = FALSE /\ i = 1 /\ bad = <<>> /\ MInit

Act(e) == CASE e.op = "New" -> New(e.o, [m \in Member |-> e.init[m]])
            [] e.op = "Delete" -> Delete(e.o)
            [] e.op = "WSet" -> WSet(e.o, e.m, e.v)
            [] e.op = "WGet" -> WGet(e.o, e.m, e.v)
            [] e.op = "LSet" -> LSet(e.o, e.m, e.v)
            [] e.op = "LGet" -> LGet(e.o, e.m, e.v)
            [] e.op = "WBad" -> WBad(e.o, e.m, e.v)
            [] OTHER -> FALSE /\ UNCHANGED mvars      \* "WErr": the accessor raised an exception / does not exist
Why(e) == IF e.o \notin Obj THEN <<"unknown object", e.op>>
          ELSE IF e.op = "WErr" THEN <<"accessor is missing or raised an exception", e.m>>
          ELSE IF e.op = "New" THEN <<"object constructed twice", e.o>>
          ELSE IF e.o \notin live THEN <<"object is not alive", e.op, e.o>>
          ELSE IF e.op = "WSet" /\ e.m \in ReadOnly THEN <<"setter exists for a read-only member", e.m>>
          ELSE IF e.op = "WBad" THEN <<"setter accepted a value of the wrong type", e.m>>
          ELSE IF e.op = "WGet" THEN <<"getter did not return the member's value", e.m, e.v, val[e.o][e.m]>>
          ELSE IF e.op = "LGet" THEN <<"library does not see the value the setter stored", e.m, e.v, val[e.o][e.m]>>
          ELSE <<"event not allowed", e.op>>
TStep == /\ ~fin /\ bad = <<>> /\ i <= Len(T.events)
         /\ LET e == T.events[i] IN
            IF e.o \in Obj /\ ENABLED Act(e)
            THEN Act(e) /\ i' = i + 1 /\ UNCHANGED bad
            ELSE bad' = Why(e) /\ UNCHANGED <<mvars, i>>
         /\ UNCHANGED <<tid, fin>>
\* vacuity: a trace must exercise a setter, a getter and a library view
Ops == {T.events[k].op : k \in 1..Len(T.events)}
TVerdict == /\ ~fin /\ (bad # <<>> \/ i > Len(T.events)) /\ fin' = TRUE
            /\ PrintT(<<"VERDICT", tid>> \o
                 (IF bad # <<>> THEN <<"REJECT">> \o bad \o <<i>>
                  ELSE IF ~({"WGet", "New"} \subseteq Ops) THEN <<"REJECT", "trace exercises no getter">>
                  ELSE <<"ACCEPT", "ok">>))
            /\ UNCHANGED <<mvars, tid, i, bad>>
TSpec == TInit /\ [][TStep \/ TVerdict]_<<mvars, tid, fin, i, bad>>
=============================================================================
