----------------------------- MODULE CallBridge -----------------------------
(* A wrapper call is equivalent to calling the library directly              *)
(* (properties C01, C02; the Python and Lua fronts reuse the contract).      *)
(*                                                                            *)
(* One call through a generated wrapper is the protocol                       *)
(*     CallerInvoke -> LibEnter -> LibExit -> CallerReturn                    *)
(* observed at both ends of the wrapper: the driver logs what it supplies and *)
(* what it gets back, the instrumented subject library logs what it receives *)
(* and what it produces.  The contract is a function of the *declaration*     *)
(* only (never of language c/c++, F_CFI, debug):                              *)
(*   params: sequence of [ty, intent, api, conv, def]                         *)
(*     ty      "int" | "dbl" | "bool" | "str" | "pt" | "arri" | "arrd" | "obj" *)
(*     intent  "in" | "out" | "inout"                                         *)
(*     api     "arg"           supplied by the caller of this front-end       *)
(*             "implied_size"  computed from the array argument `ref`         *)
(*             "implied_len" / "implied_len_trim"  from the string `ref`      *)
(*             "hidden"        not in the caller's API                        *)
(*     conv    "id" | "rtrim"  (character input loses trailing blanks)        *)
(*     def     [has, v]        C++ default value of a trailing parameter      *)
(*   nsup    number of declared parameters the caller supplies (arity)        *)
(*   self    TRUE for instance methods: the object comes first on both sides  *)
(* Values are sequences of integers tagged with a type letter.                *)
EXTENDS Integers, Sequences, FiniteSets, TLC
LOCAL INSTANCE Text

VARIABLES sig, pc, caller_in, lib_in, lib_out, caller_out, target, entry

cvars == <<sig, pc, caller_in, lib_in, lib_out, caller_out, target, entry>>

CInit(s) == /\ sig = s /\ pc = "idle" /\ caller_in = <<>> /\ lib_in = <<>> /\ lib_out = <<>> /\ caller_out = <<>>
            /\ target = "" /\ entry = ""

IsIn(p)  == p.intent \in {"in", "inout"}
IsOut(p) == p.intent \in {"out", "inout"}

\* value conversions of the documented kinds
SPACE == 32
RTrimV(v) == LET idx == {i \in 1..Len(v) : v[i] # SPACE} IN
             IF idx = {} THEN <<>> ELSE SubSeq(v, 1, CHOOSE m \in idx : \A j \in idx : j <= m)
ToLib(p, val) == IF p.conv = "rtrim" /\ val.t = "s" THEN [t |-> "s", v |-> RTrimV(val.v)] ELSE val

\* index (in caller_in) of declared parameter k, counting only caller-supplied input parameters
Supplied(k) == k <= sig.nsup /\ sig.params[k].api = "arg"
CallerPos(k) == Cardinality({j \in 1..k : Supplied(j) /\ IsIn(sig.params[j])}) + (IF sig.self THEN 1 ELSE 0)
LibPos(k) == Cardinality({j \in 1..k : IsIn(sig.params[j])}) + (IF sig.self THEN 1 ELSE 0)

\* what the library must receive for declared parameter k (an input parameter)
Expected(k) ==
  LET p == sig.params[k] IN
  IF Supplied(k) THEN ToLib(p, caller_in[CallerPos(k)])
  ELSE IF p.api = "implied_size" THEN
       [t |-> "i", v |-> <<Len(caller_in[CallerPos(p.ref)].v)>>]
  ELSE IF p.api = "implied_len" THEN
       [t |-> "i", v |-> <<Len(caller_in[CallerPos(p.ref)].v)>>]
  ELSE IF p.api = "implied_len_trim" THEN
       [t |-> "i", v |-> <<Len(RTrimV(caller_in[CallerPos(p.ref)].v))>>]
  ELSE IF p.def.has THEN p.def.v
  ELSE [t |-> "?", v |-> <<>>]

InParams == {k \in 1..Len(sig.params) : IsIn(sig.params[k])}
NLibIn == Cardinality(InParams) + (IF sig.self THEN 1 ELSE 0)
NCallerIn == Cardinality({k \in InParams : Supplied(k)}) + (IF sig.self THEN 1 ELSE 0)

\* result first, then every out/inout parameter in declaration order
OutParams == {k \in 1..Len(sig.params) : IsOut(sig.params[k])}
HasRes == sig.result # "none"
NLibOut == Cardinality(OutParams) + (IF HasRes THEN 1 ELSE 0)
LibOutPos(k) == Cardinality({j \in 1..k : IsOut(sig.params[j])}) + (IF HasRes THEN 1 ELSE 0)
CallerOutPos(k) == Cardinality({j \in 1..k : IsOut(sig.params[j]) /\ sig.params[j].api = "arg" /\ j <= sig.nsup})
                   + (IF HasRes THEN 1 ELSE 0)
NCallerOut == Cardinality({k \in OutParams : sig.params[k].api = "arg" /\ k <= sig.nsup}) + (IF HasRes THEN 1 ELSE 0)

\* text handed back into a fixed-length caller variable (Fortran): truncated or blank padded to `len`
PadTo(v, n) == [i \in 1..n |-> IF i <= Len(v) THEN v[i] ELSE SPACE]
ToCaller(p, val, got) ==
  IF val.t = "s" /\ p.back = "pad" THEN [t |-> "s", v |-> PadTo(val.v, Len(got.v))]
  ELSE val

-----------------------------------------------------------------------------
Invoke(tg, vals) == /\ pc = "idle" /\ pc' = "invoked" /\ caller_in' = vals /\ target' = tg
                    /\ UNCHANGED <<sig, lib_in, lib_out, caller_out, entry>>
Enter(en, vals) ==  /\ pc = "invoked" /\ pc' = "entered" /\ lib_in' = vals /\ entry' = en
                    /\ UNCHANGED <<sig, caller_in, lib_out, caller_out, target>>
Exit(vals) ==       /\ pc = "entered" /\ pc' = "exited" /\ lib_out' = vals
                    /\ UNCHANGED <<sig, caller_in, lib_in, caller_out, target, entry>>
Return(vals) ==     /\ pc = "exited" /\ pc' = "returned" /\ caller_out' = vals
                    /\ UNCHANGED <<sig, caller_in, lib_in, lib_out, target, entry>>

\* the contract, clause by clause ("" = holds)
EnterWhy ==
  IF entry # target THEN "the call reached another library entry point"
  ELSE IF Len(caller_in) # NCallerIn THEN "driver logged an unexpected number of inputs"
  ELSE IF Len(lib_in) # NLibIn THEN "library received an unexpected number of inputs"
  ELSE IF sig.self /\ lib_in[1] # caller_in[1] THEN "method called on another object"
  ELSE IF \E k \in InParams : lib_in[LibPos(k)] # Expected(k)
       THEN "library did not receive the value the caller supplied"
  ELSE ""
BadIn == CHOOSE k \in InParams : lib_in[LibPos(k)] # Expected(k)

ReturnWhy ==
  IF Len(lib_out) # NLibOut THEN "library logged an unexpected number of outputs"
  ELSE IF Len(caller_out) # NCallerOut THEN "caller received an unexpected number of outputs"
  ELSE IF HasRes /\ caller_out[1] # ToCaller([back |-> sig.resback], lib_out[1], caller_out[1])
       THEN "caller did not receive the result the library produced"
  ELSE IF \E k \in OutParams : sig.params[k].api = "arg" /\ k <= sig.nsup /\
             caller_out[CallerOutPos(k)] # ToCaller(sig.params[k], lib_out[LibOutPos(k)], caller_out[CallerOutPos(k)])
       THEN "caller did not receive the output argument the library produced"
  ELSE ""
BadOut == CHOOSE k \in OutParams : sig.params[k].api = "arg" /\ k <= sig.nsup /\
             caller_out[CallerOutPos(k)] # ToCaller(sig.params[k], lib_out[LibOutPos(k)], caller_out[CallerOutPos(k)])

\* invariants of any accepted behaviour
Delivered == pc \in {"entered", "exited", "returned"} => EnterWhy = ""
HandedBack == pc = "returned" => ReturnWhy = ""
=============================================================================
