SPECIFICATION Spec
CHECK_DEADLOCK FALSE
CONSTANTS
  MaxNodes = 3
  Keys = {"a", "b"}
INVARIANT PushDownKeeps
INVARIANT BlockTransparent
INVARIANT SiblingUntouched
INVARIANT SetReaches
