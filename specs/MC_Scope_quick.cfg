SPECIFICATION Spec
CHECK_DEADLOCK FALSE
CONSTANTS
  MaxNodes = 3
INVARIANT PushDownKeeps
INVARIANT BlockTransparent
INVARIANT SiblingUntouched
INVARIANT SetReaches
