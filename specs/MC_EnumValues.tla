--------------------------- MODULE MC_EnumValues ---------------------------
(* Every enumeration of up to MaxMembers members whose values are absent or *)
(* expressions of depth <= Depth over Lits and references to earlier        *)
(* members.                                                                 *)
EXTENDS EnumValues

CONSTANTS MaxMembers, Lits, Depth

Atoms(n) == {Lit(l) : l \in Lits} \cup {Ref(i) : i \in 1..(n - 1)}
Unary(S) == {Un(o, a) : o \in {"neg", "pos"}, a \in S}
Binary(S, T) == {Bin(o, a, b) : o \in {"+", "-", "*", "/"}, a \in S, b \in T}
Paren(S) == {Un("paren", a) : a \in S}

\* depth 1: atoms, signed atoms, one binary operator over (signed) atoms
E1(n) == Atoms(n) \cup Unary(Atoms(n)) \cup Binary(Atoms(n), Atoms(n)) \cup Paren(Atoms(n))
\* depth 2: binary over depth-1 operands where a nested binary operand may be parenthesised or not
E2(n) == E1(n) \cup Binary(Atoms(n) \cup Paren(Binary(Atoms(n), Atoms(n))) \cup Unary(Atoms(n)),
                           Atoms(n) \cup Paren(Binary(Atoms(n), Atoms(n))))
              \cup Binary(Binary(Atoms(n), Atoms(n)), Atoms(n))
              \cup Unary(Paren(Binary(Atoms(n), Atoms(n))))
Exprs(n) == IF Depth = 1 THEN E1(n) ELSE E2(n)

MemberChoices(n) == {[has |-> FALSE, e |-> Lit(0)]} \cup {[has |-> TRUE, e |-> x] : x \in Exprs(n)}

RECURSIVE Enums(_)
Enums(n) == IF n = 0 THEN {<<>>}
            ELSE LET P == Enums(n - 1) IN
                 P \cup {Append(p, m) : p \in {q \in P : Len(q) = n - 1}, m \in MemberChoices(n)}

Init == \E ms \in Enums(MaxMembers) : ms # <<>> /\ DInit(ms)
Next == Derive
Spec == Init /\ [][Next]_dvars
=============================================================================
