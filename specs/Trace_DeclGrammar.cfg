SPECIFICATION TSpec
CHECK_DEADLOCK FALSE
INVARIANT BalancedPrefix
INVARIANT Complete
