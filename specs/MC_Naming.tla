------------------------------ MODULE MC_Naming ------------------------------
(* Every scope of up to MaxFuncs declared functions over two C++ names.     *)
EXTENDS Naming
CONSTANTS MaxFuncs

Names == {"alpha", "Beta"}
ParamLists == {<<>>, <<"int">>, <<"double">>, <<"int", "double">>, <<"int", "double", "long">>}
NoGen == <<>>
Plain == {[name |-> n, params |-> p, ndef |-> d, sfx |-> s, dsfx |-> ds, insts |-> <<>>, gens |-> NoGen] :
            n \in Names, p \in ParamLists, d \in 0..2, s \in {"", "_x", "_y"},
            ds \in {<<>>, <<"_a">>, <<"_a", "_b">>, <<"_a", "_b", "_c">>}}
Tmpl == {[name |-> n, params |-> <<"T">>, ndef |-> 0, sfx |-> "", dsfx |-> <<>>,
          insts |-> <<[ty |-> "int", sfx |-> ""], [ty |-> "double", sfx |-> ts]>>, gens |-> NoGen] :
            n \in Names, ts \in {"", "_dbl"}}
Gens == {[name |-> n, params |-> <<"double">>, ndef |-> 0, sfx |-> "", dsfx |-> <<>>, insts |-> <<>>,
          gens |-> <<[params |-> <<"float">>, sfx |-> gs], [params |-> <<"double">>, sfx |-> ""] >>] :
            n \in Names, gs \in {"", "_flt"}}
Choices == Plain \cup Tmpl \cup Gens

TotalSigs(fs) == LET cnt(f) == (f.ndef + 1) * (IF f.insts # <<>> THEN Len(f.insts) ELSE 1)
                 IN IF Len(fs) = 0 THEN 0
                    ELSE IF Len(fs) = 1 THEN cnt(fs[1])
                    ELSE IF Len(fs) = 2 THEN cnt(fs[1]) + cnt(fs[2])
                    ELSE cnt(fs[1]) + cnt(fs[2]) + cnt(fs[3])

\* the documented usage rules
Admitted(fs) ==
  /\ \A i \in 1..Len(fs) :
        /\ fs[i].ndef <= Len(fs[i].params)
        /\ (fs[i].ndef > 0 => fs[i].sfx = "")                     \* one function_suffix per function: use default_arg_suffix
        /\ (fs[i].dsfx # <<>> => (fs[i].ndef >= 1 /\ Len(fs[i].dsfx) <= fs[i].ndef + 1 /\ fs[i].sfx = ""))  \* at most one entry per form
  /\ \A i, j \in 1..Len(fs) : (i # j /\ fs[i].name = fs[j].name) =>
        /\ (fs[i].sfx # "" /\ fs[j].sfx # "") => fs[i].sfx # fs[j].sfx
        /\ (fs[i].dsfx = <<>> \/ fs[j].dsfx = <<>>)
        /\ fs[i].insts = <<>> /\ fs[j].insts = <<>> /\ fs[i].gens = <<>> /\ fs[j].gens = <<>>
        /\ (fs[i].sfx = "") = (fs[j].sfx = "")                    \* either every overload is named or none
        /\ (fs[i].dsfx # <<>> => fs[j].sfx # "" ) /\ (fs[j].dsfx # <<>> => fs[i].sfx # "")

\* choices that are admitted on their own (keeps the list construction below TLC's set-size limit)
Choices1 == {c \in Choices : Admitted(<<c>>)}
RECURSIVE Lists(_)
Lists(n) == IF n = 0 THEN {<<>>} ELSE LET P == Lists(n - 1) IN
            P \cup {Append(p, c) : p \in {q \in P : Len(q) = n - 1}, c \in Choices1}

Init == \E fs \in Lists(MaxFuncs) : fs # <<>> /\ Admitted(fs) /\ NInit(fs)
               /\ Cardinality(LET F == fs IN
                     UNION {IF F[o].insts # <<>>
                            THEN {<<F[o].name, Subst(SubSeq(F[o].params, 1, k), F[o].insts[t].ty)>> :
                                     k \in (Len(F[o].params) - F[o].ndef)..Len(F[o].params), t \in 1..Len(F[o].insts)}
                            ELSE {<<F[o].name, SubSeq(F[o].params, 1, k)>> :
                                     k \in (Len(F[o].params) - F[o].ndef)..Len(F[o].params)} : o \in 1..Len(F)})
                  = TotalSigs(fs)                                  \* callable signatures are pairwise distinct (C++ rule)
Spec == Init /\ [][NNext]_nvars
=============================================================================
