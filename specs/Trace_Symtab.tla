---------------------------- MODULE Trace_Symtab ----------------------------
(* Trace validation for name resolution: a generated description (scopes and  *)
(* type declarations in writing order, points of use) and the type each use   *)
(* resolved to in the real Shroud (fully qualified typemap name, or a         *)
(* diagnostic).                                                               *)
EXTENDS Symtab, Json, IOUtils, TLCExt
Traces == JsonDeserialize(IOEnv.TRACE_FILE)
VARIABLES tid, fin
T == Traces[tid]
TInit == tid \in 1..Len(Traces) /\ fin = FALSE
Uses == {i \in 1..Len(T.decls) : T.decls[i].kind = "use"}
Bad == {i \in Uses : LET want == Denotes(T.decls, i, T.decls[i].ref)  got == T.decls[i].got IN
          \/ want # got.name
          \/ ~Innermost(T.decls, i, T.decls[i].ref) \/ ~NoSibling(T.decls, i, T.decls[i].ref)}
Verdict ==
  IF \E i \in Uses : T.decls[i].got.outcome = "internal" THEN
     LET i == CHOOSE i \in Uses : T.decls[i].got.outcome = "internal" IN
     <<"REJECT", "internal Python exception while resolving a name", T.decls[i].ref.parts, T.decls[i].got.msg>>
  ELSE IF Bad # {} THEN
     LET i == CHOOSE i \in Bad : \A j \in Bad : i <= j IN
     <<"REJECT", "type name does not resolve as in C++", T.decls[i].ref, Denotes(T.decls, i, T.decls[i].ref), T.decls[i].got.name>>
  ELSE <<"ACCEPT", "ok">>
TVerdict == /\ ~fin /\ fin' = TRUE /\ PrintT(<<"VERDICT", tid>> \o Verdict) /\ UNCHANGED tid
TSpec == TInit /\ [][TVerdict]_<<tid, fin>>
=============================================================================
