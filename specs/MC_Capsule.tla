----------------------------- MODULE MC_Capsule -----------------------------
EXTENDS Capsule
Bound == \A o \in 1..MaxObj : released[o] <= 2
Spec == KInit /\ [][KNext]_kvars
=============================================================================
