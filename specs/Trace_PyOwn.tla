---------------------------- MODULE Trace_PyOwn ----------------------------
(* Trace validation for the Python part of C06: a sequence of statements run  *)
(* by a Python driver on the compiled extension (construct, factory results,  *)
(* aliases, method calls, del), with the constructor / destructor / pool /    *)
(* free events of the instrumented library observed during each statement.    *)
(* Each statement is replayed as the PyOwn action of the same name; the       *)
(* objects the library saw created and released must be the ones the action   *)
(* creates and releases, with the release code of the declaration.            *)
EXTENDS PyOwn, Json, IOUtils, TLCExt
Traces == JsonDeserialize(IOEnv.TRACE_FILE)
VARIABLES tid, fin, i, bad
T == Traces[tid]
TInit == tid \in 1..Len(Traces) /\ fin = FALSE /\ i = 1 /\ bad = <<>> /\ OInit

Act(e) == CASE e.op = "ctor" -> Ctor(e.v) [] e.op = "make" -> Make(e.v) [] e.op = "pooled" -> Pooled(e.v)
            [] e.op = "borrow" -> Borrow(e.v) [] e.op = "clone" -> Clone(e.v, e.w) [] e.op = "alias" -> Alias(e.v, e.w)
            [] e.op = "method" -> Method(e.v) [] e.op = "del" -> Del(e.v)
            [] e.op \in {"dupname", "newints"} -> Temp("free")
            [] OTHER -> FALSE /\ UNCHANGED ovars
Ids(e, kind) == {e.lib[k].id : k \in {j \in 1..Len(e.lib) : e.lib[j].ev = kind}}
Count(e, kind) == Len(SelectSeq(e.lib, LAMBDA x : x.ev = kind))
Why(e) ==
  LET destroyed == {o \in Objs : released'[o] > released[o]}
      created == {o \in Objs : (heap'[o].live /\ ~heap[o].live) \/ (o >= nextObj /\ o < nextObj')}
      seen_c == Ids(e, "ctor")
      seen_d == Ids(e, "dtor") \cup Ids(e, "free")
  IN IF e.exc # "" THEN <<"statement raised an exception", e.op, e.exc>>
     ELSE IF seen_d \ destroyed # {} THEN <<"object released that this statement must not release", e.op, CHOOSE o \in seen_d \ destroyed : TRUE>>
     ELSE IF destroyed \ seen_d # {} THEN <<"object not released (leak)", e.op, CHOOSE o \in destroyed \ seen_d : TRUE>>
     ELSE IF Count(e, "dtor") + Count(e, "free") # Cardinality(seen_d) THEN <<"object released twice by one statement", e.op>>
     ELSE IF seen_c # created THEN <<"unexpected object construction", e.op>>
     ELSE IF \E j \in 1..Len(e.lib) : e.lib[j].ev = "dtor" /\ e.lib[j].k # e.lib[j].ck THEN
          <<"object destroyed through the destructor of another type", e.op>>
     ELSE IF Ids(e, "pool") # {o \in destroyed : heap'[o].how = "pool"} THEN <<"memory released with the wrong release code", e.op>>
     ELSE IF Ids(e, "free") # {o \in destroyed : heap'[o].how = "free"} THEN <<"plain memory released with the wrong deallocator", e.op>>
     ELSE <<>>
TStep ==
  /\ ~fin /\ bad = <<>> /\ i <= Len(T.events)
  /\ LET e == T.events[i] IN
     IF ENABLED Act(e)
     THEN /\ Act(e) /\ bad' = Why(e) /\ i' = i + 1
     ELSE /\ bad' = <<"driver made a statement that is not possible here", e.op>> /\ UNCHANGED <<ovars, i>>
  /\ UNCHANGED <<tid, fin>>
EndWhy == IF T.crash # "" THEN <<"interpreter crashed or memory error", T.crash>>
          ELSE IF \E o \in Objs : released[o] > 1 THEN <<"object released more than once">>
          ELSE IF released[LibObj] > 0 THEN <<"library-owned object was freed">>
          ELSE <<>>
TVerdict == /\ ~fin /\ (bad # <<>> \/ i > Len(T.events)) /\ fin' = TRUE
            /\ PrintT(<<"VERDICT", tid>> \o
                 (IF bad # <<>> /\ bad[1] = "driver made a statement that is not possible here" THEN <<"BADTREE">> \o bad
                  ELSE IF bad # <<>> THEN <<"REJECT">> \o bad \o <<i - 1>>
                  ELSE IF EndWhy # <<>> THEN <<"REJECT">> \o EndWhy
                  ELSE <<"ACCEPT", "ok">>))
            /\ UNCHANGED <<ovars, tid, i, bad>>
TSpec == TInit /\ [][TStep \/ TVerdict]_<<ovars, tid, fin, i, bad>>
=============================================================================
