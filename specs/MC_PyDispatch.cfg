SPECIFICATION Spec
CHECK_DEADLOCK FALSE
INVARIANT SplitInvariant
INVARIANT AritySound
INVARIANT FirstMatchWins
