--------------------------- MODULE Trace_LuaDispatch ---------------------------
(* Trace validation for C18: one invocation of a generated Lua binding        *)
(* (compiled against the Lua C-API emulator) with a given stack; the events   *)
(* of the instrumented library; the values pushed and the count returned, or  *)
(* the Lua error.                                                             *)
EXTENDS CallBridge, Json, IOUtils, TLCExt
LD == INSTANCE LuaDispatch
Traces == JsonDeserialize(IOEnv.TRACE_FILE)
VARIABLES tid, fin, i, bad
T == Traces[tid]
Idx(t) == LD!Chosen(t.cands, t.stack)
NoSig == [params |-> <<>>, nsup |-> 0, self |-> FALSE, result |-> "none", resback |-> "id"]
SigOf(t) == IF Idx(t) = 0 THEN NoSig ELSE t.cands[Idx(t)].sig
TInit == /\ tid \in 1..Len(Traces) /\ fin = FALSE /\ i = 1 /\ bad = <<>> /\ CInit(SigOf(Traces[tid]))
C == T.cands[Idx(T)]
LibEvents == SelectSeq(T.events, LAMBDA e : e.ev \in {"LibEnter", "LibExit"})
EnterPending == pc \in {"entered", "exited", "returned"} /\ EnterWhy # ""
RetPending == pc = "returned" /\ ReturnWhy # ""
Judged == Idx(T) # 0 /\ ~LD!Lossy(C, T.stack)

TStep ==
  /\ ~fin /\ bad = <<>> /\ Judged /\ ~EnterPending /\ ~RetPending
  /\ \/ /\ pc = "idle" /\ Invoke(C.target, LD!CallerIn(C, T.stack)) /\ UNCHANGED <<i, bad>>
     \/ /\ pc = "invoked"
        /\ IF i <= Len(LibEvents) /\ LibEvents[i].ev = "LibEnter"
           THEN Enter(LibEvents[i].target, LibEvents[i].vals) /\ i' = i + 1 /\ UNCHANGED bad
           ELSE bad' = <<"the call did not reach the library", T.err>> /\ UNCHANGED <<cvars, i>>
     \/ /\ pc = "entered"
        /\ IF i <= Len(LibEvents) /\ LibEvents[i].ev = "LibExit"
           THEN Exit(LibEvents[i].vals) /\ i' = i + 1 /\ UNCHANGED bad
           ELSE bad' = <<"library call did not return">> /\ UNCHANGED <<cvars, i>>
     \/ /\ pc = "exited"
        /\ IF T.err # "" THEN bad' = <<"Lua error raised after the library had been called", T.err>> /\ UNCHANGED <<cvars, i>>
           ELSE IF T.nret # Len(T.pushed) THEN bad' = <<"reported result count differs from the values pushed", T.nret, Len(T.pushed)>> /\ UNCHANGED <<cvars, i>>
           ELSE Return(T.pushed) /\ UNCHANGED <<i, bad>>
  /\ UNCHANGED <<tid, fin>>
TJudge ==
  /\ ~fin /\ bad = <<>> /\ Judged
  /\ \/ (EnterPending /\ bad' = <<EnterWhy>> \o (IF EnterWhy = "library did not receive the value the caller supplied"
                                                 THEN <<BadIn, lib_in[LibPos(BadIn)], Expected(BadIn)>> ELSE <<entry, target>>))
     \/ (~EnterPending /\ RetPending /\ bad' = <<ReturnWhy>>)
  /\ UNCHANGED <<cvars, tid, fin, i>>
ErrVerdict ==
  IF LibEvents # <<>> THEN <<"REJECT", "a stack that matches no signature reached the library", LibEvents[1].target>>
  ELSE IF T.err = "crash" THEN <<"REJECT", "a stack that matches no signature makes the binding crash (C++ exception)">>
  ELSE IF T.err = "" THEN <<"REJECT", "a stack that matches no signature raised no Lua error">>
  ELSE <<"ACCEPT", "rejected with a Lua error">>
TVerdict ==
  /\ ~fin
  /\ IF ~Judged THEN TRUE ELSE (IF bad # <<>> THEN TRUE ELSE (pc = "returned" /\ ~EnterPending /\ ~RetPending))
  /\ fin' = TRUE
  /\ PrintT(<<"VERDICT", tid>> \o
       (IF Idx(T) = 0 THEN ErrVerdict
        ELSE IF LD!Lossy(C, T.stack) THEN <<"EXCLUDED", "non-integral number for an integer parameter">>
        ELSE IF bad # <<>> THEN <<"REJECT">> \o bad
        ELSE IF i <= Len(LibEvents) THEN <<"REJECT", "library was called more than once">>
        ELSE <<"ACCEPT", "ok">>))
  /\ UNCHANGED <<cvars, tid, i, bad>>
TSpec == TInit /\ [][TStep \/ TJudge \/ TVerdict]_<<cvars, tid, fin, i, bad>>
=============================================================================
