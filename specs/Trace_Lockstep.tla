--------------------------- MODULE Trace_Lockstep ---------------------------
EXTENDS Lockstep, Json, IOUtils, TLCExt
Traces == JsonDeserialize(IOEnv.TRACE_FILE)
VARIABLES tid, fin
TInit == /\ tid \in 1..Len(Traces) /\ fin = FALSE /\ LInit(Traces[tid].a, Traces[tid].b)
TStep == ~fin /\ verdict = <<>> /\ LNext /\ UNCHANGED <<tid, fin>>
TVerdict == /\ ~fin /\ verdict # <<>> /\ fin' = TRUE /\ PrintT(<<"VERDICT", tid>> \o verdict) /\ UNCHANGED <<lvars, tid>>
TSpec == TInit /\ [][TStep \/ TVerdict]_<<lvars, tid, fin>>
=============================================================================
