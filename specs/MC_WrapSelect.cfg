SPECIFICATION Spec
CHECK_DEADLOCK FALSE
INVARIANT OffMeansNoFiles
INVARIANT InItsDirectory
INVARIANT ListsExact
