--------------------------- MODULE Trace_EmitOrder ---------------------------
(* Trace validation for C05.                                                 *)
(*  kind "gather": one call of the real gather_helper_code on a dependency   *)
(*     table; the order it produced per scope must be the order of the spec. *)
(*  kind "build": the files of one generated library in build order (Fortran *)
(*     modules as listed by Shroud, headers, objects with their symbol       *)
(*     tables read by nm), ending with the link.                             *)
EXTENDS EmitOrder, Json, IOUtils, TLCExt
Traces == JsonDeserialize(IOEnv.TRACE_FILE)
VARIABLES tid, fin, i
T == Traces[tid]
TInit == tid \in 1..Len(Traces) /\ fin = FALSE /\ i = 1 /\ EInit

SeqToSet(s) == {s[k] : k \in 1..Len(s)}
Step == /\ ~fin /\ T.kind = "build" /\ i <= Len(T.events)
        /\ LET e == T.events[i] IN
           CASE e.ev = "Module" -> CompileModule([file |-> e.file, names |-> SeqToSet(e.names), uses |-> SeqToSet(e.uses), provided |-> SeqToSet(T.provided)])
             [] e.ev = "Object" -> LinkObject([file |-> e.file, defs |-> SeqToSet(e.defs), undefs |-> SeqToSet(e.undefs), weak |-> SeqToSet(e.weak)])
             [] e.ev = "Header" -> Header(e)
             [] e.ev = "Link" -> FinishLink
        /\ i' = i + 1 /\ UNCHANGED <<tid, fin>>

Deps == [n \in 1..Len(T.deps) |-> T.deps[n]]
Scope == [n \in 1..Len(T.scope) |-> T.scope[n]]
GatherWhy ==
  LET g == Gather(SeqToSet(T.req), Deps) IN
  IF \E sc \in {"file", "cwrap_include", "cwrap_impl"} : Filter(g, Scope, sc) # T.out[sc]
  THEN <<"helper order differs from depth-first dependency order", g>>
  ELSE <<>>
\* kind "requests": one resolved statement-table entry: the helpers whose functions its code templates call, the
\* helpers it requests (c_helper / f_helper) and the dependency table of the helpers
RequestsWhy ==
  LET got == Reach(SeqToSet(T.requests), T.deps)
      missing == SeqToSet(T.uses) \ got IN
  IF missing # {} THEN <<"code of the statement calls a helper it does not request", T.name, missing>>
  ELSE IF T.nfunc > T.nfhelpers THEN <<"statement refers to more helper names than it requests", T.name, T.nfunc, T.nfhelpers>>
  ELSE <<>>
Verdict ==
  /\ ~fin /\ fin' = TRUE
  /\ IF T.kind = "requests"
     THEN PrintT(<<"VERDICT", tid>> \o (IF RequestsWhy # <<>> THEN <<"REJECT">> \o RequestsWhy ELSE <<"ACCEPT", "ok">>))
     ELSE IF T.kind = "gather"
     THEN PrintT(<<"VERDICT", tid>> \o (IF GatherWhy # <<>> THEN <<"REJECT">> \o GatherWhy ELSE <<"ACCEPT", "ok">>))
     ELSE /\ i > Len(T.events)
          /\ PrintT(<<"VERDICT", tid>> \o (IF faults # <<>> THEN <<"REJECT">> \o faults[1] ELSE <<"ACCEPT", "ok">>))
  /\ UNCHANGED <<evars, tid, i>>
TSpec == TInit /\ [][Step \/ Verdict]_<<evars, tid, fin, i>>
=============================================================================
