----------------------------- MODULE DeclGrammar -----------------------------
(* The declaration grammar Shroud documents, as an attribute grammar         *)
(* (properties C09 and C17).                                                 *)
(*                                                                            *)
(* A derivation D fixes every grammatical choice of one declaration:          *)
(*   st    storage class ("" or "static")                                    *)
(*   cq    [c, v, post]  const / volatile on the base type, written before   *)
(*         or after the type specifier                                       *)
(*   base  key of a base type (BaseTok gives its tokens, BaseSpec what the   *)
(*         parser must record, BaseTmpl its template argument)               *)
(*   lv    pointer / reference levels  [p, c, v]                             *)
(*   kind  "var" | "abs" (abstract: no name) | "func" | "fptr"              *)
(*   nm    declared name                                                     *)
(*   ps    parameters (derivations again; "void" alone means none)           *)
(*   fc    trailing const of a method                                        *)
(*   dims  array extents                                                     *)
(*   at    attributes  [n, k, v], k in {"bare","paren","eq"}                 *)
(*   ini   [has, v]  default value (one token)                               *)
(* Tokens(D) is the sentence, Proj(D) the meaning a C++ compiler gives it in *)
(* the shape of Shroud's AST, CxxTok/CTok the documented renderings.  The     *)
(* phase machine emits the sentence left to right (one action per grammar     *)
(* production) so that every prefix is checked for well-formedness.           *)
EXTENDS Naturals, Sequences, FiniteSets, TLC

BaseTok(b) ==
  CASE b = "int" -> <<"int">>              [] b = "long" -> <<"long">>
    [] b = "uint" -> <<"unsigned", "int">>  [] b = "ulong" -> <<"unsigned", "long">>
    [] b = "llong" -> <<"long", "long">>    [] b = "longint" -> <<"long", "int">>
    [] b = "unsigned" -> <<"unsigned">>
    [] b = "short" -> <<"short">>           [] b = "shortint" -> <<"short", "int">>
    [] b = "ushort" -> <<"unsigned", "short">>  [] b = "ushortint" -> <<"unsigned", "short", "int">>
    [] b = "ulongint" -> <<"unsigned", "long", "int">>  [] b = "llongint" -> <<"long", "long", "int">>
    [] b = "ullong" -> <<"unsigned", "long", "long">>  [] b = "ullongint" -> <<"unsigned", "long", "long", "int">>
    [] b = "double" -> <<"double">>         [] b = "float" -> <<"float">>
    [] b = "char" -> <<"char">>             [] b = "bool" -> <<"bool">>
    [] b = "void" -> <<"void">>             [] b = "size_t" -> <<"size_t">>
    [] b = "string" -> <<"std", "::", "string">>
    [] b = "vecint" -> <<"std", "::", "vector", "<", "int", ">">>
    [] b = "vecdouble" -> <<"std", "::", "vector", "<", "double", ">">>
    [] b = "vecuint" -> <<"std", "::", "vector", "<", "unsigned", "int", ">">>
    [] b = "vecllong" -> <<"std", "::", "vector", "<", "long", "long", ">">>
    [] b = "cls" -> <<"Cls">>
    [] b = "nscls" -> <<"ns", "::", "Inner">>
\* what the parser records as the specifier list
BaseSpec(b) ==
  CASE b \in {"string"} -> <<"std::string">>
    [] b \in {"vecint", "vecdouble", "vecuint", "vecllong"} -> <<"std::vector">>
    [] b = "nscls" -> <<"ns::Inner">>
    [] OTHER -> BaseTok(b)
BaseTmpl(b) == CASE b = "vecint" -> <<"int">> [] b = "vecdouble" -> <<"double">>
                 [] b = "vecuint" -> <<"unsigned int">> [] b = "vecllong" -> <<"long long">> [] OTHER -> <<>>

\* canonical C++ spelling of the base type (docs/typemaps: cxx_type)
BaseCxx(b) ==
  CASE b = "longint" -> <<"long">>
    [] b = "unsigned" -> <<"unsigned", "int">>
    [] b = "shortint" -> <<"short">>
    [] b = "ushortint" -> <<"unsigned", "short">>
    [] b = "ulongint" -> <<"unsigned", "long">>
    [] b = "llongint" -> <<"long", "long">>
    [] b = "ullongint" -> <<"unsigned", "long", "long">>
    [] OTHER -> BaseTok(b)
\* the type a specifier sequence denotes ([dcl.type.simple]: an optional trailing "int" and a lone "unsigned" do not
\* make another type): the name of the type Shroud must resolve the declaration to
RECURSIVE JoinWith(_, _)
JoinWith(ws, sep) == IF ws = <<>> THEN "" ELSE IF Len(ws) = 1 THEN ws[1] ELSE ws[1] \o sep \o JoinWith(Tail(ws), sep)
BaseType(b) ==
  CASE b = "string" -> "std::string" [] b \in {"vecint", "vecdouble", "vecuint", "vecllong"} -> "std::vector"
    [] b = "cls" -> "Cls" [] b = "nscls" -> "ns::Inner"
    [] OTHER -> JoinWith(BaseCxx(b), "_")

CvTok(c, v) == (IF c THEN <<"const">> ELSE <<>>) \o (IF v THEN <<"volatile">> ELSE <<>>)

LevelTok(l) == <<l.p>> \o CvTok(l.c, l.v)
RECURSIVE LevelsTok(_)
LevelsTok(ls) == IF ls = <<>> THEN <<>> ELSE LevelTok(Head(ls)) \o LevelsTok(Tail(ls))

NatTok(n) == ToString(n)
RECURSIVE DimsTok(_)
DimsTok(ds) == IF ds = <<>> THEN <<>> ELSE <<"[", NatTok(Head(ds)), "]">> \o DimsTok(Tail(ds))

AttrTok(a) == CASE a.k = "bare" -> <<"+", a.n>>
                [] a.k = "paren" -> <<"+", a.n, "(", a.v, ")">>
                [] a.k = "eq" -> <<"+", a.n, "=", a.v>>
RECURSIVE AttrsTok(_)
AttrsTok(as) == IF as = <<>> THEN <<>> ELSE AttrTok(Head(as)) \o AttrsTok(Tail(as))

SpecTok(D) == (IF D.st # "" THEN <<D.st>> ELSE <<>>)
              \o (IF D.cq.post THEN <<>> ELSE CvTok(D.cq.c, D.cq.v))
              \o BaseTok(D.base)
              \o (IF D.cq.post THEN CvTok(D.cq.c, D.cq.v) ELSE <<>>)

DeclaratorTok(D) ==
  CASE D.kind \in {"var", "func"} -> LevelsTok(D.lv) \o <<D.nm>>
    [] D.kind = "abs" -> LevelsTok(D.lv)
    [] D.kind = "fptr" -> LevelsTok(D.lv) \o <<"(", "*", D.nm, ")">>

RECURSIVE Tokens(_), ParamsTok(_)
ParamsTok(ps) == IF ps = <<>> THEN <<>>
                 ELSE Tokens(Head(ps)) \o (IF Len(ps) > 1 THEN <<",">> ELSE <<>>) \o ParamsTok(Tail(ps))
HasParams(D) == D.kind \in {"func", "fptr"}
Tokens(D) ==
  SpecTok(D) \o DeclaratorTok(D)
  \o (IF HasParams(D) THEN <<"(">> \o ParamsTok(D.ps) \o <<")">> ELSE <<>>)
  \o (IF D.fc THEN <<"const">> ELSE <<>>)
  \o DimsTok(D.dims) \o AttrsTok(D.at)
  \o (IF D.ini.has THEN <<"=", D.ini.v>> ELSE <<>>)

-----------------------------------------------------------------------------
(* meaning, in the shape of Shroud's AST *)
IsVoidOnly(ps) == Len(ps) = 1 /\ ps[1].kind = "abs" /\ ps[1].lv = <<>> /\ ps[1].base = "void"
                  /\ ~ps[1].cq.c /\ ~ps[1].cq.v

AttrVal(a) == IF a.k = "bare" THEN "True" ELSE a.v
\* attributes as a set of [n, v] (later duplicates win in the parser; generators do not repeat names)
AttrSet(as) == {[n |-> as[i].n, v |-> AttrVal(as[i])] : i \in 1..Len(as)}

RECURSIVE Proj(_)
Proj(D) ==
  [ const |-> D.cq.c, volatile |-> D.cq.v,
    storage |-> IF D.st # "" THEN <<D.st>> ELSE <<>>,
    spec |-> BaseSpec(D.base), tmpl |-> BaseTmpl(D.base), type |-> BaseType(D.base),
    hasdecl |-> ~(D.kind = "abs" /\ D.lv = <<>>),
    ptrs |-> D.lv,
    name |-> IF D.kind \in {"var", "func"} THEN D.nm ELSE "",
    func |-> IF D.kind = "fptr" THEN [has |-> TRUE, ptrs |-> <<[p |-> "*", c |-> FALSE, v |-> FALSE]>>, name |-> D.nm]
             ELSE [has |-> FALSE, ptrs |-> <<>>, name |-> ""],
    hasparams |-> HasParams(D),
    params |-> IF HasParams(D) /\ ~IsVoidOnly(D.ps) THEN [i \in 1..Len(D.ps) |-> Proj(D.ps[i])] ELSE <<>>,
    fconst |-> D.fc,
    array |-> [i \in 1..Len(D.dims) |-> NatTok(D.dims[i])],
    attrs |-> AttrSet(D.at),
    init |-> D.ini ]

-----------------------------------------------------------------------------
(* documented renderings, as token sequences *)
\* C++: const first, then volatile, specifier, template arguments, levels, name, parameters
RECURSIVE CxxTok(_, _), CxxParams(_)
CxxParams(ps) == IF ps = <<>> THEN <<>>
                 ELSE CxxTok(Head(ps), TRUE) \o (IF Len(ps) > 1 THEN <<",">> ELSE <<>>) \o CxxParams(Tail(ps))
CxxTok(D, named) ==
  CvTok(D.cq.c, D.cq.v) \o BaseCxx(D.base)
  \o LevelsTok(D.lv)
  \o (CASE D.kind = "fptr" -> <<"(", "*", D.nm, ")">>
        [] D.kind \in {"var", "func"} /\ named -> <<D.nm>>
        [] OTHER -> <<>>)
  \o (IF HasParams(D) THEN <<"(">> \o (IF D.ps = <<>> \/ IsVoidOnly(D.ps) THEN <<"void">> ELSE CxxParams(D.ps)) \o <<")">>
      ELSE <<>>)
  \o (IF D.fc THEN <<"const">> ELSE <<>>)
  \o DimsTok(D.dims)

\* C (docs/cwrapper: the C counterpart of a declaration over native types): the same declaration with every
\* reference written as a pointer; cv-qualifiers stay where they are, at every level
NativeBases == {"int", "long", "uint", "ulong", "llong", "longint", "unsigned", "short", "shortint", "ushort", "ushortint",
                "ulongint", "llongint", "ullong", "ullongint", "double", "float", "char", "bool",
                "void", "size_t"}
RECURSIVE AllNative(_)
AllNative(D) == D.base \in NativeBases /\ \A i \in 1..Len(D.ps) : AllNative(D.ps[i])
CLevelTok(l) == <<"*">> \o CvTok(l.c, l.v)
RECURSIVE CLevelsTok(_)
CLevelsTok(ls) == IF ls = <<>> THEN <<>> ELSE CLevelTok(Head(ls)) \o CLevelsTok(Tail(ls))
RECURSIVE CTok(_, _), CParams(_)
CParams(ps) == IF ps = <<>> THEN <<>>
               ELSE CTok(Head(ps), TRUE) \o (IF Len(ps) > 1 THEN <<",">> ELSE <<>>) \o CParams(Tail(ps))
CTok(D, named) ==
  CvTok(D.cq.c, D.cq.v) \o BaseCxx(D.base)
  \o CLevelsTok(D.lv)
  \o (CASE D.kind = "fptr" -> <<"(", "*", D.nm, ")">>
        [] D.kind \in {"var", "func"} /\ named -> <<D.nm>>
        [] OTHER -> <<>>)
  \o (IF HasParams(D) THEN <<"(">> \o (IF D.ps = <<>> \/ IsVoidOnly(D.ps) THEN <<"void">> ELSE CParams(D.ps)) \o <<")">>
      ELSE <<>>)
  \o (IF D.fc THEN <<"const">> ELSE <<>>)
  \o DimsTok(D.dims)

-----------------------------------------------------------------------------
(* phase machine: the sentence is emitted production by production *)
VARIABLES D, phase, toks, depth

gvars == <<D, phase, toks, depth>>
Phases == <<"spec", "declarator", "params", "fconst", "array", "attrs", "init", "done">>

GInit(d) == D = d /\ phase = "spec" /\ toks = <<>> /\ depth = 0

Emit(ts, nxt) == toks' = toks \o ts /\ phase' = nxt /\ UNCHANGED <<D, depth>>

PSpec       == phase = "spec" /\ Emit(SpecTok(D), "declarator")
PDeclarator == phase = "declarator" /\ Emit(DeclaratorTok(D), "params")
PParams     == phase = "params" /\ Emit(IF HasParams(D) THEN <<"(">> \o ParamsTok(D.ps) \o <<")">> ELSE <<>>, "fconst")
PFconst     == phase = "fconst" /\ Emit(IF D.fc THEN <<"const">> ELSE <<>>, "array")
PArray      == phase = "array" /\ Emit(DimsTok(D.dims), "attrs")
PAttrs      == phase = "attrs" /\ Emit(AttrsTok(D.at), "init")
PInit       == phase = "init" /\ Emit(IF D.ini.has THEN <<"=", D.ini.v>> ELSE <<>>, "done")
GNext == PSpec \/ PDeclarator \/ PParams \/ PFconst \/ PArray \/ PAttrs \/ PInit

Count(ts, x) == Cardinality({i \in 1..Len(ts) : ts[i] = x})
BalancedPrefix == \A n \in 1..Len(toks) :
                    /\ Count(SubSeq(toks, 1, n), ")") <= Count(SubSeq(toks, 1, n), "(")
                    /\ Count(SubSeq(toks, 1, n), "]") <= Count(SubSeq(toks, 1, n), "[")
Complete == phase = "done" =>
              /\ toks = Tokens(D)
              /\ Count(toks, "(") = Count(toks, ")") /\ Count(toks, "[") = Count(toks, "]")
              /\ Count(toks, "<") = Count(toks, ">")
=============================================================================
