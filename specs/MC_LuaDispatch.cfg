SPECIFICATION Spec
CHECK_DEADLOCK FALSE
INVARIANT FirstMatch
INVARIANT MethodNeedsObject
