------------------------------- MODULE StrXfer -------------------------------
(* Character data across the language boundary (property C10).               *)
(*                                                                           *)
(* The C helpers that move text between Fortran's blank-padded, unterminated *)
(* CHARACTER values and C's NUL-terminated strings, as byte-level machines   *)
(* (one action per memory access), together with the documented rules they   *)
(* implement:                                                                *)
(*   LenTrim      length without trailing blanks                             *)
(*   StrAlloc     new NUL-terminated copy of the trimmed Fortran text        *)
(*   StrCopy      C string into a fixed-length Fortran variable: truncated   *)
(*                or blank padded, never NUL inside; NULL -> all blanks       *)
(*   BlankFill    a C string written in place becomes blank padded           *)
(*   ArrayAlloc   CHARACTER(len) array -> array of trimmed C strings         *)
(* Memory: src and dst are sequences of bytes (0 = NUL, 32 = blank);          *)
(* `reads` / `writes` record every index touched (1-based).                  *)
EXTENDS Integers, Sequences, FiniteSets, TLC

NUL == 0
SP == 32

VARIABLES helper, src, nsrc, ndst, ntrim,     \* call arguments (src = <<>> with nsrc = -2 encodes NULL)
          dst, ret, i, pc, reads, writes

xvars == <<helper, src, nsrc, ndst, ntrim, dst, ret, i, pc, reads, writes>>

\* ---- the documented rules, as plain functions
RTrimLen(s, n) == LET idx == {k \in 1..n : s[k] # SP} IN IF idx = {} THEN 0 ELSE CHOOSE m \in idx : \A j \in idx : j <= m
CLen(s) == LET z == {k \in 1..Len(s) : s[k] = NUL} IN IF z = {} THEN Len(s) ELSE (CHOOSE m \in z : \A j \in z : m <= j) - 1
TruncPad(s, n) == [k \in 1..n |-> IF k <= Len(s) THEN s[k] ELSE SP]

XInit(h, s, ns, nd, nt, d0) ==
  /\ helper = h /\ src = s /\ nsrc = ns /\ ndst = nd /\ ntrim = nt /\ dst = d0
  /\ ret = -99 /\ i = 0 /\ pc = "start" /\ reads = {} /\ writes = {}

Keep == UNCHANGED <<helper, src, nsrc, ndst, ntrim>>

\* ---- ShroudLenTrim(src, nsrc): for (i = nsrc-1; i >= 0; i--) if (src[i] != ' ') break; return i+1
LTStart == /\ helper = "LenTrim" /\ pc = "start" /\ i' = nsrc - 1 /\ pc' = "loop" /\ Keep /\ UNCHANGED <<dst, ret, reads, writes>>
LTLoop == /\ helper = "LenTrim" /\ pc = "loop"
          /\ IF i >= 0
             THEN /\ reads' = reads \cup {i + 1}
                  /\ IF src[i + 1] # SP THEN pc' = "done" /\ ret' = i + 1 /\ UNCHANGED i
                     ELSE i' = i - 1 /\ UNCHANGED <<pc, ret>>
             ELSE pc' = "done" /\ ret' = i + 1 /\ UNCHANGED <<i, reads>>
          /\ Keep /\ UNCHANGED <<dst, writes>>

\* ---- ShroudStrAlloc(src, nsrc, ntrim): malloc(nsrc+1); ntrim==-1 -> LenTrim; memcpy ntrim; rv[ntrim] = 0
SAStart == /\ helper = "StrAlloc" /\ pc = "start"
           /\ dst' = [k \in 1..(nsrc + 1) |-> 255]              \* fresh, uninitialised allocation of nsrc+1 bytes
           /\ ret' = IF ntrim = -1 THEN RTrimLen(src, nsrc) ELSE ntrim
           \* LenTrim scans from the end down to and including the last non-blank byte
           /\ reads' = IF ntrim = -1 THEN (IF RTrimLen(src, nsrc) = 0 THEN 1..nsrc ELSE RTrimLen(src, nsrc)..nsrc) ELSE {}
           /\ i' = 0 /\ pc' = "copy" /\ Keep /\ UNCHANGED writes
SACopy == /\ helper = "StrAlloc" /\ pc = "copy"
          /\ IF i < ret
             THEN /\ reads' = reads \cup {i + 1} /\ writes' = writes \cup {i + 1}
                  /\ dst' = [dst EXCEPT ![i + 1] = src[i + 1]] /\ i' = i + 1 /\ UNCHANGED pc
             ELSE /\ writes' = writes \cup {ret + 1} /\ dst' = [dst EXCEPT ![ret + 1] = NUL] /\ pc' = "done" /\ UNCHANGED <<i, reads>>
          /\ Keep /\ UNCHANGED ret

\* ---- ShroudStrCopy(dest, ndest, src, nsrc)
SCStart == /\ helper = "StrCopy" /\ pc = "start"
           /\ IF nsrc = -2 THEN ret' = 0 /\ pc' = "fill"                 \* src == NULL: blank fill everything
              ELSE /\ ret' = LET n == IF nsrc < 0 THEN CLen(src) ELSE nsrc IN IF n < ndst THEN n ELSE ndst
                   /\ pc' = "copy"
           /\ reads' = IF nsrc = -1 THEN 1..(CLen(src) + 1) ELSE {}       \* strlen reads up to and including the NUL
           /\ i' = 0 /\ Keep /\ UNCHANGED <<dst, writes>>
SCCopy == /\ helper = "StrCopy" /\ pc = "copy"
          /\ IF i < ret
             THEN /\ reads' = reads \cup {i + 1} /\ writes' = writes \cup {i + 1}
                  /\ dst' = [dst EXCEPT ![i + 1] = src[i + 1]] /\ i' = i + 1 /\ UNCHANGED pc
             ELSE pc' = "fill" /\ UNCHANGED <<i, dst, reads, writes>>
          /\ Keep /\ UNCHANGED ret
SCFill == /\ helper \in {"StrCopy", "BlankFill"} /\ pc = "fill"
          /\ IF i < ndst
             THEN /\ writes' = writes \cup {i + 1} /\ dst' = [dst EXCEPT ![i + 1] = SP] /\ i' = i + 1 /\ UNCHANGED pc
             ELSE pc' = "done" /\ UNCHANGED <<i, dst, writes>>
          /\ Keep /\ UNCHANGED <<ret, reads>>

\* ---- ShroudStrBlankFill(dest, ndest): nm = strlen(dest); if (ndest > nm) memset(dest+nm, ' ', ndest-nm)
BFStart == /\ helper = "BlankFill" /\ pc = "start"
           /\ ret' = CLen(dst) /\ reads' = 1..(CLen(dst) + 1)
           /\ i' = CLen(dst) /\ pc' = "fill" /\ Keep /\ UNCHANGED <<dst, writes>>

XNext == LTStart \/ LTLoop \/ SAStart \/ SACopy \/ SCStart \/ SCCopy \/ SCFill \/ BFStart

\* ---- the properties
Done == pc = "done"
NoOOB == /\ reads \subseteq 1..(IF helper = "BlankFill" THEN Len(dst) ELSE Len(src))
         /\ writes \subseteq 1..Len(dst)
         /\ (helper = "LenTrim" => reads \subseteq 1..nsrc)
         /\ (helper = "StrAlloc" => reads \subseteq 1..nsrc)
         /\ (helper = "StrCopy" /\ nsrc >= 0 => reads \subseteq 1..nsrc)
         /\ (helper \in {"StrCopy", "BlankFill"} => writes \subseteq 1..ndst)
LenTrimRule == (Done /\ helper = "LenTrim") => ret = RTrimLen(src, nsrc)
AllocRule == (Done /\ helper = "StrAlloc" /\ ntrim = -1) =>
    /\ Len(dst) = nsrc + 1
    /\ SubSeq(dst, 1, RTrimLen(src, nsrc)) = SubSeq(src, 1, RTrimLen(src, nsrc))
    /\ dst[RTrimLen(src, nsrc) + 1] = NUL
CopyRule == (Done /\ helper = "StrCopy") =>
    LET text == IF nsrc = -2 THEN <<>> ELSE IF nsrc < 0 THEN SubSeq(src, 1, CLen(src)) ELSE SubSeq(src, 1, nsrc) IN
    /\ SubSeq(dst, 1, ndst) = TruncPad(text, ndst)
    /\ (\A k \in 1..Len(text) : text[k] # NUL) => \A k \in 1..ndst : dst[k] # NUL
\* for BlankFill, src holds the destination as the library left it (a C string)
FillRule == (Done /\ helper = "BlankFill") =>
    dst = [k \in 1..Len(dst) |-> IF k <= CLen(src) THEN src[k] ELSE IF k <= ndst THEN SP ELSE src[k]]

\* what a helper must leave behind, for trace validation: (final dst, ret)
ExpectedDst ==
  CASE helper = "StrAlloc" -> [k \in 1..(nsrc + 1) |-> IF k <= ret THEN src[k] ELSE IF k = ret + 1 THEN NUL ELSE 255]
    [] helper = "StrCopy" -> LET text == IF nsrc = -2 THEN <<>> ELSE IF nsrc < 0 THEN SubSeq(src, 1, CLen(src)) ELSE SubSeq(src, 1, nsrc)
                             IN [k \in 1..Len(dst) |-> IF k <= ndst THEN TruncPad(text, ndst)[k] ELSE dst[k]]
    [] helper = "BlankFill" -> [k \in 1..Len(dst) |-> IF k <= CLen(src) THEN src[k] ELSE IF k <= ndst THEN SP ELSE src[k]]
    [] OTHER -> dst
=============================================================================
