SPECIFICATION Spec
CHECK_DEADLOCK FALSE
CONSTANTS
  Mirror = TRUE
  Mode = "payload"
  Alphabet = {9, 12, 13, 32, 120}
  MaxLen = 5
  LineLens = {1, 2, 3, 5}
  Indents = {0, 1}
  SpWs = {1}
  Conts <- ContsBoth
  DAlphabet = {120}
  DLen = 1
  MaxItems = 1
INVARIANT TextPreserved
INVARIANT ContOnEveryBrokenLine
INVARIANT NoDirectiveLeak
INVARIANT WithinLength
INVARIANT BreaksOnlyAtHints
INVARIANT Refines
