SPECIFICATION Spec
CHECK_DEADLOCK FALSE
CONSTANTS
  MaxNodes = 4
INVARIANT PushDownKeeps
INVARIANT BlockTransparent
INVARIANT SiblingUntouched
INVARIANT SetReaches
