SPECIFICATION Spec
CHECK_DEADLOCK FALSE
CONSTANTS
  MaxNodes = 4
  Keys = {"a"}
INVARIANT PushDownKeeps
INVARIANT BlockTransparent
INVARIANT SiblingUntouched
INVARIANT SetReaches
