--------------------------- MODULE Trace_StmtTree ---------------------------
(* Trace validation for the statement tables: a table (small and generated,   *)
(* or the real fc_statements of the tree under test), a set of lookup paths,  *)
(* and what the real update_stmt_tree / lookup_stmts_tree did with them.      *)
EXTENDS StmtTree, Json, IOUtils, TLCExt
Traces == JsonDeserialize(IOEnv.TRACE_FILE)
VARIABLES tid, fin
T == Traces[tid]
TInit == tid \in 1..Len(Traces) /\ fin = FALSE

B == Build(T.stmts, T.defaults)
Vals(sc) == [k \in 1..Len(T.fields) |-> sc[T.fields[k]]]
BadPaths == {k \in 1..Len(T.paths) :
               \/ LookupName(B, T.paths[k]) # T.observed.names[k]
               \/ Vals(Lookup(B, T.paths[k], T.defaults)) # T.observed.vals[k]}
Verdict ==
  IF B.err # "" /\ T.observed.err = "" THEN <<"REJECT", "table accepted although", B.err>>
  ELSE IF B.err = "" /\ T.observed.err # "" THEN <<"REJECT", "well-formed table refused", T.observed.err>>
  ELSE IF B.err # "" THEN <<"ACCEPT", "refused", B.err>>
  ELSE IF BadPaths # {} THEN
       LET k == CHOOSE k \in BadPaths : \A j \in BadPaths : k <= j IN
       <<"REJECT", "lookup differs from the most specific entry on the path", T.paths[k],
         LookupName(B, T.paths[k]), T.observed.names[k]>>
  ELSE <<"ACCEPT", "ok">>
TVerdict == /\ ~fin /\ fin' = TRUE /\ PrintT(<<"VERDICT", tid>> \o Verdict) /\ UNCHANGED tid
TSpec == TInit /\ [][TVerdict]_<<tid, fin>>
=============================================================================
