#!/bin/sh
# Offline setup: nothing to build; verify the tools the checks rely on.
set -e
cd /verif
command -v tlc >/dev/null
command -v java >/dev/null
/venv/bin/python -c "import yaml"
/venv/bin/python -c "import sys; sys.path.insert(0,'/repo'); import shroud"
for f in specs/*.tla; do :; done
(cd specs && for m in LineWrap Splicer EnumValues DeclGrammar DeclMutate Attrs Naming WrapSelect Scope Registry Lockstep CallBridge StrXfer BindC Capsule PyDispatch LuaDispatch LibGen LibGenPairs EmitOrder Trace_EmitOrder StmtTree MC_StmtTree Trace_StmtTree Symtab MC_Symtab Trace_Symtab Members MC_Members Trace_Members PyOwn MC_PyOwn Trace_PyOwn; do tla-sany $m.tla 2>&1 | grep -q "Semantic errors\|Cannot find\|\*\*\* Errors" && { echo "SANY failed on $m"; exit 1; }; done; true)
mkdir -p evidence
echo setup ok
