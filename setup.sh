#!/bin/sh
# Offline setup: nothing to build; verify the tools the checks rely on.
set -e
cd /verif
command -v tlc >/dev/null
command -v java >/dev/null
/venv/bin/python -c "import yaml"
/venv/bin/python -c "import sys; sys.path.insert(0,'/repo'); import shroud"
for f in specs/*.tla; do :; done
tla-sany specs/LineWrap.tla >/dev/null 2>&1 || { echo "SANY failed on LineWrap"; exit 1; }
mkdir -p evidence
echo setup ok
